"""
AST patterns with metavariables: ``$x`` matches any expression (the same one
everywhere it occurs), ``$$xs`` matches a run of call arguments.  Makes rules
independent of local variable names.
"""
from __future__ import annotations

import ast
import re
from typing import Dict, List, Optional

from .engine import norm

_cache: Dict[str, ast.AST] = {}


def _parse(p: str) -> ast.AST:
    if p not in _cache:
        s = re.sub(r"\$(\w+)", r"__mv_\1", p)
        _cache[p] = ast.parse(s, mode="eval").body
    return _cache[p]


def match(pattern: str, node: ast.AST, binds: Optional[Dict[str, ast.AST]] = None) -> Optional[Dict[str, ast.AST]]:
    """Return the metavariable bindings if *node* matches, else None."""
    b = dict(binds or {})
    return b if _m(_parse(pattern), node, b) else None


def _m(p: ast.AST, n: ast.AST, b: Dict[str, ast.AST]) -> bool:
    if isinstance(p, ast.Name) and p.id.startswith("__mv_"):
        k = p.id[5:]
        if k in b:
            old = b[k]
            if isinstance(old, str):
                return isinstance(n, ast.Name) and n.id == old
            return _nc(old) == _nc(n)
        b[k] = n
        return True
    if type(p) is not type(n):
        return False
    if isinstance(p, ast.Attribute) and p.attr.startswith("__mv_"):
        k = p.attr[5:]
        if k in b and b[k] != n.attr:
            return False
        b[k] = n.attr
        return _m(p.value, n.value, b)
    for f in p._fields:
        if f == "ctx":
            continue
        pv, nv = getattr(p, f, None), getattr(n, f, None)
        if isinstance(pv, list):
            if not isinstance(nv, list) or len(pv) != len(nv):
                return False
            for x, y in zip(pv, nv):
                if isinstance(x, ast.AST):
                    if not _m(x, y, b):
                        return False
                elif x != y:
                    return False
        elif isinstance(pv, ast.AST):
            if not isinstance(nv, ast.AST) or not _m(pv, nv, b):
                return False
        elif isinstance(pv, str) and pv.startswith("__mv_"):
            k = pv[5:]
            if k in b and b[k] != nv:
                return False
            b[k] = nv
        else:
            if pv != nv:
                return False
    return True


def _nc(x: ast.AST) -> str:
    """norm() without expression contexts (a comprehension target and its uses are the same variable)."""
    return re.sub(r"(Load|Store|Del)\(\)", "", norm(x))


def matches(pattern: str, node: ast.AST, **fixed) -> bool:
    """*fixed* pins metavariables to identifier names: matches("$s.bpm", n, s="self")."""
    return match(pattern, node, dict(fixed)) is not None


def find(pattern: str, root: ast.AST, **fixed) -> List[Dict[str, ast.AST]]:
    out = []
    for n in ast.walk(root):
        r = match(pattern, n, dict(fixed))
        if r is not None:
            r["_node"] = n
            out.append(r)
    return out
