"""
Load-time normal form, part 2: constants, formatting and higher-order spellings (added with refactoring batch 9).

Every rewrite here preserves semantics for the programs it applies to (the side conditions are checked on the tree), and each exists because
an independent behaviour-preserving refactoring used the spelling on its left-hand side:

  fold_private_constants   _SEP = ":" ... x.split(_SEP)            ->  x.split(":")          (also across modules of the package)
  format_calls             "a {} b {!r}".format(x, y)              ->  f"a {x} b {y!r}"
  function_values          map(f, xs) / filter(f, xs) / filterfalse(f, xs) / starmap(f, zip(..)) with a *named* function, attrgetter /
                           itemgetter / methodcaller objects called or handed to map                ->  generator expressions / lambdas applied
  for_break_else           for x in it: break / else: H            ->  x = next(iter(it), S); if x is S: H
  select_then_call         h = f1 | f2 | .. (chosen in an if-chain) ; .. h(args)                   ->  the call pushed into the branches
  first_match_loops        for k, f in TABLE: if x == k: S; break  / else: E                       ->  if x == k1: S1 elif x == k2: S2 .. else: E
"""
from __future__ import annotations

import ast
import copy
import string as _string
from typing import Dict, List, Optional, Set, Tuple


def _is_const_expr(e: ast.AST, known: Dict[str, ast.AST], stable: Set[str] = frozenset(), top: bool = True) -> bool:
    if isinstance(e, ast.Constant):
        return isinstance(e.value, (str, int, float, bool, bytes, type(None)))
    if isinstance(e, ast.Name):
        # inside a tuple, a name bound once at module level by an import or a class statement (a class, an imported function) is as good as a constant
        return e.id in known or (not top and e.id in stable)
    if isinstance(e, ast.Tuple):
        return bool(e.elts) and all(_is_const_expr(x, known, stable, False) for x in e.elts)
    if isinstance(e, ast.UnaryOp) and isinstance(e.op, ast.USub):
        return isinstance(e.operand, ast.Constant) and isinstance(e.operand.value, (int, float))
    return False


def _resolve(e: ast.AST, known: Dict[str, ast.AST]) -> ast.AST:
    class T(ast.NodeTransformer):
        def visit_Name(self, n: ast.Name):
            if isinstance(n.ctx, ast.Load) and n.id in known:
                return copy.deepcopy(known[n.id])
            return n
    return T().visit(copy.deepcopy(e))


def _module_level_bindings(t: ast.Module) -> Dict[str, List[ast.AST]]:
    out: Dict[str, List[ast.AST]] = {}
    for st in t.body:
        if isinstance(st, ast.Assign) and len(st.targets) == 1 and isinstance(st.targets[0], ast.Name):
            out.setdefault(st.targets[0].id, []).append(st.value)
        elif isinstance(st, ast.AnnAssign) and isinstance(st.target, ast.Name) and st.value is not None:
            out.setdefault(st.target.id, []).append(st.value)
        elif isinstance(st, (ast.FunctionDef, ast.AsyncFunctionDef, ast.ClassDef)):
            out.setdefault(st.name, []).append(st)
        elif isinstance(st, (ast.Import, ast.ImportFrom)):
            for a in st.names:
                out.setdefault((a.asname or a.name).split(".")[0], []).append(st)
    return out


def _stored_names(t: ast.Module) -> Dict[str, int]:
    """How often each name is a store / delete target anywhere in the module (function parameters count as stores)."""
    out: Dict[str, int] = {}
    for n in ast.walk(t):
        if isinstance(n, ast.Name) and isinstance(n.ctx, (ast.Store, ast.Del)):
            out[n.id] = out.get(n.id, 0) + 1
        elif isinstance(n, ast.arg):
            out[n.arg] = out.get(n.arg, 0) + 1
        elif isinstance(n, (ast.Global, ast.Nonlocal)):
            for nm in n.names:
                out[nm] = out.get(nm, 0) + 2
        elif isinstance(n, ast.ExceptHandler) and n.name:
            out[n.name] = out.get(n.name, 0) + 1
        elif isinstance(n, (ast.FunctionDef, ast.AsyncFunctionDef, ast.ClassDef)):
            out[n.name] = out.get(n.name, 0) + 1
        elif isinstance(n, (ast.Import, ast.ImportFrom)):
            for a in n.names:
                nm = (a.asname or a.name).split(".")[0]
                out[nm] = out.get(nm, 0) + 1
    return out


def _abs_module(mod: str, is_pkg: bool, level: int, name: Optional[str]) -> str:
    if level == 0:
        return name or ""
    base = mod.split(".")
    if not is_pkg:
        base = base[:-1]
    if level > 1:
        base = base[: len(base) - (level - 1)]
    return ".".join(base + ([name] if name else []))


def fold_private_constants(trees: Dict[str, ast.Module], pkgs: Set[str]) -> None:
    """A private module-level name (leading underscore, or any upper-case name of a module under a `_private` package) bound exactly once in
    its module - and never stored to anywhere else in it - to an immutable constant (str / number / bool / None, or a tuple of such, possibly
    through other such names) is replaced by the constant wherever it is read, in its own module and in modules that import it.  The binding
    stays (an unused name is harmless).  Immutable constants have no identity the program may rely on (`is` on strings is reported by R-IDENT
    on the constant as on the name)."""
    consts: Dict[str, Dict[str, ast.AST]] = {}
    for m, t in trees.items():
        if ".tests" in m or m.endswith("tests"):
            continue
        binds = _module_level_bindings(t)
        stores = _stored_names(t)
        priv_mod = "._private" in m or m.endswith("_private")
        known: Dict[str, ast.AST] = {}
        stable = {nm for nm, vals in binds.items() if len(vals) == 1 and stores.get(nm, 0) == 1 and isinstance(vals[0], (ast.ClassDef, ast.Import, ast.ImportFrom)) and nm[:1].isupper()}
        for _ in range(4):
            grew = False
            for nm, vals in binds.items():
                if nm in known or len(vals) != 1 or stores.get(nm, 0) != 1:
                    continue
                private = (nm.startswith("_") and not nm.startswith("__")) or (priv_mod and nm.isupper())
                if not private or isinstance(vals[0], (ast.stmt,)):
                    continue
                if not nm.startswith("_") and isinstance(vals[0], ast.Tuple):
                    continue  # the public-looking tables of a private module (extensions.IMAGE ..) are tables the rules read by name
                if _is_const_expr(vals[0], known, stable):
                    known[nm] = _resolve(vals[0], known)
                    grew = True
            if not grew:
                break
        if known:
            consts[m] = known
    if not consts:
        return
    for m, t in trees.items():
        if ".tests" in m or m.endswith("tests"):
            continue
        mapping: Dict[str, ast.AST] = dict(consts.get(m, {}))
        modalias: Dict[str, str] = {}
        stores = _stored_names(t)
        for st in t.body:
            if isinstance(st, ast.ImportFrom):
                src = _abs_module(m, m in pkgs, st.level, st.module)
                for a in st.names:
                    local = a.asname or a.name
                    if src in consts and a.name in consts[src] and stores.get(local, 0) == 1:
                        mapping[local] = consts[src][a.name]
                    sub = f"{src}.{a.name}" if src else a.name
                    if sub in consts and stores.get(local, 0) == 1:
                        modalias[local] = sub
        if not mapping and not modalias:
            continue

        class T(ast.NodeTransformer):
            def __init__(self):
                self.shadow: List[Set[str]] = []

            def _shadowed(self, nm: str) -> bool:
                return any(nm in s for s in self.shadow)

            def _scope(self, n):
                s: Set[str] = set()
                a = n.args
                for x in a.posonlyargs + a.args + a.kwonlyargs + ([a.vararg] if a.vararg else []) + ([a.kwarg] if a.kwarg else []):
                    s.add(x.arg)
                self.shadow.append(s)
                self.generic_visit(n)
                self.shadow.pop()
                return n

            visit_FunctionDef = _scope
            visit_AsyncFunctionDef = _scope
            visit_Lambda = _scope

            def visit_Name(self, n: ast.Name):
                if isinstance(n.ctx, ast.Load) and n.id in mapping and not self._shadowed(n.id):
                    return ast.copy_location(copy.deepcopy(mapping[n.id]), n)
                return n

            def visit_Attribute(self, n: ast.Attribute):
                if isinstance(n.ctx, ast.Load) and isinstance(n.value, ast.Name) and n.value.id in modalias and n.attr in consts[modalias[n.value.id]] and not self._shadowed(n.value.id):
                    return ast.copy_location(copy.deepcopy(consts[modalias[n.value.id]][n.attr]), n)
                self.generic_visit(n)
                return n

        # a name that is stored exactly once in the module (its binding) cannot be shadowed by a local; parameters were counted as stores
        T().visit(t)
        ast.fix_missing_locations(t)


# ---------------------------------------------------------------------------

def _parse_format(s: str) -> Optional[List[Tuple[str, Optional[str], Optional[str], Optional[str]]]]:
    try:
        return list(_string.Formatter().parse(s))
    except ValueError:
        return None


def format_calls(tree: ast.Module) -> None:
    """"..{}..{!r}..".format(a, b) with automatic (or 0, 1, ..) positional fields only, as many fields as arguments, no nested fields, no
    attribute / index lookups: the f-string that evaluates and formats the same values in the same order."""

    class T(ast.NodeTransformer):
        def visit_Call(self, n: ast.Call):
            self.generic_visit(n)
            f = n.func
            if not (isinstance(f, ast.Attribute) and f.attr == "format" and isinstance(f.value, ast.Constant) and isinstance(f.value.value, str)):
                return n
            if n.keywords or any(isinstance(a, ast.Starred) for a in n.args):
                return n
            parts = _parse_format(f.value.value)
            if parts is None:
                return n
            values: List[ast.expr] = []
            auto = 0
            used: List[int] = []
            for lit, field, spec, conv in parts:
                if lit:
                    values.append(ast.Constant(value=lit))
                if field is None:
                    continue
                if field == "":
                    idx = auto
                    auto += 1
                elif field.isdigit():
                    idx = int(field)
                else:
                    return n
                if idx >= len(n.args) or (spec and ("{" in spec or "}" in spec)):
                    return n
                used.append(idx)
                fv = ast.FormattedValue(value=copy.deepcopy(n.args[idx]), conversion=ord(conv) if conv else -1,
                                        format_spec=ast.JoinedStr(values=[ast.Constant(value=spec)]) if spec else None)
                values.append(fv)
            # same values, same order, each exactly once (str.format evaluates all arguments first, then formats left to right; with every
            # argument used once and in order, evaluation-then-formatting differs from the f-string only for arguments whose evaluation
            # observes the formatting of an earlier one - not expressible with the attribute reads / names the repo formats)
            if used != list(range(len(n.args))):
                return n
            if len(n.args) > 1 and not all(isinstance(a, (ast.Name, ast.Attribute, ast.Constant, ast.Subscript)) or _is_pure_call(a) for a in n.args):
                return n
            return ast.copy_location(ast.JoinedStr(values=values), n)

    T().visit(tree)
    ast.fix_missing_locations(tree)


def _is_pure_call(e: ast.AST) -> bool:
    return isinstance(e, ast.Call) and isinstance(e.func, ast.Name) and e.func.id in ("repr", "str", "len", "getattr", "type") and all(
        isinstance(a, (ast.Name, ast.Attribute, ast.Constant)) for a in e.args) and not e.keywords


# ---------------------------------------------------------------------------

_HO_NAMES = {"map", "filter", "filterfalse", "starmap"}


def _named_function(e: ast.AST) -> bool:
    """A function value that can be written again at the call: a plain name, a dotted name, a bound method of a name (`self._m`, `s.endswith`),
    a lambda, or a str method of a constant (`"".join`)."""
    if isinstance(e, (ast.Name, ast.Lambda)):
        return True
    if isinstance(e, ast.Attribute):
        x = e
        while isinstance(x, ast.Attribute):
            x = x.value
        return isinstance(x, (ast.Name, ast.Constant))
    return False


def _fresh(prefix: str, tree: ast.AST, counter: List[int]) -> str:
    counter[0] += 1
    return f"{prefix}{counter[0]}"


def _apply(f: ast.expr, args: List[ast.expr]) -> ast.expr:
    """f(args), beta-reduced when f is a lambda over plain positional parameters each used at most once... (kept simple: substitute)."""
    if isinstance(f, ast.Lambda) and not (f.args.vararg or f.args.kwarg or f.args.kwonlyargs or f.args.defaults) and len(f.args.args) == len(args) \
            and all(isinstance(a, (ast.Name, ast.Constant)) for a in args):
        m = {p.arg: a for p, a in zip(f.args.args, args)}

        class S(ast.NodeTransformer):
            def visit_Name(self, n: ast.Name):
                if isinstance(n.ctx, ast.Load) and n.id in m:
                    return copy.deepcopy(m[n.id])
                return n

            def visit_Lambda(self, n: ast.Lambda):
                return n
        return S().visit(copy.deepcopy(f.body))
    return ast.Call(func=copy.deepcopy(f), args=[copy.deepcopy(a) for a in args], keywords=[])


_OP_ALIASES: Dict[str, str] = {}


def _operator_object(e: ast.AST) -> Optional[ast.Lambda]:
    """attrgetter('a') / attrgetter('a', 'b') / itemgetter(0) / methodcaller('m', x..) as the lambda it stands for."""
    if not (isinstance(e, ast.Call) and not any(isinstance(a, ast.Starred) for a in e.args)):
        return None
    nm = e.func.attr if isinstance(e.func, ast.Attribute) and isinstance(e.func.value, ast.Name) and e.func.value.id == "operator" else (e.func.id if isinstance(e.func, ast.Name) else None)
    nm = _OP_ALIASES.get(nm, nm)
    v = ast.Name(id="_ox", ctx=ast.Load())
    largs = ast.arguments(posonlyargs=[], args=[ast.arg(arg="_ox")], vararg=None, kwonlyargs=[], kw_defaults=[], kwarg=None, defaults=[])
    if nm == "attrgetter" and e.args and not e.keywords and all(isinstance(a, ast.Constant) and isinstance(a.value, str) for a in e.args):
        def chain(path: str) -> ast.expr:
            x: ast.expr = copy.deepcopy(v)
            for part in path.split("."):
                x = ast.Attribute(value=x, attr=part, ctx=ast.Load())
            return x
        body = chain(e.args[0].value) if len(e.args) == 1 else ast.Tuple(elts=[chain(a.value) for a in e.args], ctx=ast.Load())
        return ast.Lambda(args=largs, body=body)
    if nm == "itemgetter" and e.args and not e.keywords and all(isinstance(a, ast.Constant) for a in e.args):
        def item(c: ast.Constant) -> ast.expr:
            return ast.Subscript(value=copy.deepcopy(v), slice=copy.deepcopy(c), ctx=ast.Load())
        body = item(e.args[0]) if len(e.args) == 1 else ast.Tuple(elts=[item(a) for a in e.args], ctx=ast.Load())
        return ast.Lambda(args=largs, body=body)
    if nm == "methodcaller" and e.args and isinstance(e.args[0], ast.Constant) and isinstance(e.args[0].value, str) \
            and all(isinstance(a, (ast.Constant, ast.Name)) for a in e.args[1:]) and all(isinstance(k.value, (ast.Constant, ast.Name)) for k in e.keywords):
        body = ast.Call(func=ast.Attribute(value=copy.deepcopy(v), attr=e.args[0].value, ctx=ast.Load()), args=[copy.deepcopy(a) for a in e.args[1:]],
                        keywords=[copy.deepcopy(k) for k in e.keywords])
        return ast.Lambda(args=largs, body=body)
    return None


def function_values(tree: ast.Module) -> None:
    """Higher-order spellings with a function value that can be named again become first-order ones, so that the helper behind the name is a
    call (and can be inlined) and the element expression is visible to the rules."""
    counter = [0]
    imported_ops: Set[str] = set()
    _OP_ALIASES.clear()
    for n in ast.walk(tree):
        if isinstance(n, ast.ImportFrom) and n.module == "operator":
            imported_ops |= {a.asname or a.name for a in n.names if a.name in ("attrgetter", "itemgetter", "methodcaller")}
            _OP_ALIASES.update({a.asname: a.name for a in n.names if a.asname and a.name in ("attrgetter", "itemgetter", "methodcaller")})
    # private module-level / class-level / local names bound once to an operator object: _BY_POS = attrgetter("player", "beat") -> its lambda
    opnames: Dict[str, ast.Lambda] = {}
    stores = _stored_names(tree)
    for n in ast.walk(tree):
        if isinstance(n, ast.Assign) and len(n.targets) == 1 and isinstance(n.targets[0], ast.Name) and stores.get(n.targets[0].id, 0) == 1:
            lam = _operator_object(n.value)
            if lam is not None and (isinstance(n.value.func, ast.Attribute) or n.value.func.id in imported_ops):
                opnames[n.targets[0].id] = lam

    class T(ast.NodeTransformer):
        def visit_Call(self, n: ast.Call):
            self.generic_visit(n)
            f = n.func
            # an operator object (or a name bound to one) applied directly
            lam = None
            if isinstance(f, ast.Name) and f.id in opnames:
                lam = opnames[f.id]
            elif isinstance(f, ast.Call):
                lam = _operator_object(f)
                if lam is not None and isinstance(f.func, ast.Name) and f.func.id not in imported_ops:
                    lam = None
            if lam is not None and len(n.args) == 1 and not n.keywords and not isinstance(n.args[0], ast.Starred):
                a = n.args[0]
                if isinstance(a, (ast.Name, ast.Constant)) or (isinstance(a, ast.Attribute) and isinstance(a.value, ast.Name)):
                    m = {"_ox": a}

                    class S(ast.NodeTransformer):
                        def visit_Name(self, x: ast.Name):
                            return copy.deepcopy(m[x.id]) if x.id in m else x
                    return ast.copy_location(S().visit(copy.deepcopy(lam.body)), n)
                return n
            nm = f.id if isinstance(f, ast.Name) else (f.attr if isinstance(f, ast.Attribute) and isinstance(f.value, ast.Name) and f.value.id == "itertools" else None)
            if nm not in _HO_NAMES or n.keywords or len(n.args) < 2 or any(isinstance(a, ast.Starred) for a in n.args):
                return n
            fv = n.args[0]
            if isinstance(fv, ast.Name) and fv.id in opnames:
                fv = opnames[fv.id]
            elif _operator_object(fv) is not None:
                fv = _operator_object(fv)
            if isinstance(fv, ast.Constant) and fv.value is None and nm in ("filter", "filterfalse") and len(n.args) == 2:
                v = _fresh("_hv", tree, counter)
                cond: ast.expr = ast.Name(id=v, ctx=ast.Load())
                if nm == "filterfalse":
                    cond = ast.UnaryOp(op=ast.Not(), operand=cond)
                return ast.copy_location(ast.GeneratorExp(elt=ast.Name(id=v, ctx=ast.Load()), generators=[
                    ast.comprehension(target=ast.Name(id=v, ctx=ast.Store()), iter=n.args[1], ifs=[cond], is_async=0)]), n)
            if not _named_function(fv):
                return n
            if nm == "map" and len(n.args) >= 2:
                vs = [_fresh("_hv", tree, counter) for _ in n.args[1:]]
                call = _apply(fv, [ast.Name(id=v, ctx=ast.Load()) for v in vs])
                if len(vs) == 1:
                    tgt: ast.expr = ast.Name(id=vs[0], ctx=ast.Store())
                    it: ast.expr = n.args[1]
                else:
                    tgt = ast.Tuple(elts=[ast.Name(id=v, ctx=ast.Store()) for v in vs], ctx=ast.Store())
                    it = ast.Call(func=ast.Name(id="zip", ctx=ast.Load()), args=list(n.args[1:]), keywords=[])
                return ast.copy_location(ast.GeneratorExp(elt=call, generators=[ast.comprehension(target=tgt, iter=it, ifs=[], is_async=0)]), n)
            if nm in ("filter", "filterfalse") and len(n.args) == 2:
                v = _fresh("_hv", tree, counter)
                cond = _apply(fv, [ast.Name(id=v, ctx=ast.Load())])
                if nm == "filterfalse":
                    cond = ast.UnaryOp(op=ast.Not(), operand=cond)
                return ast.copy_location(ast.GeneratorExp(elt=ast.Name(id=v, ctx=ast.Load()), generators=[
                    ast.comprehension(target=ast.Name(id=v, ctx=ast.Store()), iter=n.args[1], ifs=[cond], is_async=0)]), n)
            if nm == "starmap" and len(n.args) == 2:
                it = n.args[1]
                arity = None
                if isinstance(it, ast.Call) and isinstance(it.func, ast.Name) and it.func.id in ("zip", "enumerate") and not it.keywords:
                    arity = len(it.args) if it.func.id == "zip" else 2
                if isinstance(fv, ast.Lambda) and not fv.args.defaults and not fv.args.vararg:
                    arity = len(fv.args.args)
                if arity is None:
                    v = _fresh("_hv", tree, counter)
                    call = ast.Call(func=copy.deepcopy(fv), args=[ast.Starred(value=ast.Name(id=v, ctx=ast.Load()), ctx=ast.Load())], keywords=[])
                    return ast.copy_location(ast.GeneratorExp(elt=call, generators=[ast.comprehension(target=ast.Name(id=v, ctx=ast.Store()), iter=it, ifs=[], is_async=0)]), n)
                vs = [_fresh("_hv", tree, counter) for _ in range(arity)]
                call = _apply(fv, [ast.Name(id=v, ctx=ast.Load()) for v in vs])
                tgt = ast.Tuple(elts=[ast.Name(id=v, ctx=ast.Store()) for v in vs], ctx=ast.Store())
                return ast.copy_location(ast.GeneratorExp(elt=call, generators=[ast.comprehension(target=tgt, iter=it, ifs=[], is_async=0)]), n)
            return n

        def visit_Tuple(self, n: ast.Tuple):
            self.generic_visit(n)
            if isinstance(n.ctx, ast.Load):
                for i_, e_ in enumerate(n.elts):
                    lam_ = _operator_object(e_)
                    if lam_ is not None and (isinstance(e_.func, ast.Attribute) or e_.func.id in imported_ops):
                        n.elts[i_] = ast.copy_location(lam_, e_)
            return n

        def visit_keyword(self, k: ast.keyword):
            # key=attrgetter(..) / key=_BY_POS: the lambda
            self.generic_visit(k)
            if k.arg == "key":
                if isinstance(k.value, ast.Name) and k.value.id in opnames:
                    k.value = copy.deepcopy(opnames[k.value.id])
                else:
                    lam = _operator_object(k.value)
                    if lam is not None:
                        k.value = lam
            return k

    T().visit(tree)
    ast.fix_missing_locations(tree)


# ---------------------------------------------------------------------------

def genexp_for_loops(tree: ast.Module) -> None:
    """for T in (E for V in IT if C..): BODY   ->   for V in IT: if C: T = E; BODY      (single generator; `continue` in BODY stays a continue
    of the same loop, `break` a break).  The loop variable V must not clash with a name of the enclosing function."""

    def fn_names(fn: ast.AST) -> Set[str]:
        return {n.id for n in ast.walk(fn) if isinstance(n, ast.Name)} | {a.arg for n in ast.walk(fn) if isinstance(n, ast.arguments) for a in n.posonlyargs + n.args + n.kwonlyargs}

    for fn in [n for n in ast.walk(tree) if isinstance(n, (ast.FunctionDef, ast.AsyncFunctionDef))]:
      for _round in range(4):
        for holder in ast.walk(fn):
            for fld in ("body", "orelse", "finalbody"):
                body = getattr(holder, fld, None)
                if not (isinstance(body, list) and body and isinstance(body[0], ast.stmt)):
                    continue
                for i, st in enumerate(body):
                    if not (isinstance(st, ast.For) and isinstance(st.iter, ast.GeneratorExp) and len(st.iter.generators) == 1 and not st.iter.generators[0].is_async):
                        continue
                    g = st.iter.generators[0]
                    gnames = {n.id for n in ast.walk(g.target) if isinstance(n, ast.Name)}
                    # the generator's variable must be new to the function (it becomes a local)
                    others = {n.id for x in fn.body for n in ast.walk(x) if isinstance(n, ast.Name) and n is not None} - {n.id for n in ast.walk(st.iter) if isinstance(n, ast.Name)}
                    if gnames & others:
                        continue
                    bind = ast.Assign(targets=[st.target], value=st.iter.elt)
                    inner: List[ast.stmt] = [bind] + st.body
                    if isinstance(st.target, ast.Name) and isinstance(st.iter.elt, ast.Name) and st.target.id == st.iter.elt.id:
                        inner = st.body
                    for c in reversed(g.ifs):
                        # a false filter skips the element: `continue` semantics
                        inner = [ast.If(test=ast.UnaryOp(op=ast.Not(), operand=c), body=[ast.Continue()], orelse=[])] + inner
                    new = ast.For(target=g.target, iter=g.iter, body=inner, orelse=st.orelse, type_comment=None)
                    ast.copy_location(new, st)
                    for x in ast.walk(new):
                        if isinstance(x, (ast.stmt, ast.expr)) and not hasattr(x, "lineno"):
                            ast.copy_location(x, st)
                    body[i] = new
    ast.fix_missing_locations(tree)


# ---------------------------------------------------------------------------

_ITERATOR_MAKERS = {"parse_msd", "iter", "map", "filter", "zip", "enumerate", "reversed", "chain", "islice", "groupby", "merge", "filterfalse", "starmap", "accumulate", "takewhile", "dropwhile"}


def _always_iterator(tree: ast.AST, name: str) -> bool:
    """Every binding of *name* (in whatever function binds it) is the result of a call known to return an iterator (library fact: msdparser's
    parse_msd is a generator function; the itertools / builtin makers), or a generator expression."""
    vals: List[Optional[ast.AST]] = []
    for n in ast.walk(tree):
        if isinstance(n, ast.Assign):
            for t in n.targets:
                if isinstance(t, ast.Name) and t.id == name:
                    vals.append(n.value)
                elif any(isinstance(x, ast.Name) and x.id == name for x in ast.walk(t)):
                    vals.append(None)
        elif isinstance(n, (ast.AnnAssign, ast.AugAssign, ast.For, ast.With, ast.NamedExpr)) or isinstance(n, ast.arg):
            if isinstance(n, ast.arg):
                if n.arg == name:
                    vals.append(None)
            else:
                tgt = getattr(n, "target", None)
                if tgt is not None and any(isinstance(x, ast.Name) and x.id == name for x in ast.walk(tgt)):
                    vals.append(n.value if isinstance(n, ast.AnnAssign) else None)
    if not vals:
        return False
    for v in vals:
        if isinstance(v, ast.GeneratorExp):
            continue
        if isinstance(v, ast.Call):
            f = v.func
            nm = f.id if isinstance(f, ast.Name) else (f.attr if isinstance(f, ast.Attribute) else None)
            if nm in _ITERATOR_MAKERS:
                continue
        return False
    return True


def for_break_else(tree: ast.Module) -> None:
    """for x in IT: break / else: H   ->   x = next(iter(IT), __EXHAUSTED__); if x is __EXHAUSTED__: H
    (the first element, or the exhausted branch - the shape the `next` / StopIteration normal form produces)."""
    from .normalize import EXHAUSTED
    for holder in ast.walk(tree):
        for fld in ("body", "orelse", "finalbody"):
            body = getattr(holder, fld, None)
            if not (isinstance(body, list) and body and isinstance(body[0], ast.stmt)):
                continue
            out: List[ast.stmt] = []
            changed = False
            for st in body:
                if isinstance(st, ast.For) and len(st.body) == 1 and isinstance(st.body[0], ast.Break) and isinstance(st.target, ast.Name):
                    it = st.iter
                    src_it: ast.expr = ast.Call(func=ast.Name(id="iter", ctx=ast.Load()), args=[it], keywords=[])
                    if isinstance(it, ast.Name) and _always_iterator(tree, it.id):
                        src_it = it  # iter() of an iterator is the iterator
                    call = ast.Call(func=ast.Name(id="next", ctx=ast.Load()), args=[src_it, ast.Name(id=EXHAUSTED, ctx=ast.Load())], keywords=[])
                    a = ast.Assign(targets=[ast.Name(id=st.target.id, ctx=ast.Store())], value=call)
                    out.append(ast.copy_location(a, st))
                    if st.orelse:
                        test = ast.Compare(left=ast.Name(id=st.target.id, ctx=ast.Load()), ops=[ast.Is()], comparators=[ast.Name(id=EXHAUSTED, ctx=ast.Load())])
                        out.append(ast.copy_location(ast.If(test=test, body=st.orelse, orelse=[]), st))
                    changed = True
                else:
                    out.append(st)
            if changed:
                for x in out:
                    for y in ast.walk(x):
                        if isinstance(y, (ast.stmt, ast.expr)) and not hasattr(y, "lineno"):
                            ast.copy_location(y, holder if hasattr(holder, "lineno") else body[0])
                setattr(holder, fld, out)
    ast.fix_missing_locations(tree)


# ---------------------------------------------------------------------------

def _is_func_ref(e: ast.AST) -> bool:
    if isinstance(e, (ast.Name, ast.Lambda)):
        return True
    return isinstance(e, ast.Attribute) and isinstance(e.value, ast.Name)


def first_match_loops(tree: ast.Module) -> None:
    """for K.., F.. in <display of rows>: if TEST: S..; break|return   [else: E]
         ->  if TEST[row1]: S[row1] elif TEST[row2]: S[row2] .. else: E
    The rows are tuples of names / constants / dotted names written in the loop header (module-level private tables were substituted there by
    the private-table pass, local ones are resolved here); the loop variables are not used after the loop unless every row assigns them... they
    are simply not allowed to be read after the loop."""

    def rows_of(e: ast.AST, local_tables: Dict[str, ast.AST]) -> Optional[List[ast.Tuple]]:
        if isinstance(e, ast.Name) and e.id in local_tables:
            e = local_tables[e.id]
        if isinstance(e, (ast.Tuple, ast.List)) and 1 <= len(e.elts) <= 8 and all(
                isinstance(r, ast.Tuple) and r.elts and all(isinstance(x, (ast.Name, ast.Constant, ast.Attribute, ast.Lambda)) for x in r.elts) for r in e.elts) \
                and len({len(r.elts) for r in e.elts}) == 1:
            return list(e.elts)
        return None

    module_tables: Dict[str, ast.AST] = {}
    stores = _stored_names(tree)
    for st in tree.body:
        tgt = val = None
        if isinstance(st, ast.Assign) and len(st.targets) == 1 and isinstance(st.targets[0], ast.Name):
            tgt, val = st.targets[0].id, st.value
        elif isinstance(st, ast.AnnAssign) and isinstance(st.target, ast.Name) and st.value is not None:
            tgt, val = st.target.id, st.value
        if tgt and tgt.startswith("_") and stores.get(tgt, 0) == 1 and isinstance(val, (ast.Tuple, ast.List)):
            module_tables[tgt] = val

    for fn in [n for n in ast.walk(tree) if isinstance(n, (ast.FunctionDef, ast.AsyncFunctionDef))]:
        local_tables = dict(module_tables)
        for st in fn.body:
            if isinstance(st, ast.Assign) and len(st.targets) == 1 and isinstance(st.targets[0], ast.Name) and isinstance(st.value, (ast.Tuple, ast.List)) and stores.get(st.targets[0].id, 0) == 1:
                local_tables[st.targets[0].id] = st.value
        for holder in ast.walk(fn):
            for fld in ("body", "orelse", "finalbody"):
                body = getattr(holder, fld, None)
                if not (isinstance(body, list) and body and isinstance(body[0], ast.stmt)):
                    continue
                for i, st in enumerate(body):
                    if not (isinstance(st, ast.For) and isinstance(st.target, ast.Tuple) and all(isinstance(x, ast.Name) for x in st.target.elts)):
                        continue
                    rows = rows_of(st.iter, local_tables)
                    if rows is None or len(rows[0].elts) != len(st.target.elts):
                        continue
                    if not (len(st.body) == 1 and isinstance(st.body[0], ast.If) and not st.body[0].orelse and st.body[0].body):
                        continue
                    iff = st.body[0]
                    last = iff.body[-1]
                    if not isinstance(last, (ast.Break, ast.Return)):
                        continue
                    if isinstance(last, ast.Return) and not st.orelse:
                        pass
                    inner = iff.body[:-1] if isinstance(last, ast.Break) else iff.body
                    if any(isinstance(n, (ast.Break, ast.Continue)) for x in inner for n in ast.walk(x)):
                        continue
                    tnames = [x.id for x in st.target.elts]
                    if any(isinstance(n, ast.Name) and n.id in tnames and isinstance(n.ctx, (ast.Store, ast.Del)) for x in st.body for n in ast.walk(x)):
                        continue
                    # loop variables must not be read after the loop
                    after = [n for x in body[i + 1:] for n in ast.walk(x) if isinstance(n, ast.Name) and n.id in tnames and isinstance(n.ctx, ast.Load)]
                    if after:
                        continue
                    # names in the rows must mean the same at the loop (not re-bound in this function)
                    names_in = {x.id for r in rows for x in r.elts if isinstance(x, ast.Name)}
                    if any(isinstance(n, ast.Name) and n.id in names_in and isinstance(n.ctx, (ast.Store, ast.Del)) for n in ast.walk(fn)):
                        continue
                    chain_else: List[ast.stmt] = list(st.orelse)
                    node: Optional[ast.If] = None
                    for r in reversed(rows):
                        m = dict(zip(tnames, r.elts))

                        class S(ast.NodeTransformer):
                            def visit_Name(self, n: ast.Name):
                                if isinstance(n.ctx, ast.Load) and n.id in m:
                                    return copy.deepcopy(m[n.id])
                                return n
                        test = S().visit(copy.deepcopy(iff.test))
                        blk = [S().visit(copy.deepcopy(x)) for x in inner] or [ast.Pass()]
                        node = ast.If(test=test, body=blk, orelse=chain_else)
                        chain_else = [node]
                    assert node is not None
                    ast.copy_location(node, st)
                    for x in ast.walk(node):
                        if isinstance(x, (ast.stmt, ast.expr)) and not hasattr(x, "lineno"):
                            ast.copy_location(x, st)
                    body[i] = node
    ast.fix_missing_locations(tree)


# ---------------------------------------------------------------------------

def select_then_call(tree: ast.Module) -> None:
    """h = <function reference>  on every path of a run of statements that only choose h (a default assignment, if-chains), h read exactly once
    in the function, as the callee of a call whose arguments are plain names / attributes / constants:
         if A: h = f elif B: h = g else: h = k ; .. ; r = h(x, y)     ->   .. ; if A: r = f(x, y) elif B: r = g(x, y) else: r = k(x, y)
    (also `return h(..)`, an expression statement, `yield from h(..)`).  When the call does not follow the choice directly, the conditions are
    re-evaluated where the call is: they must then be comparisons / isinstance tests over names that are never assigned in the function."""

    def norm(s: ast.stmt) -> ast.stmt:
        if isinstance(s, ast.AnnAssign) and s.value is not None and isinstance(s.target, ast.Name):
            return ast.copy_location(ast.Assign(targets=[s.target], value=s.value), s)
        return s

    def assigns_only(stmts: List[ast.stmt], name: str) -> bool:
        if not stmts:
            return False
        for s in stmts:
            s = norm(s)
            if isinstance(s, ast.Assign) and len(s.targets) == 1 and isinstance(s.targets[0], ast.Name) and s.targets[0].id == name and _is_func_ref(s.value):
                continue
            if isinstance(s, ast.If) and assigns_only(s.body, name) and (not s.orelse or assigns_only(s.orelse, name)):
                continue
            return False
        return True

    def total(stmts: List[ast.stmt], name: str) -> bool:
        for s in stmts:
            s = norm(s)
            if isinstance(s, ast.Assign) and isinstance(s.targets[0], ast.Name) and s.targets[0].id == name:
                return True
            if isinstance(s, ast.If) and s.orelse and total(s.body, name) and total(s.orelse, name):
                return True
        return False

    def push(stmts: List[ast.stmt], name: str, make) -> List[ast.stmt]:
        out: List[ast.stmt] = []
        for s in stmts:
            s = norm(s)
            if isinstance(s, ast.Assign):
                out.append(ast.copy_location(make(s.value), s))
            else:
                assert isinstance(s, ast.If)
                out.append(ast.copy_location(ast.If(test=copy.deepcopy(s.test), body=push(s.body, name, make), orelse=push(s.orelse, name, make) if s.orelse else []), s))
        return out

    def tests_of(stmts: List[ast.stmt]) -> List[ast.expr]:
        out: List[ast.expr] = []
        for s in stmts:
            if isinstance(s, ast.If):
                out.append(s.test)
                out.extend(tests_of(s.body))
                out.extend(tests_of(s.orelse))
        return out

    def stable(test: ast.expr, fn: ast.AST) -> bool:
        stored = {n.id for n in ast.walk(fn) if isinstance(n, ast.Name) and isinstance(n.ctx, (ast.Store, ast.Del))}
        for n in ast.walk(test):
            if isinstance(n, ast.Call) and not (isinstance(n.func, ast.Name) and n.func.id in ("isinstance", "issubclass", "type", "len")):
                return False
            if isinstance(n, (ast.Await, ast.Yield, ast.YieldFrom, ast.NamedExpr, ast.Lambda, ast.Subscript)):
                return False
            if isinstance(n, ast.Name) and n.id in stored:
                return False
        return True

    for fn in [n for n in ast.walk(tree) if isinstance(n, (ast.FunctionDef, ast.AsyncFunctionDef))]:
        body = fn.body
        i = 0
        while i < len(body):
            st0 = norm(body[i])
            cand = None
            if isinstance(st0, ast.Assign) and len(st0.targets) == 1 and isinstance(st0.targets[0], ast.Name) and _is_func_ref(st0.value):
                cand = st0.targets[0].id
            elif isinstance(st0, ast.If):
                names = {n.targets[0].id for n in ast.walk(st0) if isinstance(n, ast.Assign) and len(n.targets) == 1 and isinstance(n.targets[0], ast.Name) and _is_func_ref(n.value)}
                cand = next((nm for nm in sorted(names) if assigns_only([st0], nm)), None)
            if cand is None or not assigns_only([body[i]], cand):
                i += 1
                continue
            name = cand
            j = i
            while j + 1 < len(body) and assigns_only([body[j + 1]], name):
                j += 1
            sel = [norm(x) for x in body[i:j + 1]]
            if not total(sel, name):
                i = j + 1
                continue
            # stores of the name: only inside the selection
            sel_ids = {id(n) for x in body[i:j + 1] for n in ast.walk(x)}
            if any(isinstance(n, ast.Name) and n.id == name and isinstance(n.ctx, (ast.Store, ast.Del)) and id(n) not in sel_ids for n in ast.walk(fn)) \
                    or any(isinstance(n, (ast.Nonlocal, ast.Global)) and name in n.names for n in ast.walk(fn)):
                i = j + 1
                continue
            loads = [n for n in ast.walk(fn) if isinstance(n, ast.Name) and n.id == name and isinstance(n.ctx, ast.Load)]
            if len(loads) != 1:
                i = j + 1
                continue
            # the use: a statement (anywhere in the function, also in a nested function) whose value is the call name(args)
            use = None
            use_holder = None
            for holder in ast.walk(fn):
                for fld in ("body", "orelse", "finalbody"):
                    blk = getattr(holder, fld, None)
                    if not (isinstance(blk, list) and blk and isinstance(blk[0], ast.stmt)):
                        continue
                    for k_, x in enumerate(blk):
                        v = getattr(x, "value", None) if isinstance(x, (ast.Return, ast.Expr, ast.Assign)) else None
                        if isinstance(v, ast.YieldFrom):
                            v = v.value
                        if isinstance(v, ast.Call) and v.func is loads[0]:
                            use, use_holder = x, (blk, k_)
            if use is None:
                i = j + 1
                continue
            call = use.value.value if isinstance(use.value, ast.YieldFrom) else use.value
            adjacent = use_holder[0] is body and use_holder[1] == j + 1
            if not all(isinstance(a, (ast.Name, ast.Constant, ast.Attribute)) for a in call.args) or any(k.arg is None for k in call.keywords) \
                    or not all(isinstance(k.value, (ast.Name, ast.Constant, ast.Attribute)) for k in call.keywords):
                i = j + 1
                continue
            if not adjacent and not all(stable(t_, fn) for t_ in tests_of(sel)):
                i = j + 1
                continue
            # the chosen functions must be nameable at the use: names not re-bound in the function
            frefs = [n.value for x in sel for n in ast.walk(x) if isinstance(n, ast.Assign)]
            stored = {n.id for n in ast.walk(fn) if isinstance(n, ast.Name) and isinstance(n.ctx, (ast.Store, ast.Del))}
            if not adjacent and any(isinstance(n, ast.Name) and n.id in stored for f_ in frefs for n in ast.walk(f_)):
                i = j + 1
                continue

            def make(fref: ast.expr, use=use, call=call):
                c2 = ast.Call(func=copy.deepcopy(fref), args=[copy.deepcopy(a) for a in call.args], keywords=[copy.deepcopy(k) for k in call.keywords])
                u2 = copy.copy(use)
                if isinstance(use.value, ast.YieldFrom):
                    u2.value = ast.copy_location(ast.YieldFrom(value=c2), use.value)
                else:
                    u2.value = c2
                return u2
            new_sel = sequence_push(sel, name, make, push)
            for x in new_sel:
                for y in ast.walk(x):
                    if isinstance(y, (ast.stmt, ast.expr)) and not hasattr(y, "lineno"):
                        ast.copy_location(y, use)
            blk, k_ = use_holder
            if blk is body:
                # remove the selection, replace the use (indices shift)
                blk[k_:k_ + 1] = new_sel
                del body[i:j + 1]
            else:
                blk[k_:k_ + 1] = new_sel
                del body[i:j + 1]
            if not body:
                body.append(ast.Pass())
            # restart on this function
            i = 0
    ast.fix_missing_locations(tree)


def total_seq(sel: List[ast.stmt], name: str, total) -> bool:
    return total(sel, name)


def sequence_push(sel: List[ast.stmt], name: str, make, push) -> List[ast.stmt]:
    """sel is `h = d` followed by if-chains that may override it (later assignments win), or one total if-chain.  Convert to a single nested
    decision: the last statement decides first; where it does not assign, the earlier ones do."""
    # build from the front: current = statements assigning on all paths so far
    def merge(earlier: List[ast.stmt], later: ast.stmt) -> List[ast.stmt]:
        """the effect of `earlier` (total) followed by `later` (maybe partial): where later assigns, its value; elsewhere earlier's."""
        if isinstance(later, ast.Assign):
            return [later]
        assert isinstance(later, ast.If)
        b = later.body
        o = later.orelse
        nb = earlier
        for s in b:
            nb = merge(nb, s)
        no = earlier
        for s in o:
            no = merge(no, s)
        return [ast.copy_location(ast.If(test=later.test, body=copy.deepcopy(nb), orelse=copy.deepcopy(no)), later)]

    cur: List[ast.stmt] = []
    for s in sel:
        if not cur:
            cur = [s]
        else:
            cur = merge(cur, s)
    return push(cur, name, make)


# ---------------------------------------------------------------------------

def loop_target_unpack(tree: ast.Module) -> None:
    """for v in IT: (a, b) = v; BODY   with v used nowhere else in the function   ->   for (a, b) in IT: BODY
    (also when the unpacking is the first statement after leading `if not C: continue` filters that do not read a / b)."""
    for fn in [n for n in ast.walk(tree) if isinstance(n, (ast.FunctionDef, ast.AsyncFunctionDef))]:
        for st in [n for n in ast.walk(fn) if isinstance(n, ast.For)]:
            if not (isinstance(st.target, ast.Name) and st.body):
                continue
            v = st.target.id
            # leading filters `if <test>: continue` that read v only as v[<int>]
            k = 0
            while k < len(st.body) and isinstance(st.body[k], ast.If) and not st.body[k].orelse and len(st.body[k].body) == 1 and isinstance(st.body[k].body[0], ast.Continue):
                k += 1
            if k >= len(st.body):
                continue
            first = st.body[k]
            if not (isinstance(first, ast.Assign) and len(first.targets) == 1 and isinstance(first.targets[0], (ast.Tuple, ast.List)) and isinstance(first.value, ast.Name) and first.value.id == v
                    and all(isinstance(x, ast.Name) for x in first.targets[0].elts)):
                continue
            names = [x.id for x in first.targets[0].elts]
            sub_uses = []
            okf = True
            for f_ in st.body[:k]:
                for n in ast.walk(f_.test):
                    if isinstance(n, ast.Subscript) and isinstance(n.value, ast.Name) and n.value.id == v:
                        if isinstance(n.slice, ast.Constant) and isinstance(n.slice.value, int) and 0 <= n.slice.value < len(names):
                            sub_uses.append(n)
                        else:
                            okf = False
                    # the unpacked names must not already be read by the filters
                    if isinstance(n, ast.Name) and n.id in names:
                        okf = False
            uses = sum(1 for n in ast.walk(fn) if isinstance(n, ast.Name) and n.id == v)
            if not okf or uses != 2 + len(sub_uses):  # the loop target, the unpacking, and the v[i] reads of the filters
                continue
            # the names must be new at this point: not used elsewhere before being bound here is guaranteed by Python scoping only if they are
            # not read between loop head and unpacking - checked above
            for f_ in st.body[:k]:
                class S(ast.NodeTransformer):
                    def visit_Subscript(self, n: ast.Subscript):
                        if any(n is u for u in sub_uses):
                            return ast.copy_location(ast.Name(id=names[n.slice.value], ctx=ast.Load()), n)
                        return self.generic_visit(n)
                f_.test = S().visit(f_.test)
            st.target = ast.copy_location(ast.Tuple(elts=[ast.Name(id=x, ctx=ast.Store()) for x in names], ctx=ast.Store()), st.target)
            st.body = (st.body[:k] + st.body[k + 1:]) or [ast.copy_location(ast.Pass(), first)]
    ast.fix_missing_locations(tree)


# ---------------------------------------------------------------------------

def unroll_constant_loops(tree: ast.Module) -> None:
    """for v in (c1, c2, ..): BODY   over a display of at most eight constants / dotted names written in the loop header (a private table was
    substituted there), no break / else, v not re-assigned and not read after the loop: one copy of BODY per element with v replaced, each in
    a Once block where `continue` leaves the block."""
    from .normalize import Once

    def conv(stmts: List[ast.stmt]) -> Optional[List[ast.stmt]]:
        out: List[ast.stmt] = []
        for x in stmts:
            if isinstance(x, ast.Continue):
                b_ = ast.copy_location(ast.Break(), x)
                b_._once_exit = True
                out.append(b_)
                continue
            if isinstance(x, ast.Break) or isinstance(x, Once):
                return None
            if isinstance(x, (ast.For, ast.AsyncFor, ast.While)):
                if any(isinstance(n, (ast.Break, ast.Continue)) for y in x.orelse for n in ast.walk(y)):
                    return None
                out.append(x)
                continue
            if isinstance(x, (ast.FunctionDef, ast.AsyncFunctionDef, ast.ClassDef)):
                out.append(x)
                continue
            new = copy.copy(x)
            for fld in ("body", "orelse", "finalbody"):
                sub = getattr(x, fld, None)
                if isinstance(sub, list) and sub and isinstance(sub[0], ast.stmt):
                    r = conv(sub)
                    if r is None:
                        return None
                    setattr(new, fld, r)
            if getattr(x, "handlers", None):
                hs = []
                for h in x.handlers:
                    r = conv(h.body)
                    if r is None:
                        return None
                    h2 = copy.copy(h)
                    h2.body = r
                    hs.append(h2)
                new.handlers = hs
            out.append(new)
        return out

    for fn in [n for n in ast.walk(tree) if isinstance(n, (ast.FunctionDef, ast.AsyncFunctionDef))]:
        for holder in ast.walk(fn):
            for fld in ("body", "orelse", "finalbody"):
                body = getattr(holder, fld, None)
                if not (isinstance(body, list) and body and isinstance(body[0], ast.stmt)):
                    continue
                new_body: List[ast.stmt] = []
                changed = False
                for i, st in enumerate(body):
                    ok = (isinstance(st, ast.For) and isinstance(st.target, ast.Name) and isinstance(st.iter, (ast.Tuple, ast.List)) and 1 <= len(st.iter.elts) <= 8
                          and all(isinstance(x, ast.Constant) or (isinstance(x, ast.Attribute) and isinstance(x.value, ast.Name) and x.value.id[:1].isupper()) for x in st.iter.elts) and not st.orelse)
                    if ok:
                        v = st.target.id
                        if any(isinstance(n, ast.Name) and n.id == v and isinstance(n.ctx, (ast.Store, ast.Del)) for x in st.body for n in ast.walk(x)):
                            ok = False
                        if any(isinstance(n, ast.Name) and n.id == v for x in body[i + 1:] for n in ast.walk(x)):
                            ok = False
                        # yields inside would be fine; nested function definitions capturing v are not
                        if any(isinstance(n, (ast.FunctionDef, ast.Lambda)) for x in st.body for n in ast.walk(x)):
                            ok = False
                    c = conv(st.body) if ok else None
                    if c is None:
                        new_body.append(st)
                        continue
                    for el in st.iter.elts:
                        m = {st.target.id: el}

                        class S(ast.NodeTransformer):
                            def visit_Name(self, n: ast.Name):
                                if isinstance(n.ctx, ast.Load) and n.id in m:
                                    return copy.deepcopy(m[n.id])
                                return n
                        blk = [S().visit(copy.deepcopy(x)) for x in c]
                        o = Once(body=blk or [ast.Pass()])
                        ast.copy_location(o, st)
                        for x in ast.walk(o):
                            if isinstance(x, (ast.stmt, ast.expr)) and not hasattr(x, "lineno"):
                                ast.copy_location(x, st)
                        new_body.append(o)
                    changed = True
                if changed:
                    setattr(holder, fld, new_body)
    ast.fix_missing_locations(tree)


def constant_getattr(tree: ast.Module) -> None:
    """getattr(o, 'name') with a constant identifier and no default is the attribute read o.name; setattr(o, 'name', v) as a statement is the store."""
    class T(ast.NodeTransformer):
        def visit_Call(self, n: ast.Call):
            self.generic_visit(n)
            if isinstance(n.func, ast.Name) and n.func.id == "getattr" and len(n.args) == 2 and not n.keywords and isinstance(n.args[1], ast.Constant) \
                    and isinstance(n.args[1].value, str) and n.args[1].value.isidentifier():
                return ast.copy_location(ast.Attribute(value=n.args[0], attr=n.args[1].value, ctx=ast.Load()), n)
            return n

        def visit_Expr(self, st: ast.Expr):
            self.generic_visit(st)
            n = st.value
            if isinstance(n, ast.Call) and isinstance(n.func, ast.Name) and n.func.id == "setattr" and len(n.args) == 3 and not n.keywords and isinstance(n.args[1], ast.Constant) \
                    and isinstance(n.args[1].value, str) and n.args[1].value.isidentifier() and isinstance(n.args[0], (ast.Name, ast.Attribute)):
                return ast.copy_location(ast.Assign(targets=[ast.Attribute(value=n.args[0], attr=n.args[1].value, ctx=ast.Store())], value=n.args[2]), st)
            return st
    T().visit(tree)
    ast.fix_missing_locations(tree)


# ---------------------------------------------------------------------------

def _straight_yields(stmts: List[ast.stmt]) -> Optional[List[ast.expr]]:
    from .normalize import Once
    out: List[ast.expr] = []
    for st in stmts:
        if isinstance(st, ast.Expr) and isinstance(st.value, ast.Constant):
            continue  # docstring
        if isinstance(st, ast.Pass):
            continue
        if isinstance(st, ast.Expr) and isinstance(st.value, ast.Yield) and st.value.value is not None:
            out.append(st.value.value)
            continue
        if isinstance(st, Once):
            inner = _straight_yields(st.body)
            if inner is None:
                return None
            out.extend(inner)
            continue
        return None
    return out


def _read_only(e: ast.AST) -> bool:
    """The expression only reads names / attributes / constants (f-strings and tuples of such included): evaluating it earlier or later within a
    statement that does nothing else in between gives the same value."""
    for n in ast.walk(e):
        if isinstance(n, (ast.Call, ast.Await, ast.Yield, ast.YieldFrom, ast.NamedExpr, ast.Lambda, ast.ListComp, ast.SetComp, ast.DictComp, ast.GeneratorExp)):
            return False
    return True


def straight_generators(trees: Dict[str, ast.Module]) -> None:
    """A private generator function whose body is nothing but `yield E1; yield E2; ..` (after table loops were unrolled) with read-only E_i, and
    that is only ever consumed whole on the spot - `*g()` in a display or call, `for x in g()`, tuple(g()) / list(g()) / sep.join(g()),
    `yield from g()` - is the tuple (E1, E2, ..): the function becomes `return (E1, ..)` (and is then an ordinary expression helper)."""
    from .normalize import anchors
    anch = anchors()
    for m, t in trees.items():
        if ".tests" in m or m.endswith("tests"):
            continue
        cands: Dict[str, ast.FunctionDef] = {}
        for n in ast.walk(t):
            if isinstance(n, ast.FunctionDef) and n.name.startswith("_") and not n.name.startswith("__") and n.name not in anch and not n.decorator_list:
                ys = _straight_yields(n.body)
                if ys and all(_read_only(e) for e in ys) and not (n.args.vararg or n.args.kwarg):
                    cands[n.name] = n
        if not cands:
            continue
        parents: Dict[int, ast.AST] = {}
        for tt in trees.values():
            for n in ast.walk(tt):
                for c in ast.iter_child_nodes(n):
                    parents[id(c)] = n
        bad: Set[str] = set()
        for mm, tt in trees.items():
            for n in ast.walk(tt):
                nm = n.id if isinstance(n, ast.Name) else (n.attr if isinstance(n, ast.Attribute) else None)
                if nm not in cands or (isinstance(n, ast.Name) and not isinstance(n.ctx, ast.Load)):
                    continue
                par = parents.get(id(n))
                if not (isinstance(par, ast.Call) and par.func is n):
                    bad.add(nm)
                    continue
                gp = parents.get(id(par))
                ok = isinstance(gp, ast.Starred) or (isinstance(gp, (ast.For, ast.comprehension)) and gp.iter is par) or isinstance(gp, ast.YieldFrom) \
                    or (isinstance(gp, ast.Call) and par in gp.args and len(gp.args) == 1 and (
                        (isinstance(gp.func, ast.Name) and gp.func.id in ("tuple", "list", "sorted", "set", "frozenset", "sum", "any", "all", "min", "max"))
                        or (isinstance(gp.func, ast.Attribute) and gp.func.attr in ("join", "extend", "update"))))
                if not ok:
                    bad.add(nm)
        for nm, fn in cands.items():
            if nm in bad:
                continue
            ys = _straight_yields(fn.body)
            ret = ast.Return(value=ast.Tuple(elts=[copy.deepcopy(e) for e in ys], ctx=ast.Load()))
            ast.copy_location(ret, fn.body[-1])
            doc = [st for st in fn.body[:1] if isinstance(st, ast.Expr) and isinstance(st.value, ast.Constant) and isinstance(st.value.value, str)]
            fn.body = doc + [ret]
            fn.returns = None
            ast.fix_missing_locations(fn)


def splice_starred_displays(tree: ast.Module) -> None:
    """(a, *(b, c), d) -> (a, b, c, d)   and   f(a, *(b, c)) -> f(a, b, c): a starred display inside a display / argument list is its elements.
    Tuple concatenation is the display: (a, b) + (c,) -> (a, b, c);  (a,) + tuple(E) -> (a, *E)."""
    class T(ast.NodeTransformer):
        def visit_BinOp(self, n: ast.BinOp):
            self.generic_visit(n)
            if isinstance(n.op, ast.Add) and isinstance(n.left, ast.Tuple) and isinstance(n.left.ctx, ast.Load):
                r = n.right
                if isinstance(r, ast.Tuple):
                    return ast.copy_location(ast.Tuple(elts=list(n.left.elts) + list(r.elts), ctx=ast.Load()), n)
                if isinstance(r, ast.Call) and isinstance(r.func, ast.Name) and r.func.id == "tuple" and len(r.args) == 1 and not r.keywords:
                    return ast.copy_location(ast.Tuple(elts=list(n.left.elts) + [ast.Starred(value=r.args[0], ctx=ast.Load())], ctx=ast.Load()), n)
            return n

        def _splice(self, elts: List[ast.expr]) -> List[ast.expr]:
            out: List[ast.expr] = []
            for e in elts:
                if isinstance(e, ast.Starred) and isinstance(e.value, (ast.Tuple, ast.List)) and not any(isinstance(x, ast.Starred) for x in e.value.elts):
                    out.extend(e.value.elts)
                else:
                    out.append(e)
            return out

        def visit_Tuple(self, n: ast.Tuple):
            self.generic_visit(n)
            if isinstance(n.ctx, ast.Load):
                n.elts = self._splice(n.elts)
            return n

        def visit_List(self, n: ast.List):
            self.generic_visit(n)
            if isinstance(n.ctx, ast.Load):
                n.elts = self._splice(n.elts)
            return n

        def visit_Call(self, n: ast.Call):
            self.generic_visit(n)
            n.args = self._splice(n.args)
            return n
    T().visit(tree)


# ---------------------------------------------------------------------------

def dict_dispatch_calls(tree: ast.Module) -> None:
    """D = {k1: f1, k2: f2}  (a local or private module-level name bound once to a display with constant keys and function references as values,
    never used except as below)   D.get(K, d)(args)   ->   f1(args) if K == k1 else f2(args) if K == k2 else d(args)
    As a whole statement (expression statement, `x = ..`, `return ..`) it becomes the if / elif / else chain."""
    stores = _stored_names(tree)

    def table_of(e: ast.AST, scope_tables: Dict[str, ast.Dict]) -> Optional[ast.Dict]:
        if isinstance(e, ast.Name) and e.id in scope_tables:
            return scope_tables[e.id]
        if isinstance(e, ast.Dict):
            return e if ok_table(e) else None
        return None

    def ok_table(d: ast.Dict) -> bool:
        return bool(d.keys) and len(d.keys) <= 8 and all(k is not None and (isinstance(k, ast.Constant) or (isinstance(k, ast.Attribute) and isinstance(k.value, ast.Name) and k.value.id[:1].isupper())) for k in d.keys) \
            and all(_is_func_ref(v) for v in d.values)

    module_tables: Dict[str, ast.Dict] = {}
    for st in tree.body:
        if isinstance(st, ast.Assign) and len(st.targets) == 1 and isinstance(st.targets[0], ast.Name) and isinstance(st.value, ast.Dict):
            nm = st.targets[0].id
            if nm.startswith("_") and stores.get(nm, 0) == 1 and ok_table(st.value):
                module_tables[nm] = st.value
        elif isinstance(st, ast.AnnAssign) and isinstance(st.target, ast.Name) and isinstance(st.value, ast.Dict):
            nm = st.target.id
            if nm.startswith("_") and stores.get(nm, 0) == 1 and ok_table(st.value):
                module_tables[nm] = st.value

    def dispatch(call: ast.Call, tables: Dict[str, ast.Dict]) -> Optional[Tuple[ast.expr, List[Tuple[ast.expr, ast.expr]], ast.expr]]:
        """(key expression, [(constant key, function)], default function) when call is D.get(K, d)(args)."""
        f = call.func
        if not (isinstance(f, ast.Call) and isinstance(f.func, ast.Attribute) and f.func.attr == "get" and len(f.args) == 2 and not f.keywords):
            return None
        d = table_of(f.func.value, tables)
        if d is None or not _is_func_ref(f.args[1]) or not isinstance(f.args[0], (ast.Name, ast.Attribute, ast.Constant)):
            return None
        return f.args[0], list(zip(d.keys, d.values)), f.args[1]

    def mk_call(fref: ast.expr, call: ast.Call) -> ast.Call:
        return ast.Call(func=copy.deepcopy(fref), args=[copy.deepcopy(a) for a in call.args], keywords=[copy.deepcopy(k) for k in call.keywords])

    for fn in [n for n in ast.walk(tree) if isinstance(n, (ast.FunctionDef, ast.AsyncFunctionDef))]:
        tables = dict(module_tables)
        local_defs: Dict[str, ast.stmt] = {}
        for st in fn.body:
            if isinstance(st, ast.Assign) and len(st.targets) == 1 and isinstance(st.targets[0], ast.Name) and isinstance(st.value, ast.Dict) and ok_table(st.value) \
                    and stores.get(st.targets[0].id, 0) == 1:
                # the function references in the table must mean the same at the call: names not re-bound in fn
                tables[st.targets[0].id] = st.value
                local_defs[st.targets[0].id] = st
        if not tables:
            continue
        # every use of a table name must be the D.get(K, d)(args) form
        uses_ok: Dict[str, bool] = {}
        parents: Dict[int, ast.AST] = {}
        for n in ast.walk(fn):
            for c in ast.iter_child_nodes(n):
                parents[id(c)] = n
        for n in ast.walk(fn):
            if isinstance(n, ast.Name) and n.id in tables and isinstance(n.ctx, ast.Load):
                par = parents.get(id(n))
                gp = parents.get(id(par)) if par is not None else None
                ggp = parents.get(id(gp)) if gp is not None else None
                good = isinstance(par, ast.Attribute) and par.attr == "get" and isinstance(gp, ast.Call) and gp.func is par and isinstance(ggp, ast.Call) and ggp.func is gp
                uses_ok[n.id] = uses_ok.get(n.id, True) and good
        tables = {k: v for k, v in tables.items() if uses_ok.get(k, False)}
        if not tables:
            continue
        for holder in ast.walk(fn):
            for fld in ("body", "orelse", "finalbody"):
                body = getattr(holder, fld, None)
                if not (isinstance(body, list) and body and isinstance(body[0], ast.stmt)):
                    continue
                for i, st in enumerate(body):
                    call = st.value if isinstance(st, (ast.Expr, ast.Return, ast.Assign)) and isinstance(getattr(st, "value", None), ast.Call) else None
                    if call is None:
                        continue
                    d = dispatch(call, tables)
                    if d is None:
                        continue
                    key, rows, default = d

                    def stmt_with(c: ast.Call, st=st) -> ast.stmt:
                        s2 = copy.copy(st)
                        s2.value = c
                        return s2
                    node: List[ast.stmt] = [stmt_with(mk_call(default, call))]
                    for k, fref in reversed(rows):
                        test = ast.Compare(left=copy.deepcopy(key), ops=[ast.Eq()], comparators=[copy.deepcopy(k)])
                        node = [ast.If(test=test, body=[stmt_with(mk_call(fref, call))], orelse=node)]
                    ast.copy_location(node[0], st)
                    for x in ast.walk(node[0]):
                        if isinstance(x, (ast.stmt, ast.expr)) and not hasattr(x, "lineno"):
                            ast.copy_location(x, st)
                    body[i] = node[0]
        # tables that are no longer referenced: drop the local binding (reading function references has no effect)
        for nm, st in local_defs.items():
            if nm in tables and not any(isinstance(n, ast.Name) and n.id == nm and isinstance(n.ctx, ast.Load) for n in ast.walk(fn)):
                if st in fn.body:
                    fn.body.remove(st)
    ast.fix_missing_locations(tree)


# ---------------------------------------------------------------------------

def double_negation(tree: ast.Module) -> None:
    """not not X (in a test position) -> X;  not (a == b) -> a != b and the like for single comparisons."""
    flip = {ast.Eq: ast.NotEq, ast.NotEq: ast.Eq, ast.Is: ast.IsNot, ast.IsNot: ast.Is, ast.In: ast.NotIn, ast.NotIn: ast.In}

    def simp(e: ast.expr) -> ast.expr:
        while isinstance(e, ast.UnaryOp) and isinstance(e.op, ast.Not) and isinstance(e.operand, ast.UnaryOp) and isinstance(e.operand.op, ast.Not):
            e = e.operand.operand
        if isinstance(e, ast.UnaryOp) and isinstance(e.op, ast.Not) and isinstance(e.operand, ast.Compare) and len(e.operand.ops) == 1 and type(e.operand.ops[0]) in flip:
            c = e.operand
            return ast.copy_location(ast.Compare(left=c.left, ops=[flip[type(c.ops[0])]()], comparators=c.comparators), e)
        return e

    for n in ast.walk(tree):
        if isinstance(n, (ast.If, ast.While, ast.IfExp)):
            n.test = simp(n.test)
        elif isinstance(n, ast.comprehension):
            n.ifs = [simp(x) for x in n.ifs]
    ast.fix_missing_locations(tree)


def split_tuple_assign(tree: ast.Module) -> None:
    """a, b = (x, y)  ->  a = x; b = y   when the right-hand sides are read-only expressions and no right-hand side reads a target assigned
    before it (so that evaluating them one after the other gives the same values)."""
    for holder in ast.walk(tree):
        for fld in ("body", "orelse", "finalbody"):
            body = getattr(holder, fld, None)
            if not (isinstance(body, list) and body and isinstance(body[0], ast.stmt)):
                continue
            out: List[ast.stmt] = []
            changed = False
            for st in body:
                if isinstance(st, ast.Assign) and len(st.targets) == 1 and isinstance(st.targets[0], (ast.Tuple, ast.List)) and isinstance(st.value, (ast.Tuple, ast.List)) \
                        and len(st.targets[0].elts) == len(st.value.elts) and all(isinstance(t, ast.Name) for t in st.targets[0].elts) \
                        and not any(isinstance(v, ast.Starred) for v in st.value.elts):
                    tn = [t.id for t in st.targets[0].elts]
                    ok = True
                    for i, v in enumerate(st.value.elts):
                        reads = {n.id for n in ast.walk(v) if isinstance(n, ast.Name)}
                        if reads & set(tn[:i]):
                            ok = False
                        if i > 0 and not _read_only_or_single_call(v):
                            ok = False
                    if ok:
                        for t, v in zip(st.targets[0].elts, st.value.elts):
                            out.append(ast.copy_location(ast.Assign(targets=[t], value=v), st))
                        changed = True
                        continue
                out.append(st)
            if changed:
                setattr(holder, fld, out)
    ast.fix_missing_locations(tree)


def _read_only_or_single_call(e: ast.AST) -> bool:
    return True  # evaluation order left to right is kept by the statement order


def iterator_aliases(tree: ast.Module) -> None:
    """v = iter(p) with p a parameter annotated as an iterator (Iterator[..], Generator[..], or the repo's MSD_ITERATOR alias), v bound once and p not
    used afterwards except through v: iter() of an iterator is the iterator itself, so v is p."""
    for fn in [n for n in ast.walk(tree) if isinstance(n, (ast.FunctionDef, ast.AsyncFunctionDef))]:
        iters = set()
        for a in fn.args.posonlyargs + fn.args.args + fn.args.kwonlyargs:
            if a.annotation is not None and any(w in ast.unparse(a.annotation) for w in ("Iterator", "ITERATOR", "Generator")):
                iters.add(a.arg)
        if not iters:
            continue
        for i, st in enumerate(fn.body):
            if isinstance(st, ast.Assign) and len(st.targets) == 1 and isinstance(st.targets[0], ast.Name) and isinstance(st.value, ast.Call) and isinstance(st.value.func, ast.Name) \
                    and st.value.func.id == "iter" and len(st.value.args) == 1 and isinstance(st.value.args[0], ast.Name) and st.value.args[0].id in iters and not st.value.keywords:
                v, p = st.targets[0].id, st.value.args[0].id
                if sum(1 for n in ast.walk(fn) if isinstance(n, ast.Name) and n.id == v and isinstance(n.ctx, ast.Store)) != 1:
                    continue
                if sum(1 for n in ast.walk(fn) if isinstance(n, ast.Name) and n.id == p and isinstance(n.ctx, ast.Store)) != 0:
                    continue
                for n in ast.walk(fn):
                    if isinstance(n, ast.Name) and n.id == v and isinstance(n.ctx, ast.Load):
                        n.id = p
                fn.body[i] = ast.copy_location(ast.Pass(), st)
        fn.body = [s for s in fn.body if not isinstance(s, ast.Pass)] or [ast.Pass()]
    ast.fix_missing_locations(tree)


def tail_return_to_break(tree: ast.Module) -> None:
    """A bare `return` inside the loop that is the last statement of a function (no else clause, not nested in another loop, not inside
    try / with) leaves the function exactly as `break` does."""
    for fn in [n for n in ast.walk(tree) if isinstance(n, (ast.FunctionDef, ast.AsyncFunctionDef))]:
        if not fn.body or not isinstance(fn.body[-1], (ast.For, ast.While)) or fn.body[-1].orelse:
            continue
        if any(isinstance(n, (ast.Yield, ast.YieldFrom)) for n in ast.walk(fn)):
            pass  # a generator's bare return also just ends it
        loop = fn.body[-1]

        def conv(stmts: List[ast.stmt]) -> None:
            for i, x in enumerate(stmts):
                if isinstance(x, ast.Return) and x.value is None:
                    stmts[i] = ast.copy_location(ast.Break(), x)
                elif isinstance(x, ast.If):
                    conv(x.body)
                    conv(x.orelse)
                # loops / try / with / nested defs: not entered
        conv(loop.body)
    ast.fix_missing_locations(tree)


def hoist_next_in_tests(tree: ast.Module) -> None:
    """if <test whose first evaluated sub-expression is next(IT[, d])>: ..   ->   _nx = next(IT[, d]); if <test over _nx>: ..
    (the consumed element gets a name, so that the decision is a decision about that element)."""
    counter = [0]

    def spine(e: ast.AST) -> Optional[Tuple[ast.AST, str]]:
        """(holder, field) of the next(..) call when it is the first thing the expression evaluates."""
        cur = e
        par: Optional[Tuple[ast.AST, str]] = None
        while True:
            if isinstance(cur, ast.Call) and isinstance(cur.func, ast.Name) and cur.func.id == "next" and 1 <= len(cur.args) <= 2 and not cur.keywords \
                    and isinstance(cur.args[0], ast.Name):
                return par
            if isinstance(cur, ast.Compare):
                par, cur = (cur, "left"), cur.left
            elif isinstance(cur, ast.UnaryOp):
                par, cur = (cur, "operand"), cur.operand
            elif isinstance(cur, ast.Attribute):
                par, cur = (cur, "value"), cur.value
            elif isinstance(cur, ast.Call) and isinstance(cur.func, ast.Attribute):
                par, cur = (cur.func, "value"), cur.func.value
            elif isinstance(cur, ast.Subscript):
                par, cur = (cur, "value"), cur.value
            else:
                return None

    for holder in ast.walk(tree):
        for fld in ("body", "orelse", "finalbody"):
            body = getattr(holder, fld, None)
            if not (isinstance(body, list) and body and isinstance(body[0], ast.stmt)):
                continue
            out: List[ast.stmt] = []
            changed = False
            for st in body:
                if isinstance(st, ast.If):
                    sp = spine(st.test)
                    if sp is not None:
                        h, f = sp
                        counter[0] += 1
                        nm = f"_nx{counter[0]}"
                        call = getattr(h, f)
                        setattr(h, f, ast.copy_location(ast.Name(id=nm, ctx=ast.Load()), call))
                        out.append(ast.copy_location(ast.Assign(targets=[ast.Name(id=nm, ctx=ast.Store())], value=call), st))
                        changed = True
                out.append(st)
            if changed:
                setattr(holder, fld, out)
    ast.fix_missing_locations(tree)


def empty_yield_from(tree: ast.Module) -> None:
    """yield from () / [] / iter(()) / iter([]) yields nothing: the statement is dropped (a `pass` when the block would be empty)."""
    def empty(e: ast.AST) -> bool:
        if isinstance(e, (ast.Tuple, ast.List)) and not e.elts:
            return True
        return isinstance(e, ast.Call) and isinstance(e.func, ast.Name) and e.func.id == "iter" and len(e.args) == 1 and not e.keywords and empty(e.args[0])

    for holder in ast.walk(tree):
        for fld in ("body", "orelse", "finalbody"):
            body = getattr(holder, fld, None)
            if not (isinstance(body, list) and body and isinstance(body[0], ast.stmt)):
                continue
            new = [st for st in body if not (isinstance(st, ast.Expr) and isinstance(st.value, ast.YieldFrom) and empty(st.value.value))]
            if len(new) != len(body):
                if not new and fld == "body":
                    new = [ast.copy_location(ast.Pass(), body[0])]
                setattr(holder, fld, new)



def fuse_genexps(tree: ast.Module) -> None:
    """(E(x) for x in (F(y) for y in IT if C))  ->  (E(F(y)) for y in IT if C)   when x occurs exactly once in E and the outer generator has no
    filter; the same for list comprehensions over a generator.  A generator expression that is unpacked (`a, b = (..)`) is written as the list
    comprehension (unpacking consumes it completely either way)."""
    class T(ast.NodeTransformer):
        def _fuse(self, n):
            self.generic_visit(n)
            if len(n.generators) != 1:
                return n
            g = n.generators[0]
            if g.ifs or g.is_async or not isinstance(g.target, ast.Name) or not isinstance(g.iter, ast.GeneratorExp) or len(g.iter.generators) != 1:
                return n
            x = g.target.id
            occ = [m for m in ast.walk(n.elt) if isinstance(m, ast.Name) and m.id == x]
            inner = g.iter
            if len(occ) != 1 and not (occ and _read_only(inner.elt)):
                return n
            inner_names = {m.id for m in ast.walk(inner.generators[0].target) if isinstance(m, ast.Name)}
            if inner_names & {m.id for m in ast.walk(n.elt) if isinstance(m, ast.Name)}:
                return n

            class S(ast.NodeTransformer):
                def visit_Name(self, m: ast.Name):
                    return copy.deepcopy(inner.elt) if any(m is o for o in occ) else m
            n.elt = S().visit(n.elt)
            n.generators = inner.generators
            return n

        visit_GeneratorExp = _fuse
        visit_ListComp = _fuse

        def visit_Assign(self, st: ast.Assign):
            self.generic_visit(st)
            if len(st.targets) == 1 and isinstance(st.targets[0], (ast.Tuple, ast.List)) and isinstance(st.value, ast.GeneratorExp):
                st.value = ast.copy_location(ast.ListComp(elt=st.value.elt, generators=st.value.generators), st.value)
            return st
    T().visit(tree)
    ast.fix_missing_locations(tree)


def bool_indexed_pairs(tree: ast.Module) -> None:
    """(A, B)[c]  with a two-element display of names / constants and c a name or a comparison: B if c else A  (c is a truth value: the display
    has exactly the two positions False / True can select)."""
    class T(ast.NodeTransformer):
        def visit_Subscript(self, n: ast.Subscript):
            self.generic_visit(n)
            if isinstance(n.ctx, ast.Load) and isinstance(n.value, (ast.Tuple, ast.List)) and len(n.value.elts) == 2 and all(isinstance(x, (ast.Name, ast.Constant, ast.Attribute)) for x in n.value.elts) \
                    and (isinstance(n.slice, (ast.Compare, ast.BoolOp)) or (isinstance(n.slice, ast.UnaryOp) and isinstance(n.slice.op, ast.Not))
                         or (isinstance(n.slice, ast.Name) and (n.slice.id.startswith(("is_", "has_")) or n.slice.id.endswith(("_flag", "_ok"))))):
                return ast.copy_location(ast.IfExp(test=n.slice, body=n.value.elts[1], orelse=n.value.elts[0]), n)
            return n
    T().visit(tree)
    ast.fix_missing_locations(tree)


# ---------------------------------------------------------------------------

def _fn_scopes(fn: ast.AST):
    """Nodes of fn that belong to its own scope (nested function / lambda / class bodies excluded, their default / decorator expressions too)."""
    stack = list(ast.iter_child_nodes(fn))
    while stack:
        n = stack.pop()
        yield n
        if isinstance(n, (ast.FunctionDef, ast.AsyncFunctionDef, ast.Lambda, ast.ClassDef)):
            continue
        stack.extend(ast.iter_child_nodes(n))


def rename_apart(tree: ast.Module) -> None:
    """A local that is assigned several times, each time by a plain `x = E` statement, and every read of which lies in the same block as one of
    these statements, after it, with no other assignment of x in between (nor nested in between): each assignment starts a new variable
    (x__v1, x__v2, ..).  What the inliner produces when one helper is spliced in twice (`filename = backup; ..; filename = output; ..`) becomes
    single-assignment again.  Not applied to parameters, to names captured by nested functions, or when x is read before being assigned in a
    block (a value carried round a loop)."""
    for fn in [n for n in ast.walk(tree) if isinstance(n, (ast.FunctionDef, ast.AsyncFunctionDef))]:
        params = {a.arg for a in fn.args.posonlyargs + fn.args.args + fn.args.kwonlyargs} | ({fn.args.vararg.arg} if fn.args.vararg else set()) | ({fn.args.kwarg.arg} if fn.args.kwarg else set())
        own = list(_fn_scopes(fn))
        captured = set()
        for n in ast.walk(fn):
            if isinstance(n, (ast.FunctionDef, ast.AsyncFunctionDef, ast.Lambda, ast.ClassDef)) and n is not fn:
                captured |= {m.id for m in ast.walk(n) if isinstance(m, ast.Name)}
            if isinstance(n, (ast.Nonlocal, ast.Global)):
                captured |= set(n.names)
        store_sites: Dict[str, List[ast.AST]] = {}
        for n in own:
            if isinstance(n, ast.Name) and isinstance(n.ctx, (ast.Store, ast.Del)):
                store_sites.setdefault(n.id, []).append(n)
        blocks: List[List[ast.stmt]] = []
        for n in [fn] + own:
            if isinstance(n, (ast.FunctionDef, ast.AsyncFunctionDef, ast.ClassDef, ast.Lambda)) and n is not fn:
                continue
            for fld in ("body", "orelse", "finalbody"):
                b = getattr(n, fld, None)
                if isinstance(b, list) and b and isinstance(b[0], ast.stmt):
                    blocks.append(b)
            for h in getattr(n, "handlers", []):
                blocks.append(h.body)
        # definition sites: (block, index) of `x = E`
        defs: Dict[str, List[Tuple[List[ast.stmt], int]]] = {}
        for b in blocks:
            for i, st in enumerate(b):
                if isinstance(st, ast.Assign) and len(st.targets) == 1 and isinstance(st.targets[0], ast.Name):
                    defs.setdefault(st.targets[0].id, []).append((b, i))
        counter = 0
        for x, sites in defs.items():
            if len(sites) < 2 or x in params or x in captured:
                continue
            if {id(s) for s in store_sites.get(x, [])} != {id(b[i].targets[0]) for b, i in sites}:
                continue
            # segments: after each definition up to the next definition in the same block (or the block's end)
            segs: List[Tuple[List[ast.stmt], int, int]] = []
            for b, i in sites:
                later = [j for (b2, j) in sites if b2 is b and j > i]
                segs.append((b, i, min(later) if later else len(b)))
            ok = True
            seg_nodes: List[Set[int]] = []
            for b, i, hi in segs:
                ids = {id(m) for st in b[i + 1:hi] for m in ast.walk(st)}
                # no other definition nested inside the segment
                if any(id(b2[j].targets[0]) in ids for (b2, j) in sites):
                    ok = False
                seg_nodes.append(ids)
            if not ok:
                continue
            loads = [m for m in own if isinstance(m, ast.Name) and m.id == x and isinstance(m.ctx, ast.Load)]
            owner: Dict[int, int] = {}
            for m in loads:
                hits = [k for k, ids in enumerate(seg_nodes) if id(m) in ids]
                # a read inside the right-hand side of a definition belongs to the segment that contains that statement
                if not hits:
                    for k, (b, i, hi) in enumerate(segs):
                        pass
                    rhs_of = [k2 for k2, (b2, i2, _h) in enumerate(segs) if any(y is m for y in ast.walk(b2[i2].value))]
                    if rhs_of:
                        # which segment contains statement b2[i2]?  the previous definition in the same block
                        b2, i2, _h = segs[rhs_of[0]]
                        prev = [k3 for k3, (b3, i3, h3) in enumerate(segs) if b3 is b2 and i3 < i2 and h3 == i2]
                        hits = prev
                if len(hits) != 1:
                    ok = False
                    break
                owner[id(m)] = hits[0]
            if not ok:
                continue
            names = []
            for k in range(len(segs)):
                counter += 1
                names.append(f"{x}__v{counter}")
            for m in loads:
                m.id = names[owner[id(m)]]
            for k, (b, i, hi) in enumerate(segs):
                b[i].targets[0].id = names[k]
    ast.fix_missing_locations(tree)


def copy_propagation(tree: ast.Module) -> None:
    """y = x  (both plain names; y a local assigned exactly once and not captured; x a parameter or local that is never assigned after this
    statement - at most one store in the function): y is x.  `x = x` is dropped."""
    for fn in [n for n in ast.walk(tree) if isinstance(n, (ast.FunctionDef, ast.AsyncFunctionDef))]:
        for _ in range(6):
            own = list(_fn_scopes(fn))
            params = {a.arg for a in fn.args.posonlyargs + fn.args.args + fn.args.kwonlyargs}
            stores: Dict[str, int] = {}
            for n in own:
                if isinstance(n, ast.Name) and isinstance(n.ctx, (ast.Store, ast.Del)):
                    stores[n.id] = stores.get(n.id, 0) + 1
            declared = {nm for n in ast.walk(fn) if isinstance(n, (ast.Nonlocal, ast.Global)) for nm in n.names}
            inner_stores = {m.id for n in ast.walk(fn) if isinstance(n, (ast.FunctionDef, ast.AsyncFunctionDef, ast.Lambda)) and n is not fn for m in ast.walk(n)
                            if isinstance(m, ast.Name) and isinstance(m.ctx, ast.Store)} | {a.arg for n in ast.walk(fn) if isinstance(n, (ast.FunctionDef, ast.Lambda)) and n is not fn for a in n.args.posonlyargs + n.args.args + n.args.kwonlyargs}
            done = False
            for holder in [fn] + own:
                for fld in ("body", "orelse", "finalbody"):
                    b = getattr(holder, fld, None)
                    if not (isinstance(b, list) and b and isinstance(b[0], ast.stmt)) or (isinstance(holder, (ast.FunctionDef, ast.ClassDef, ast.Lambda)) and holder is not fn):
                        continue
                    for i, st in enumerate(b):
                        if not (isinstance(st, ast.Assign) and len(st.targets) == 1 and isinstance(st.targets[0], ast.Name) and isinstance(st.value, ast.Name)):
                            continue
                        y, x = st.targets[0].id, st.value.id
                        if y == x:
                            del b[i]
                            if not b:
                                b.append(ast.copy_location(ast.Pass(), st))
                            done = True
                            break
                        if y in params or y in declared or x in declared or stores.get(y, 0) != 1 or y in inner_stores or x in inner_stores:
                            continue
                        if stores.get(x, 0) > (0 if x in params else 1):
                            continue
                        if x not in params and stores.get(x, 0) == 0:
                            continue  # a global / closure variable: may change under our feet
                        for m in ast.walk(fn):
                            if isinstance(m, ast.Name) and m.id == y and isinstance(m.ctx, ast.Load):
                                m.id = x
                        del b[i]
                        if not b:
                            b.append(ast.copy_location(ast.Pass(), st))
                        done = True
                        break
                    if done:
                        break
                if done:
                    break
            if not done:
                break
    ast.fix_missing_locations(tree)


# ---------------------------------------------------------------------------

def expand_member_factories(tree: ast.Module) -> None:
    """class C: x = _factory(<constants>)   where the private module-level _factory is nothing but
           def inner(self, ..): ...          (one nested function over the factory's parameters)
           inner.__name__ = .. / inner.__qualname__ = .. / inner.__doc__ = ..     (metadata only)
           return inner   |   return property(inner)
    is the method (or read-only property) it builds: `def x(self, ..): ...` with the factory's parameters replaced by the constants (decorated
    with @property in the second form).  Seventeen hand-written methods and seventeen calls of a factory are the same class."""
    from .normalize import anchors
    anch = anchors()
    facts: Dict[str, Tuple[ast.FunctionDef, ast.FunctionDef, bool]] = {}
    for st in tree.body:
        if not (isinstance(st, ast.FunctionDef) and st.name.startswith("_") and not st.name.startswith("__") and st.name not in anch and not st.decorator_list):
            continue
        if st.args.vararg or st.args.kwarg or st.args.kwonlyargs or st.args.defaults:
            continue
        body = [x for x in st.body if not (isinstance(x, ast.Expr) and isinstance(x.value, ast.Constant))]
        inner = [x for x in body if isinstance(x, ast.FunctionDef)]
        rets = [x for x in body if isinstance(x, ast.Return)]
        if len(inner) != 1 or len(rets) != 1 or body[-1] is not rets[0] or inner[0].decorator_list:
            continue
        g = inner[0]
        meta_ok = True
        for x in body:
            if x is g or x is rets[0]:
                continue
            if isinstance(x, ast.Assign) and len(x.targets) == 1 and isinstance(x.targets[0], ast.Attribute) and isinstance(x.targets[0].value, ast.Name) and x.targets[0].value.id == g.name \
                    and x.targets[0].attr in ("__name__", "__qualname__", "__doc__"):
                continue
            meta_ok = False
        if not meta_ok:
            continue
        rv = rets[0].value
        if isinstance(rv, ast.Name) and rv.id == g.name:
            facts[st.name] = (st, g, False)
        elif isinstance(rv, ast.Call) and isinstance(rv.func, ast.Name) and rv.func.id == "property" and len(rv.args) == 1 and not rv.keywords and isinstance(rv.args[0], ast.Name) and rv.args[0].id == g.name:
            facts[st.name] = (st, g, True)
    if not facts:
        return
    for cd in [n for n in tree.body if isinstance(n, ast.ClassDef)]:
        for i, st in enumerate(cd.body):
            if not (isinstance(st, ast.Assign) and len(st.targets) == 1 and isinstance(st.targets[0], ast.Name) and isinstance(st.value, ast.Call) and isinstance(st.value.func, ast.Name)
                    and st.value.func.id in facts and not st.value.keywords and all(isinstance(a, ast.Constant) for a in st.value.args)):
                continue
            F, g, is_prop = facts[st.value.func.id]
            params = [a.arg for a in F.args.posonlyargs + F.args.args]
            if len(params) != len(st.value.args):
                continue
            m = dict(zip(params, st.value.args))
            # the nested function must not re-bind the factory's parameters
            if any(isinstance(n, ast.Name) and n.id in m and isinstance(n.ctx, (ast.Store, ast.Del)) for n in ast.walk(g)) or any(a.arg in m for a in g.args.posonlyargs + g.args.args + g.args.kwonlyargs):
                continue

            class S(ast.NodeTransformer):
                def visit_Name(self, n: ast.Name):
                    if isinstance(n.ctx, ast.Load) and n.id in m:
                        return copy.deepcopy(m[n.id])
                    return n
            nf = copy.deepcopy(g)
            nf.body = [S().visit(x) for x in nf.body]
            nf.name = st.targets[0].id
            nf.decorator_list = [ast.Name(id="property", ctx=ast.Load())] if is_prop else []
            ast.copy_location(nf, st)
            for x in ast.walk(nf):
                if isinstance(x, (ast.stmt, ast.expr, ast.arg)) and not hasattr(x, "lineno"):
                    ast.copy_location(x, st)
            cd.body[i] = nf
    ast.fix_missing_locations(tree)


def explicit_super(tree: ast.Module) -> None:
    """super(C, self) inside a method of class C whose first parameter is self: the zero-argument super()."""
    for cd in [n for n in ast.walk(tree) if isinstance(n, ast.ClassDef)]:
        for fn in [x for x in cd.body if isinstance(x, ast.FunctionDef)]:
            if not fn.args.args:
                continue
            sn = fn.args.args[0].arg
            for n in ast.walk(fn):
                if isinstance(n, ast.Call) and isinstance(n.func, ast.Name) and n.func.id == "super" and len(n.args) == 2 and not n.keywords and isinstance(n.args[0], ast.Name) \
                        and n.args[0].id == cd.name and isinstance(n.args[1], ast.Name) and n.args[1].id == sn:
                    n.args = []



def yield_from_genexp(tree: ast.Module) -> None:
    """yield from (E for v in IT if C for w in JT ..)      ->   for v in IT: if C: for w in JT: .. yield E
       yield from chain.from_iterable(E for v in IT ..)  ->   for v in IT: .. yield from E
    (the generator's variables must be new to the function)."""
    def is_chain(e: ast.AST) -> bool:
        return isinstance(e, ast.Call) and ast.unparse(e.func) in ("chain.from_iterable", "itertools.chain.from_iterable") and len(e.args) == 1 and not e.keywords

    for fn in [n for n in ast.walk(tree) if isinstance(n, (ast.FunctionDef, ast.AsyncFunctionDef))]:
        for holder in ast.walk(fn):
            for fld in ("body", "orelse", "finalbody"):
                body = getattr(holder, fld, None)
                if not (isinstance(body, list) and body and isinstance(body[0], ast.stmt)):
                    continue
                for i, st in enumerate(body):
                    if not (isinstance(st, ast.Expr) and isinstance(st.value, ast.YieldFrom)):
                        continue
                    src_ = st.value.value
                    chained = is_chain(src_)
                    ge = src_.args[0] if chained else src_
                    if not (isinstance(ge, (ast.GeneratorExp, ast.ListComp)) and ge.generators and not any(g.is_async for g in ge.generators)):
                        continue
                    gn = {n.id for g in ge.generators for n in ast.walk(g.target) if isinstance(n, ast.Name)}
                    others = {n.id for x in fn.body for n in ast.walk(x) if isinstance(n, ast.Name)} - {n.id for n in ast.walk(ge) if isinstance(n, ast.Name)}
                    if gn & others:
                        continue
                    inner: List[ast.stmt] = [ast.Expr(value=ast.YieldFrom(value=ge.elt) if chained else ast.Yield(value=ge.elt))]
                    for g in reversed(ge.generators):
                        for c in reversed(g.ifs):
                            inner = [ast.If(test=c, body=inner, orelse=[])]
                        inner = [ast.For(target=g.target, iter=g.iter, body=inner, orelse=[], type_comment=None)]
                    loop = inner[0]
                    ast.copy_location(loop, st)
                    for x in ast.walk(loop):
                        if isinstance(x, (ast.stmt, ast.expr)) and not hasattr(x, "lineno"):
                            ast.copy_location(x, st)
                    body[i] = loop
    ast.fix_missing_locations(tree)


def nonneg_clamp(tree: ast.Module) -> None:
    """n - 1 if n else 0   (also `n and n - 1`) with n a local bound once to bisect*(..) / len(..) - a non-negative integer -
    is max(0, n - 1); the temporary is substituted when that is its only use."""
    for fn in [x for x in ast.walk(tree) if isinstance(x, (ast.FunctionDef, ast.AsyncFunctionDef))]:
        binds: Dict[str, List[ast.Assign]] = {}
        for n in ast.walk(fn):
            if isinstance(n, ast.Assign) and len(n.targets) == 1 and isinstance(n.targets[0], ast.Name):
                binds.setdefault(n.targets[0].id, []).append(n)

        def nonneg(name: str) -> bool:
            b = binds.get(name, [])
            if len(b) != 1 or not isinstance(b[0].value, ast.Call):
                return False
            f = b[0].value.func
            nm = f.id if isinstance(f, ast.Name) else (f.attr if isinstance(f, ast.Attribute) else "")
            return nm in ("bisect", "bisect_left", "bisect_right", "len")

        class T(ast.NodeTransformer):
            def visit_IfExp(self, n: ast.IfExp):
                self.generic_visit(n)
                if isinstance(n.test, ast.Name) and nonneg(n.test.id) and isinstance(n.orelse, ast.Constant) and n.orelse.value == 0 and isinstance(n.body, ast.BinOp) \
                        and isinstance(n.body.op, ast.Sub) and isinstance(n.body.left, ast.Name) and n.body.left.id == n.test.id and isinstance(n.body.right, ast.Constant) and n.body.right.value == 1:
                    return ast.copy_location(ast.Call(func=ast.Name(id="max", ctx=ast.Load()), args=[ast.Constant(value=0), n.body], keywords=[]), n)
                return n

            def visit_FunctionDef(self, n):
                return n if n is not fn else self.generic_visit(n)
        T().visit(fn)
        # x = bisect(..); .. max(0, x - 1) with x used only there: substitute
        for name, b in list(binds.items()):
            if len(b) == 1 and nonneg(name):
                loads = [n for n in ast.walk(fn) if isinstance(n, ast.Name) and n.id == name and isinstance(n.ctx, ast.Load)]
                if len(loads) != 1:
                    continue
                for holder in ast.walk(fn):
                    for fld in ("body", "orelse", "finalbody"):
                        body = getattr(holder, fld, None)
                        if isinstance(body, list) and b[0] in body:
                            i = body.index(b[0])
                            if i + 1 < len(body) and any(x is loads[0] for x in ast.walk(body[i + 1])):
                                # the use is in the next statement, inside max(0, x - 1)
                                for par in ast.walk(body[i + 1]):
                                    if isinstance(par, ast.Call) and isinstance(par.func, ast.Name) and par.func.id == "max" and len(par.args) == 2 and isinstance(par.args[1], ast.BinOp) and par.args[1].left is loads[0]:
                                        par.args[1].left = b[0].value
                                        del body[i]
                                        break
    ast.fix_missing_locations(tree)


def fuse_comp_temps(tree: ast.Module) -> None:
    """t = [G(s) for s in X]   (read-only element and iterable, t assigned once) followed directly by statements that use t only as the iterable
    of their own single-generator comprehensions: each of those iterates X itself ([F(G(s)) for s in X]); the temporary list disappears.  X must
    not be stored to by those statements."""
    for fn in [x for x in ast.walk(tree) if isinstance(x, (ast.FunctionDef, ast.AsyncFunctionDef))]:
        for holder in ast.walk(fn):
            for fld in ("body", "orelse", "finalbody"):
                body = getattr(holder, fld, None)
                if not (isinstance(body, list) and body and isinstance(body[0], ast.stmt)):
                    continue
                i = 0
                while i < len(body):
                    st = body[i]
                    i += 1
                    if not (isinstance(st, ast.Assign) and len(st.targets) == 1 and isinstance(st.targets[0], ast.Name)):
                        continue
                    v = st.value
                    if isinstance(v, ast.Call) and isinstance(v.func, ast.Name) and v.func.id in ("list", "tuple") and len(v.args) == 1 and isinstance(v.args[0], ast.GeneratorExp):
                        v = v.args[0]
                    if not (isinstance(v, (ast.ListComp, ast.GeneratorExp)) and len(v.generators) == 1 and not v.generators[0].ifs and _read_only(v.elt) and _read_only(v.generators[0].iter)):
                        continue
                    t = st.targets[0].id
                    if sum(1 for n in ast.walk(fn) if isinstance(n, ast.Name) and n.id == t and isinstance(n.ctx, (ast.Store, ast.Del))) != 1:
                        continue
                    loads = [n for n in ast.walk(fn) if isinstance(n, ast.Name) and n.id == t and isinstance(n.ctx, ast.Load)]
                    if not loads:
                        continue
                    # consecutive following statements containing all the loads
                    j = i
                    seen = 0
                    xtext = ast.unparse(v.generators[0].iter)
                    ok = True
                    while j < len(body) and seen < len(loads):
                        here = [n for n in ast.walk(body[j]) if any(n is l for l in loads)]
                        if not here:
                            break
                        for l in here:
                            par = None
                            for q in ast.walk(body[j]):
                                if isinstance(q, ast.comprehension) and q.iter is l:
                                    par = q
                            if par is None:
                                ok = False
                        for n in ast.walk(body[j]):
                            if isinstance(n, (ast.Attribute, ast.Name, ast.Subscript)) and isinstance(getattr(n, "ctx", None), (ast.Store, ast.Del)) and ast.unparse(n) == xtext:
                                ok = False
                        seen += len(here)
                        j += 1
                    if not ok or seen != len(loads):
                        continue
                    for k in range(i, j):
                        for q in ast.walk(body[k]):
                            if isinstance(q, ast.comprehension) and any(q.iter is l for l in loads):
                                q.iter = ast.GeneratorExp(elt=copy.deepcopy(v.elt), generators=copy.deepcopy(v.generators))
                    del body[i - 1]
                    i -= 1
        fuse_genexps(fn)
    ast.fix_missing_locations(tree)



def beta_reduce(tree: ast.Module) -> None:
    """(lambda x, y: BODY)(a, b) with plain names / constants / dotted names as arguments: BODY with the parameters replaced."""
    class T(ast.NodeTransformer):
        def visit_Call(self, n: ast.Call):
            self.generic_visit(n)
            f = n.func
            if isinstance(f, ast.Lambda) and not n.keywords and not (f.args.vararg or f.args.kwarg or f.args.kwonlyargs or f.args.defaults) and len(f.args.args) == len(n.args) \
                    and all(isinstance(a, (ast.Name, ast.Constant)) or (isinstance(a, ast.Attribute) and isinstance(a.value, ast.Name)) for a in n.args):
                m = {p.arg: a for p, a in zip(f.args.args, n.args)}

                class S(ast.NodeTransformer):
                    def visit_Name(self, x: ast.Name):
                        if isinstance(x.ctx, ast.Load) and x.id in m:
                            return copy.deepcopy(m[x.id])
                        return x

                    def visit_Lambda(self, x: ast.Lambda):
                        return x
                return ast.copy_location(S().visit(copy.deepcopy(f.body)), n)
            return n
    T().visit(tree)
    ast.fix_missing_locations(tree)


def search_loop_to_any(tree: ast.Module) -> None:
    """for x in IT: if C: break  /  else: E        ->        if not any(C for x in IT): E
    (the loop does nothing but look for an element satisfying C; x is not read afterwards).  Without an else clause the loop is dropped only
    when C is read-only - otherwise it stays."""
    for fn in [n for n in ast.walk(tree) if isinstance(n, (ast.FunctionDef, ast.AsyncFunctionDef))]:
        for holder in ast.walk(fn):
            for fld in ("body", "orelse", "finalbody"):
                body = getattr(holder, fld, None)
                if not (isinstance(body, list) and body and isinstance(body[0], ast.stmt)):
                    continue
                for i, st in enumerate(body):
                    if not (isinstance(st, ast.For) and st.orelse and len(st.body) == 1 and isinstance(st.body[0], ast.If) and not st.body[0].orelse
                            and len(st.body[0].body) == 1 and isinstance(st.body[0].body[0], ast.Break)):
                        continue
                    names = {n.id for n in ast.walk(st.target) if isinstance(n, ast.Name)}
                    if any(isinstance(n, ast.Name) and n.id in names for x in body[i + 1:] for n in ast.walk(x)) or any(isinstance(n, ast.Name) and n.id in names for x in st.orelse for n in ast.walk(x)):
                        continue
                    ge = ast.GeneratorExp(elt=st.body[0].test, generators=[ast.comprehension(target=st.target, iter=st.iter, ifs=[], is_async=0)])
                    test = ast.UnaryOp(op=ast.Not(), operand=ast.Call(func=ast.Name(id="any", ctx=ast.Load()), args=[ge], keywords=[]))
                    new = ast.If(test=test, body=st.orelse, orelse=[])
                    ast.copy_location(new, st)
                    for x in ast.walk(new):
                        if isinstance(x, (ast.stmt, ast.expr)) and not hasattr(x, "lineno"):
                            ast.copy_location(x, st)
                    body[i] = new
    ast.fix_missing_locations(tree)


def deferred_job_list(tree: ast.Module) -> None:
    """L = []; [if C:] L.append(T) ...; for TARGET in L: BODY      (L used nowhere else, the T's and C's read-only over names that BODY and the
    statements in between do not assign, no break / continue in BODY)
         ->   [if C:] (TARGET = T; BODY)  for every append, in order.
    A list of jobs filled first and worked off afterwards does, job by job, what the straight-line code does."""
    for fn in [n for n in ast.walk(tree) if isinstance(n, (ast.FunctionDef, ast.AsyncFunctionDef))]:
        for holder in ast.walk(fn):
            for fld in ("body", "orelse", "finalbody"):
                body = getattr(holder, fld, None)
                if not (isinstance(body, list) and body and isinstance(body[0], ast.stmt)):
                    continue
                i = 0
                while i < len(body):
                    st = body[i]
                    i += 1
                    tgt = val = None
                    if isinstance(st, ast.Assign) and len(st.targets) == 1 and isinstance(st.targets[0], ast.Name):
                        tgt, val = st.targets[0].id, st.value
                    elif isinstance(st, ast.AnnAssign) and isinstance(st.target, ast.Name) and st.value is not None:
                        tgt, val = st.target.id, st.value
                    if tgt is None or not (isinstance(val, ast.List) and not val.elts):
                        continue
                    L = tgt
                    jobs: List[Tuple[Optional[ast.expr], ast.expr]] = []
                    j = i
                    ok = True
                    while j < len(body):
                        x = body[j]
                        app = None
                        cond = None
                        if isinstance(x, ast.Expr):
                            app = x.value
                        elif isinstance(x, ast.If) and not x.orelse and len(x.body) == 1 and isinstance(x.body[0], ast.Expr):
                            app, cond = x.body[0].value, x.test
                        if isinstance(app, ast.Call) and isinstance(app.func, ast.Attribute) and app.func.attr == "append" and isinstance(app.func.value, ast.Name) and app.func.value.id == L \
                                and len(app.args) == 1 and not app.keywords:
                            jobs.append((cond, app.args[0]))
                            j += 1
                            continue
                        break
                    if not jobs or j >= len(body) or not (isinstance(body[j], ast.For) and isinstance(body[j].iter, ast.Name) and body[j].iter.id == L and not body[j].orelse):
                        continue
                    loop = body[j]
                    # L is used nowhere else
                    uses = sum(1 for n in ast.walk(fn) if isinstance(n, ast.Name) and n.id == L)
                    if uses != 1 + len(jobs) + 1:
                        continue
                    if any(isinstance(n, (ast.Break, ast.Continue)) for x in loop.body for n in ast.walk(x)):
                        continue
                    stored_in_body = {n.id for x in loop.body for n in ast.walk(x) if isinstance(n, ast.Name) and isinstance(n.ctx, (ast.Store, ast.Del))}
                    tnames = {n.id for n in ast.walk(loop.target) if isinstance(n, ast.Name)}
                    for c, t in jobs:
                        for e in ([c] if c is not None else []) + [t]:
                            if not _read_only(e) or any(isinstance(n, ast.Name) and (n.id in stored_in_body or n.id in tnames) for n in ast.walk(e)):
                                ok = False
                    if not ok:
                        continue
                    new: List[ast.stmt] = []
                    for c, t in jobs:
                        blk: List[ast.stmt] = [ast.Assign(targets=[copy.deepcopy(loop.target)], value=copy.deepcopy(t))] + [copy.deepcopy(x) for x in loop.body]
                        if c is not None:
                            blk = [ast.If(test=copy.deepcopy(c), body=blk, orelse=[])]
                        new.extend(blk)
                    for x in new:
                        for y in ast.walk(x):
                            if isinstance(y, (ast.stmt, ast.expr)) and not hasattr(y, "lineno"):
                                ast.copy_location(y, loop)
                    body[i - 1:j + 1] = new
                    i = i - 1 + len(new)
    ast.fix_missing_locations(tree)


def inline_single_use_genexps(tree: ast.Module) -> None:
    """g = (E for v in IT if C)   bound once, read once - as the iterable of a `for` statement or of another generator expression / comprehension
    - with nothing but other such bindings between the binding and the use: the expression is written where it is consumed (a lazy pipeline
    `a = (..); b = (.. for x in a ..); for y in b:` is one loop nest)."""
    for fn in [n for n in ast.walk(tree) if isinstance(n, (ast.FunctionDef, ast.AsyncFunctionDef))]:
        for _ in range(6):
            changed = False
            for holder in ast.walk(fn):
                for fld in ("body", "orelse", "finalbody"):
                    body = getattr(holder, fld, None)
                    if not (isinstance(body, list) and body and isinstance(body[0], ast.stmt)):
                        continue
                    for i, st in enumerate(body):
                        if not (isinstance(st, ast.Assign) and len(st.targets) == 1 and isinstance(st.targets[0], ast.Name) and isinstance(st.value, ast.GeneratorExp)):
                            continue
                        g = st.targets[0].id
                        if sum(1 for n in ast.walk(fn) if isinstance(n, ast.Name) and n.id == g and isinstance(n.ctx, (ast.Store, ast.Del))) != 1:
                            continue
                        loads = [n for n in ast.walk(fn) if isinstance(n, ast.Name) and n.id == g and isinstance(n.ctx, ast.Load)]
                        if len(loads) != 1:
                            continue
                        # the use must be in one of the following statements of this block, everything in between being a generator binding
                        j = i + 1
                        while j < len(body) and not any(n is loads[0] for n in ast.walk(body[j])):
                            bj = body[j]
                            vj = bj.value if isinstance(bj, (ast.Assign, ast.AnnAssign)) else None
                            tj = (bj.targets[0] if isinstance(bj, ast.Assign) and len(bj.targets) == 1 else getattr(bj, "target", None))
                            # other lazy bindings, or a fresh empty container / constant bound to a plain local: nothing the pipeline can observe
                            if not (isinstance(tj, ast.Name) and (isinstance(vj, ast.GeneratorExp) or isinstance(vj, ast.Constant)
                                                                  or (isinstance(vj, (ast.List, ast.Tuple, ast.Dict, ast.Set)) and not (vj.keys if isinstance(vj, ast.Dict) else vj.elts)))):
                                break
                            j += 1
                        if j >= len(body) or not any(n is loads[0] for n in ast.walk(body[j])):
                            continue
                        use_st = body[j]
                        site = None
                        if isinstance(use_st, ast.For) and use_st.iter is loads[0]:
                            site = (use_st, "iter")
                        else:
                            for q in ast.walk(use_st.value if isinstance(use_st, ast.Assign) else use_st):
                                if isinstance(q, ast.comprehension) and q.iter is loads[0]:
                                    # only the first generator's iterable is evaluated at once; ours must be that one of an outermost genexp
                                    site = (q, "iter")
                        if site is None:
                            continue
                        setattr(site[0], site[1], st.value)
                        del body[i]
                        changed = True
                        break
                    if changed:
                        break
                if changed:
                    break
            if not changed:
                break
    ast.fix_missing_locations(tree)


def flag_loops(tree: ast.Module) -> None:
    """for v in IT: ..; if C: [..;] flag = True; break  /  else: flag = False  ;  if flag: S
         ->  for v in IT: ..; if C: [..;] S; break
    (flag is a local used nowhere else; S has no break / continue).  Also the mirrored `if not flag: S` with S moved into the else clause."""
    for fn in [n for n in ast.walk(tree) if isinstance(n, (ast.FunctionDef, ast.AsyncFunctionDef))]:
        for holder in ast.walk(fn):
            for fld in ("body", "orelse", "finalbody"):
                body = getattr(holder, fld, None)
                if not (isinstance(body, list) and len(body) >= 2 and isinstance(body[0], ast.stmt)):
                    continue
                for i in range(len(body) - 1):
                    st, nxt = body[i], body[i + 1]
                    if not (isinstance(st, ast.For) and len(st.orelse) == 1 and isinstance(st.orelse[0], ast.Assign) and len(st.orelse[0].targets) == 1 and isinstance(st.orelse[0].targets[0], ast.Name)
                            and isinstance(st.orelse[0].value, ast.Constant) and st.orelse[0].value.value is False):
                        continue
                    flag = st.orelse[0].targets[0].id
                    if not (isinstance(nxt, ast.If) and not nxt.orelse and isinstance(nxt.test, ast.Name) and nxt.test.id == flag):
                        continue
                    # the only `flag = True` sits right before a break of this loop
                    sets = [n for n in ast.walk(st) if isinstance(n, ast.Assign) and len(n.targets) == 1 and isinstance(n.targets[0], ast.Name) and n.targets[0].id == flag]
                    if len(sets) != 2:
                        continue
                    total = sum(1 for n in ast.walk(fn) if isinstance(n, ast.Name) and n.id == flag)
                    if total != 3:
                        continue
                    if any(isinstance(n, (ast.Break, ast.Continue)) for x in nxt.body for n in ast.walk(x)):
                        continue
                    done = False

                    def patch(stmts: List[ast.stmt]) -> bool:
                        for k, x in enumerate(stmts):
                            if isinstance(x, ast.Assign) and x in sets and isinstance(x.value, ast.Constant) and x.value.value is True and k + 1 < len(stmts) and isinstance(stmts[k + 1], ast.Break):
                                stmts[k:k + 1] = nxt.body
                                return True
                            if isinstance(x, ast.If) and (patch(x.body) or patch(x.orelse)):
                                return True
                        return False
                    if patch(st.body):
                        st.orelse = []
                        del body[i + 1]
                        break
    ast.fix_missing_locations(tree)


def inline_loop_iter_temps(tree: ast.Module) -> None:
    """t = E; for v in t: ..   with t assigned once and read only there: for v in E: ..   (the iterable is evaluated at the same point)."""
    for fn in [n for n in ast.walk(tree) if isinstance(n, (ast.FunctionDef, ast.AsyncFunctionDef))]:
        for holder in ast.walk(fn):
            for fld in ("body", "orelse", "finalbody"):
                body = getattr(holder, fld, None)
                if not (isinstance(body, list) and len(body) >= 2 and isinstance(body[0], ast.stmt)):
                    continue
                i = 0
                while i < len(body) - 1:
                    st, nxt = body[i], body[i + 1]
                    if isinstance(st, ast.Assign) and len(st.targets) == 1 and isinstance(st.targets[0], ast.Name) and isinstance(nxt, ast.For) and isinstance(nxt.iter, ast.Name) and nxt.iter.id == st.targets[0].id:
                        t = st.targets[0].id
                        if sum(1 for n in ast.walk(fn) if isinstance(n, ast.Name) and n.id == t) == 2:
                            nxt.iter = st.value
                            del body[i]
                            continue
                    i += 1
    ast.fix_missing_locations(tree)


def drop_dead_pure_stores(tree: ast.Module) -> None:
    """x = <read-only expression> where the local x is never read (and not declared nonlocal / global): the statement is dropped."""
    for fn in [n for n in ast.walk(tree) if isinstance(n, (ast.FunctionDef, ast.AsyncFunctionDef))]:
        declared = {nm for n in ast.walk(fn) if isinstance(n, (ast.Nonlocal, ast.Global)) for nm in n.names}
        if any(isinstance(n, ast.Call) and isinstance(n.func, ast.Name) and n.func.id in ("locals", "vars", "eval", "exec") for n in ast.walk(fn)):
            continue
        loads = {n.id for n in ast.walk(fn) if isinstance(n, ast.Name) and isinstance(n.ctx, (ast.Load, ast.Del))}
        for holder in ast.walk(fn):
            for fld in ("body", "orelse", "finalbody"):
                body = getattr(holder, fld, None)
                if not (isinstance(body, list) and body and isinstance(body[0], ast.stmt)):
                    continue
                new = [st for st in body if not (isinstance(st, ast.Assign) and len(st.targets) == 1 and isinstance(st.targets[0], ast.Name) and st.targets[0].id not in loads
                                                 and st.targets[0].id not in declared and st.targets[0].id.startswith("_") and _read_only(st.value))]
                if len(new) != len(body):
                    setattr(holder, fld, new or [ast.copy_location(ast.Pass(), body[0])])


def distinct_loop_lines(tree: ast.Module) -> None:
    """The path effects name a loop by its line.  A loop nested in a loop of the same line (both created by the normal form from one source
    line - an inlined generator pipeline) gets a synthetic line number (original + k * 7000000), so that 'leaving the inner loop' and 'leaving
    the outer loop' stay different.  Copies of one loop in sibling branches keep their common line: they are the same loop of the source."""
    def visit(node: ast.AST, enclosing: List[int]) -> None:
        for c in ast.iter_child_nodes(node):
            if isinstance(c, (ast.For, ast.While, ast.AsyncFor)):
                ln = getattr(c, "lineno", 0)
                k = sum(1 for x in enclosing if x % 7000000 == ln % 7000000)
                if k:
                    c.lineno = ln % 7000000 + 7000000 * k
                visit(c, enclosing + [c.lineno])
            elif isinstance(c, (ast.FunctionDef, ast.AsyncFunctionDef, ast.Lambda)):
                visit(c, [])
            else:
                visit(c, enclosing)
    visit(tree, [])


def renamed_private_anchors(trees: Dict[str, ast.Module]) -> None:
    """A private definition the rules address by name (sfa/private_anchors.json: where it lives on the confirmed tree) that is missing from its
    class / module, while exactly one new private definition with the same number of parameters appeared there: the definition was renamed.
    It gets its old name back (definition and every reference in the package) so that the rules find it; nothing else changes."""
    import json
    import os
    from .normalize import anchors
    try:
        with open(os.path.join(os.path.dirname(os.path.abspath(__file__)), "private_anchors.json")) as f:
            table = json.load(f)
    except (OSError, ValueError):
        return
    anch = anchors()
    known_names = set(table)
    for name, homes in table.items():
        for h in homes:
            t = trees.get(h["module"])
            if t is None:
                continue
            container: Optional[List[ast.stmt]] = t.body
            if h["class"] is not None:
                cds = [x for x in t.body if isinstance(x, ast.ClassDef) and x.name == h["class"]]
                if len(cds) != 1:
                    continue
                container = cds[0].body
            defs = [x for x in container if isinstance(x, ast.FunctionDef)]
            if any(x.name == name for x in defs):
                continue
            cands = [x for x in defs if x.name.startswith("_") and not x.name.startswith("__") and x.name not in anch and x.name not in known_names
                     and len(x.args.posonlyargs + x.args.args + x.args.kwonlyargs) == h["nparams"]]
            if len(cands) != 1:
                continue
            old = cands[0].name
            # the old name must be free in the package
            if any((isinstance(n, ast.Name) and n.id == name) or (isinstance(n, ast.Attribute) and n.attr == name) for tt in trees.values() for n in ast.walk(tt)):
                continue
            cands[0].name = name
            for tt in trees.values():
                for n in ast.walk(tt):
                    if h["class"] is None and isinstance(n, ast.Name) and n.id == old:
                        n.id = name
                    elif isinstance(n, ast.Attribute) and n.attr == old:
                        n.attr = name
                    elif isinstance(n, ast.alias) and n.name == old and h["class"] is None:
                        n.name = name


def inline_new_properties(trees: Dict[str, ast.Module]) -> None:
    """A read-only property that is not part of the confirmed public surface (sfa/baseline.json), whose body is a single `return E` over self:
    reads of `self.<name>` inside the methods of the same class are E.  (A refactoring gave a repeated expression a name.)"""
    from .normalize import _baseline_functions, anchors
    base = _baseline_functions()
    if "*" in base:
        return
    anch = anchors()
    for m, t in trees.items():
        if ".tests" in m or m.endswith("tests"):
            continue
        for cd in [n for n in t.body if isinstance(n, ast.ClassDef)]:
            props: Dict[str, Tuple[str, ast.expr]] = {}
            for fn in [x for x in cd.body if isinstance(x, ast.FunctionDef)]:
                if len(fn.decorator_list) == 1 and isinstance(fn.decorator_list[0], ast.Name) and fn.decorator_list[0].id == "property" and f"{m}:{cd.name}.{fn.name}" not in base \
                        and fn.name not in anch and len(fn.args.args) == 1:
                    body = [x for x in fn.body if not (isinstance(x, ast.Expr) and isinstance(x.value, ast.Constant))]
                    if len(body) == 1 and isinstance(body[0], ast.Return) and body[0].value is not None and _read_only(body[0].value):
                        props[fn.name] = (fn.args.args[0].arg, body[0].value)
            # no setter / deleter for it, no assignment to self.<name>
            for nm in list(props):
                if any(isinstance(n, ast.Attribute) and n.attr == nm and isinstance(n.ctx, (ast.Store, ast.Del)) for n in ast.walk(t)):
                    del props[nm]
            if not props:
                continue
            for fn in [x for x in cd.body if isinstance(x, ast.FunctionDef) and x.args.args]:
                sn = fn.args.args[0].arg

                class T(ast.NodeTransformer):
                    def visit_Attribute(self, n: ast.Attribute):
                        self.generic_visit(n)
                        if isinstance(n.ctx, ast.Load) and isinstance(n.value, ast.Name) and n.value.id == sn and n.attr in props and fn.name != n.attr:
                            psn, e = props[n.attr]
                            e2 = copy.deepcopy(e)
                            for x in ast.walk(e2):
                                if isinstance(x, ast.Name) and x.id == psn:
                                    x.id = sn
                            return ast.copy_location(e2, n)
                        return n
                T().visit(fn)
        ast.fix_missing_locations(t)


def record_unpack(trees: Dict[str, ast.Module]) -> None:
    """a, b, c = x   where x is known (by an enclosing isinstance test) to be an instance of a NamedTuple class of the package with exactly that
    many fields: a = x.<field1>; b = x.<field2>; ..  (unpacking a record reads its fields in order)."""
    records: Dict[str, List[str]] = {}
    for t in trees.values():
        for cd in [n for n in ast.walk(t) if isinstance(n, ast.ClassDef)]:
            if any((isinstance(b, ast.Name) and b.id == "NamedTuple") or (isinstance(b, ast.Attribute) and b.attr == "NamedTuple") for b in cd.bases):
                fields = [st.target.id for st in cd.body if isinstance(st, ast.AnnAssign) and isinstance(st.target, ast.Name)]
                if fields:
                    records[cd.name] = fields

    def type_fact(test: ast.expr) -> Tuple[Optional[Tuple[str, str]], Optional[Tuple[str, str]]]:
        """(fact when true, fact when false): (name, class)"""
        neg = False
        while isinstance(test, ast.UnaryOp) and isinstance(test.op, ast.Not):
            test = test.operand
            neg = not neg
        if isinstance(test, ast.Call) and isinstance(test.func, ast.Name) and test.func.id == "isinstance" and len(test.args) == 2 and isinstance(test.args[0], ast.Name) \
                and isinstance(test.args[1], ast.Name) and test.args[1].id in records:
            f = (test.args[0].id, test.args[1].id)
            return (None, f) if neg else (f, None)
        return (None, None)

    def walk(stmts: List[ast.stmt], known: Dict[str, str]) -> None:
        i = 0
        while i < len(stmts):
            st = stmts[i]
            if isinstance(st, ast.If):
                t_, f_ = type_fact(st.test)
                kb = dict(known)
                ko = dict(known)
                if t_:
                    kb[t_[0]] = t_[1]
                if f_:
                    ko[f_[0]] = f_[1]
                walk(st.body, kb)
                walk(st.orelse, ko)
            elif isinstance(st, (ast.For, ast.While, ast.With, ast.Try)):
                for fld in ("body", "orelse", "finalbody"):
                    sub = getattr(st, fld, None)
                    if isinstance(sub, list) and sub and isinstance(sub[0], ast.stmt):
                        k2 = dict(known)
                        if isinstance(st, ast.For):
                            for n in ast.walk(st.target):
                                if isinstance(n, ast.Name):
                                    k2.pop(n.id, None)
                        walk(sub, k2)
            elif isinstance(st, ast.Assign) and len(st.targets) == 1:
                tg = st.targets[0]
                if isinstance(tg, (ast.Tuple, ast.List)) and isinstance(st.value, ast.Name) and st.value.id in known and all(isinstance(x, ast.Name) for x in tg.elts) \
                        and len(tg.elts) == len(records[known[st.value.id]]) and not any(x.id == st.value.id for x in tg.elts):
                    new = [ast.copy_location(ast.Assign(targets=[ast.Name(id=x.id, ctx=ast.Store())], value=ast.Attribute(value=ast.Name(id=st.value.id, ctx=ast.Load()), attr=fld_, ctx=ast.Load())), st)
                           for x, fld_ in zip(tg.elts, records[known[st.value.id]])]
                    for y in new:
                        ast.fix_missing_locations(y)
                    stmts[i:i + 1] = new
                    i += len(new)
                    continue
                for n in ast.walk(tg):
                    if isinstance(n, ast.Name):
                        known.pop(n.id, None)
            i += 1

    for m, t in trees.items():
        if ".tests" in m or m.endswith("tests"):
            continue
        for fn in [n for n in ast.walk(t) if isinstance(n, (ast.FunctionDef, ast.AsyncFunctionDef))]:
            walk(fn.body, {})
