"""
CLI:  python -m sfa check <id> [--tier quick|thorough]
      python -m sfa doctor
      python -m sfa explain <replay.json>
      python -m sfa selftest [--jobs N] [--only ID]
      python -m sfa all [--tier ...]
"""
from __future__ import annotations

import argparse
import importlib
import json
import os
import sys
import time
import traceback

from .engine import AnalysisError, Program
from .report import (Ctx, VIOLATION, OBSERVATION, known_match, load_known, write_evidence, write_replay)

REPO = os.environ.get("SFA_REPO", "/repo")
PROPS = [f"C{i:02d}" for i in range(1, 21)]


def _steps(fn):
    """The rule calls of a clause function, as separately runnable steps (the whole function when it is more than a sequence of calls)."""
    import ast
    import inspect
    try:
        tree = ast.parse(inspect.getsource(fn))
    except (OSError, SyntaxError, TypeError):
        return [fn]
    fd = tree.body[0]
    if not isinstance(fd, ast.FunctionDef) or len(fd.args.args) != 1:
        return [fn]
    body = [st for st in fd.body if not (isinstance(st, ast.Expr) and isinstance(st.value, ast.Constant))]
    if len(body) < 2 or not all(isinstance(st, ast.Expr) and isinstance(st.value, ast.Call) for st in body):
        return [fn]
    arg = fd.args.args[0].arg
    out = []
    for st in body:
        code = compile(ast.fix_missing_locations(ast.Expression(st.value)), inspect.getsourcefile(fn) or "<clause>", "eval")
        out.append(lambda ctx, code=code: eval(code, fn.__globals__, {arg: ctx}))
    return out


def run_check(prop: str, tier: str, repo: str = REPO, quiet: bool = False, write: bool = True):
    """Returns (exit_code, ctx, violations, known_hits, error)."""
    if os.path.abspath(repo) != "/repo":
        write = False  # evidence is only ever written from /repo itself (scratch copies are for development / self-test)
    t0 = time.time()
    seed = int(os.environ.get("VERIF_SEED", "0") or 0)
    ctx = None
    program = None
    mod = None
    try:
        program = Program(repo)
        mod = importlib.import_module(f"sfa.props.{prop.lower()}")
        ctx = Ctx(program, prop, tier)
        errors = []
        for clause_id, title, fn in mod.CLAUSES:
            if tier == "quick" and getattr(fn, "thorough_only", False):
                continue
            ctx.clause = clause_id
            n0 = len(ctx.instances)
            # a clause that is a plain sequence of rule calls runs each rule on its own: a rule that does not recognise the code (analysis
            # error) does not keep the clause's other rules from deciding
            for step in _steps(fn):
                try:
                    step(ctx)
                except AnalysisError as e:
                    # a definite violation found elsewhere is still reported; without one the run is exit 2
                    errors.append(f"{clause_id}: {e}")
            if len(ctx.instances) == n0 and not any(x.startswith(f"{clause_id}:") for x in errors):
                errors.append(f"{clause_id}: ({title}) produced no rule instance - it would pass vacuously")
        from .report import VIOLATION as _V, known_match as _km, load_known as _lk
        from .opaque import residuals_for as _residuals_for
        _known = _lk()
        # a mismatch on a function whose normalised body still holds constructs the rules cannot see through (a private helper handed on
        # as a value, a call through a table of callables, a private method or class that was not dissolved) is an unrecognised shape,
        # not a definite violation
        for inst in ctx.instances:
            if inst.verdict == _V and _km(inst, prop, _known) is None:
                res = [r for r in _residuals_for(program, inst.module, inst.func)
                       if not any(r.startswith(f"private helper {h} ") for h in ctx.seen_through)]
                if res:
                    inst.verdict = OBSERVATION
                    inst.detail = f"[unrecognised shape: {'; '.join(res[:3])}] " + inst.detail
                    errors.append(f"{inst.clause}: {inst.module}:{inst.func} [{inst.construct[:80]}] does not match, but the function still holds "
                                  f"constructs the rules cannot see through ({'; '.join(res[:3])})")
        if any("(anchor vanished)" in e for e in errors):
            # a definition the rules are anchored on is gone: the code was restructured around it, and a mismatch found in what is left cannot
            # be told apart from the new division of labour - no verdict
            # (findings about shared mutable state do not depend on how the code is cut up: they stand)
            for i in ctx.instances:
                if i.verdict == _V and _km(i, prop, _known) is None and i.rule != "R-STATE":
                    i.verdict = OBSERVATION
                    i.detail = "[not judged: an anchored definition is gone] " + i.detail
        if errors and not any(i.verdict == _V and _km(i, prop, _known) is None for i in ctx.instances):
            raise AnalysisError("; ".join(errors))
        for e in errors:
            ctx.notes.append("ANALYSIS-ERROR " + e)
            if not quiet:
                print(f"ANALYSIS-ERROR property={prop} {e}")
    except AnalysisError as e:
        msg = f"ANALYSIS-ERROR property={prop} {e}"
        if not quiet:
            print(msg)
        if write:
            write_evidence(prop, tier, seed, ctx, getattr(mod, "EXPLANATION", "analysis error"), time.time() - t0, [], [], program,
                           error=str(e), assumptions=getattr(mod, "ASSUMPTIONS", []))
        return 2, ctx, [], [], str(e)
    except Exception as e:  # internal error: never exit 1
        msg = f"ANALYSIS-ERROR property={prop} internal error: {type(e).__name__}: {e}"
        if not quiet:
            print(msg)
            traceback.print_exc()
        if write:
            try:
                write_evidence(prop, tier, seed, ctx, getattr(mod, "EXPLANATION", "internal error"), time.time() - t0, [], [], program,
                               error=f"{type(e).__name__}: {e}", assumptions=getattr(mod, "ASSUMPTIONS", []))
            except Exception:
                pass
        return 2, ctx, [], [], f"{type(e).__name__}: {e}"

    known = load_known()
    violations, known_hits = [], []
    for inst in ctx.instances:
        if inst.verdict != VIOLATION:
            continue
        k = known_match(inst, prop, known)
        if k is not None:
            known_hits.append((inst, k))
        else:
            violations.append(inst)
    if not quiet:
        judged = [i for i in ctx.instances if i.verdict != OBSERVATION]
        print(f"sfa {prop} tier={tier} repo={program.root}: {len(program.nontest_modules())} modules, "
              f"{len(program.nontest_functions())} functions, {len(judged)} rule instances in {len(mod.CLAUSES)} clauses")
        for inst, k in known_hits:
            print(f"KNOWN-FINDING: property={prop} {inst.rule} {inst.where()} [{inst.construct}] {k.get('what', '')}")
    for n, inst in enumerate(violations):
        rp = write_replay(prop, n, inst, program) if write else "-"
        if not quiet:
            print(f"  {inst.rule} {inst.clause} {inst.where()} [{inst.construct}] {inst.detail}")
            if inst.path:
                for step in inst.path:
                    print(f"      {step}")
            print(f"VIOLATION property={prop} replay={rp}")
    if write:
        write_evidence(prop, tier, seed, ctx, mod.EXPLANATION, time.time() - t0, violations, known_hits, program,
                       assumptions=getattr(mod, "ASSUMPTIONS", []))
    if not quiet and not violations:
        print(f"HOLDS property={prop} ({len(known_hits)} known finding(s))")
    return (1 if violations else 0), ctx, violations, known_hits, None


def doctor() -> int:
    ok = True
    print("python", sys.version.split()[0], sys.executable)
    try:
        p = Program(REPO)
        print(f"repo {p.root}: {len(p.modules)} modules parsed, digest {p.digest[:12]}")
    except Exception as e:
        print("repo: FAILED", e)
        ok = False
    try:
        from .facts import msdparser_facts
        print("msdparser facts:", msdparser_facts())
    except Exception as e:
        print("msdparser source: FAILED", e)
        ok = False
    return 0 if ok else 2


def explain(path: str) -> int:
    with open(path) as f:
        rp = json.load(f)
    prop = rp["property"]
    want = rp["finding"]
    code, ctx, violations, known_hits, err = run_check(prop, "quick", quiet=True, write=False)
    if err:
        print("ANALYSIS-ERROR", err)
        return 2
    hit = [i for i in violations if [i.rule, i.module, i.func, i.construct] == [want["rule"], want["module"], want["func"], want["construct"]]]
    print(f"replay of {prop} finding: {want['rule']} {want['module']}:{want['func']} [{want['construct']}]")
    if not hit:
        print("  not reproduced on the current tree (the construct now satisfies the rule or vanished)")
        return 0
    for i in hit:
        print(f"  {i.where()}: {i.detail}")
        mod = ctx.p.modules.get(i.module)
        if mod and i.line:
            for ln in range(max(1, i.line - 2), i.line + 3):
                print(f"    {ln:4d} {'>' if ln == i.line else ' '} {mod.line(ln)}")
        for s in i.path or []:
            print("      ", s)
    print(f"VIOLATION property={prop} replay={path}")
    return 1


def main(argv=None) -> int:
    ap = argparse.ArgumentParser(prog="sfa")
    sub = ap.add_subparsers(dest="cmd", required=True)
    c = sub.add_parser("check")
    c.add_argument("prop")
    c.add_argument("--tier", default=os.environ.get("VERIF_TIER", "quick"), choices=["quick", "thorough"])
    sub.add_parser("doctor")
    e = sub.add_parser("explain")
    e.add_argument("path")
    a = sub.add_parser("all")
    a.add_argument("--tier", default="quick", choices=["quick", "thorough"])
    s = sub.add_parser("selftest")
    s.add_argument("--jobs", type=int, default=16)
    s.add_argument("--only", default=None)
    s.add_argument("--verbose", action="store_true")
    args = ap.parse_args(argv)
    if args.cmd == "check":
        code, *_ = run_check(args.prop.upper(), args.tier)
        if code == 0 and args.tier == "thorough":
            try:
                from .selftest.runner import record_for_property
                record_for_property(args.prop.upper())
            except Exception as ex:  # the self-test never changes a property verdict
                print(f"note: self-test record skipped: {ex}")
        return code
    if args.cmd == "doctor":
        return doctor()
    if args.cmd == "explain":
        return explain(args.path)
    if args.cmd == "all":
        worst = 0
        for pr in PROPS:
            try:
                importlib.import_module(f"sfa.props.{pr.lower()}")
            except ModuleNotFoundError:
                continue
            code, *_ = run_check(pr, args.tier)
            worst = max(worst, code)
        return worst
    if args.cmd == "selftest":
        from .selftest.runner import main as st_main
        return st_main(args.jobs, args.only, args.verbose)
    return 2


if __name__ == "__main__":
    sys.exit(main())
