"""C07 - note data text decodes to exactly one correctly placed note per non-zero cell (structural clauses)."""
from ..rules import notes, records, baseline, state

EXPLANATION = (
    "Static rule checking of the note decoder: R-CMP all four rich comparisons of the public record Note are defined in its body "
    "and routed through one key function equal to (player, beat, column) (tuple supplies the others and total_ordering does not "
    "replace them); R-POLY the beat passed to Beat(n, d) equals 4*measure + 4*row/rows as a rational function, with row/measure/"
    "player bound to enumerate indices by def-use; R-ORDER/R-REBUILD exactly one Note per cell != '0', fields taken from the cell; "
    "ownership: the text is stored and returned verbatim; R-TABLE NoteType characters. Keysound bracket surgery is NOT decided."
)
ASSUMPTIONS = [
    "tuple defines __le__/__gt__/__ge__ and functools.total_ordering only fills operators no base defines (read from the running stdlib)",
    "enumerate() counts from 0 in iteration order; str.split/splitlines keep order",
]


def c1(ctx):
    records.cmp_rule(ctx, "simfile.notes.Note", ("player", "beat", "column"))
    if ctx.tier == "thorough":
        for ci in ctx.p.nontest_classes():
            if ci.fq in ctx.p.records() and ci.fq != "simfile.notes.Note":
                allnames = ctx.p.module_all(ci.module) or []
                records.cmp_rule(ctx, ci.fq, None, public=ci.name in allnames)


def c2(ctx):
    notes.beat_formula(ctx)
    notes.keysound_extraction(ctx)


def c4(ctx):
    notes.columns_rule(ctx)
    notes.notedata_verbatim(ctx)
    notes.notetype_table(ctx)


def c_state(ctx):
    state.shared_state(ctx, ['simfile.notes:NoteData.__iter__', 'simfile.notes:NoteData.from_notes', 'simfile.notes:NoteData.__init__', 'simfile.timing:Beat.__new__'], 'the notes read from a text depend on that text only')


def c_api(ctx):
    baseline.surface(ctx, "C07: documented surface", modules=['simfile.notes'])

CLAUSES = [
    ("C07.1", "every comparison operator of Note agrees with the position order (R-CMP)", c1),
    ("C07.2-3", "beat formula (R-POLY); one note per non-zero cell with the cell's fields", c2),
    ("C07.4-5", "text kept verbatim; NoteType table", c4),
    ("C07.state", "no process-wide state (module-level caches, memoised constructors) behind the note reader (R-STATE)", c_state),
    ("C07.api", "public surface: signatures and defaults, constants, enumerations, blank templates, base classes as confirmed (R-API)", c_api),
]
