"""C03 - loading builds exactly the documented object, through every entry point (structural clauses)."""
from ..rules import entry, fwd, readers, serial, state, baseline
from ..rules.callgraph import callgraph

EXPLANATION = (
    "Static rule checking of the loaders: R-KEYNORM every param.key read is upper-cased in the four readers; R-TABLE first "
    "component vs. all components, six stripped fields or ValueError, format dispatch table; R-FWD strict reaches the tokenizer "
    "(ignore_stray_text = not strict) from every entry point over the resolved call graph; R-REWIND typestate of the peeked "
    "stream over all enumerated paths with predicate atoms; who-may-call the tokenizer. Equality of results between entry "
    "points on concrete texts and msdparser's own behaviour are NOT decided here."
)
ASSUMPTIONS = [
    "msdparser.parse_msd honours ignore_stray_text as documented (dependency, trusted base)",
    "a stream without any MSD parameter yields no parameter from any read position (StopIteration exit of the peek is exempt from R-REWIND)",
]


def c1(ctx):
    serial.reader_keynorm(ctx)


def c2(ctx):
    serial.table_spec(ctx)
    readers.sm_simfile_table(ctx)
    serial.sm_chart_reader(ctx)
    readers.ssc_simfile_table(ctx)
    readers.ssc_chart_table(ctx)


def c4(ctx):
    fwd.fwd_options(ctx, ["strict"], floor=7)
    fwd.parse_msd_strictness(ctx, floor=4)
    fwd.fwd_kwargs(ctx, floor=3, scope=["simfile:open", "simfile:open_with_detected_encoding", "simfile:mutate"])
    cg = callgraph(ctx)
    ctx.notes.append(f"call graph: {cg.total} call sites, {len(cg.unresolved)} unresolved ({cg.ratio():.1%} resolved)")


def c5(ctx):
    entry.rewind(ctx)
    entry.peek_copy(ctx)


def c6(ctx):
    entry.dispatch(ctx)


def c7(ctx):
    entry.funnel(ctx)
    entry.filename_entry(ctx)
    entry.text_entry_points(ctx)


def sweep(ctx):
    """thorough: every documented option, over every function of the package."""
    fwd.fwd_options(ctx, list(fwd.OPTIONS), floor=30)


sweep.thorough_only = True

def c8(ctx):
    state.shared_state(ctx, ["simfile:open", "simfile:load", "simfile:loads", "simfile:open_with_detected_encoding", "simfile:opendir", "simfile:openpack", "simfile:mutate"], "what a loader builds depends on its arguments only")

def c_api(ctx):
    baseline.surface(ctx, "C03: documented surface", modules=['simfile.sm', 'simfile.ssc', 'simfile.base'], functions=['simfile:load', 'simfile:loads', 'simfile:open', 'simfile:open_with_detected_encoding', 'simfile:opendir', 'simfile:openpack', 'simfile:mutate'], keys=['simfile.ENCODINGS', 'simfile.__all__'])

CLAUSES = [
    ("C03.1", "keys upper-cased in every reader (R-KEYNORM)", c1),
    ("C03.2-3", "first vs. all components; six trimmed fields or ValueError; SSC chart opening", c2),
    ("C03.4", "strict reaches the tokenizer from every entry point (R-FWD)", c4),
    ("C03.5", "peeked stream is rewound (R-REWIND)", c5),
    ("C03.6", "format dispatch table", c6),
    ("C03.7", "one funnel to the tokenizer; a file opened by name reaches load() as the file object (its name decides the format)", c7),
    ("C03.sweep", "package-wide option forwarding (thorough)", sweep),
    ("C03.8", "no process-wide state behind the loaders (module tables such as ENCODINGS are never changed at run time) (R-STATE)", c8),
    ("C03.api", "public surface: signatures and defaults, constants, enumerations, blank templates, base classes as confirmed (R-API)", c_api),
]
