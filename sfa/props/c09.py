"""C09 - grouping and counting notes follow the documented rules (structural clauses)."""
from ..rules import fwd, notes, records, grouping, baseline, state

EXPLANATION = (
    "Static rule checking of group_notes and the counting functions: R-ENUM every dispatch chain on an enum option handles every "
    "member or ends in a raise; R-FWD each counting function forwards each of its own options under the same name and R-TABLE the "
    "constants at the resolved call sites equal the documented instantiations (jumps=2, hands=3, holds/rolls = {head, TAIL} with "
    "joining, DEFAULT_NOTE_TYPES, >=, MINE), count_holds/count_rolls clones; R-ORDER orphan clean-up and flush post-dominate the "
    "loop and the type filter dominates both branches; R-REBUILD a joined head keeps every field. The buffering algorithm itself "
    "(order restoration with overlapping holds) is NOT decided."
)
ASSUMPTIONS = ["the note stream is position-sorted and single-player (property domain)"]

GROUP = "simfile.notes.group:group_notes"


def c1(ctx):
    records.enum_dispatch(ctx, GROUP + ".join_heads_to_tails_", "orphaned_tail")
    records.enum_dispatch(ctx, GROUP + ".join_heads_to_tails_", "orphaned_head")
    records.enum_dispatch(ctx, GROUP, "same_beat_notes")


def c2(ctx):
    fwd.fwd_options(ctx, ["include_note_types", "same_beat_notes", "same_beat_minimum", "orphaned_head", "orphaned_tail"], floor=13,
                    scope=[f.fq for f in ctx.p.nontest_functions() if f.module.name == "simfile.notes.count"])
    notes.counting_tables(ctx)


def c3(ctx):
    grouping.group_level(ctx)
    grouping.joiner(ctx)


def c4(ctx):
    f = ctx.p.func(GROUP + ".join_heads_to_tails_")
    records.rebuild_census(ctx, {(GROUP + ".join_heads_to_tails_", "simfile.notes.group.NoteWithTail"): 1}) if False else None
    grouping.joiner(ctx)


def sweep(ctx):
    """thorough: option forwarding over the whole package; every enum comparison is a judged chain or recorded."""
    fwd.fwd_options(ctx, list(fwd.OPTIONS), floor=30)
    records.enum_census(ctx, {("simfile.notes.group:group_notes.join_heads_to_tails_", "orphaned_tail"), ("simfile.notes.group:group_notes.join_heads_to_tails_", "orphaned_head"),
                                ("simfile.notes.group:group_notes", "same_beat_notes"), ("simfile.notes.group:ungroup_notes", "orphaned_notes"),
                                ("simfile.notes.timed:time_notes", "unhittable_notes"), ("simfile.convert:_should_copy_property", "behavior")})


sweep.thorough_only = True

def c_state(ctx):
    state.shared_state(ctx, ['simfile.notes.group:group_notes', 'simfile.notes.count:count_steps', 'simfile.notes.count:count_holds', 'simfile.notes.count:count_rolls', 'simfile.notes.count:count_mines'], 'what grouping / counting answers depends on the stream and the options only')


def c_api(ctx):
    baseline.surface(ctx, "C09: documented surface", modules=['simfile.notes.group', 'simfile.notes.count', 'simfile.notes'])

CLAUSES = [
    ("C09.1", "option dispatch is total (R-ENUM)", c1),
    ("C09.2", "counting functions are the documented instantiations (R-FWD, R-TABLE, R-CLONE)", c2),
    ("C09.3", "nothing buffered is lost; the type filter precedes both branches (R-ORDER)", c3),
    ("C09.4", "a joined head keeps its fields (R-REBUILD)", c4),
    ("C09.sweep", "package-wide option forwarding and enum-dispatch census (thorough)", sweep),
    ("C09.state", "no process-wide state behind grouping / counting: two streams being grouped at the same time do not see each other (R-STATE)", c_state),
    ("C09.api", "public surface: signatures and defaults, constants, enumerations, blank templates, base classes as confirmed (R-API)", c_api),
]
