"""C05 - mutate saves exactly the edited simfile, in the encoding it was read in (structural clauses)."""
from ..rules import fwd, mutate, state, baseline

EXPLANATION = (
    "Static rule checking of the encoding chain and of mutate's effects: def-use/R-FWD the returned encoding is the loop "
    "variable the file was opened with, iterated in the caller's order, and both write-mode opens use it; R-EXC only "
    "UnicodeDecodeError advances to the next encoding and the only exit without a result raises; R-ORDER (path enumeration "
    "with predicate atoms) the name check precedes every filesystem effect, backup data is captured before the yield, backup "
    "block closed before the output is opened; R-EFFECT the write-effect call sites of the whole package are exactly the two "
    "opens in mutate; R-TABLE ENCODINGS. Codec behaviour and byte-level idempotence are NOT decided here."
)
ASSUMPTIONS = [
    "Python codecs define what 'decodes' means (trusted base)",
    "NativeOSFS.open/openbin are forwarding wrappers of the PyFilesystem API: the mode is judged at their callers",
    "a file object's write() only writes to the file it was opened on",
]


def c1(ctx):
    mutate.encodings_table(ctx)
    mutate.encoding_chain(ctx)
    mutate.mutate_targets_and_encoding(ctx)
    fwd.fwd_options(ctx, ["try_encodings", "filesystem"], floor=3, scope=["simfile:open", "simfile:open_with_detected_encoding", "simfile:mutate"])
    fwd.fwd_kwargs(ctx, floor=3, scope=["simfile:open", "simfile:open_with_detected_encoding", "simfile:mutate"])


def c3(ctx):
    mutate.mutate_name_check(ctx)


def c4(ctx):
    from ..rules import serial
    serial.str_is_serialize(ctx)
    mutate.mutate_order(ctx, failure_clauses=False)
    mutate.save_sequence(ctx, failure=False)


def c5(ctx):
    mutate.effect_census(ctx)


def c8(ctx):
    state.shared_state(ctx, ["simfile:open", "simfile:open_with_detected_encoding", "simfile:mutate"], "the encodings tried depend on the call's arguments only")

def c_api(ctx):
    baseline.surface(ctx, "C05: documented surface", functions=['simfile:open', 'simfile:open_with_detected_encoding', 'simfile:mutate'], keys=['simfile.ENCODINGS', 'simfile.CancelMutation'], modules=['simfile._private.nativeosfs'])

CLAUSES = [
    ("C05.1-2", "encoding chain, error discipline, options forwarded", c1),
    ("C05.3", "name check before every filesystem effect", c3),
    ("C05.4", "order and targets of the writes", c4),
    ("C05.5", "no other file is touched (R-EFFECT census)", c5),
    ("C05.8", "no process-wide state behind encoding detection (R-STATE)", c8),
    ("C05.api", "public surface: signatures and defaults, constants, enumerations, blank templates, base classes as confirmed (R-API)", c_api),
]
