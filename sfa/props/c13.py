"""C13 - hittability and note timing follow the warp rules exactly (structural clauses)."""
from ..rules import notes, records, timing, state, baseline

EXPLANATION = (
    "Static rule checking: R-REBUILD the fake built by time_notes copies every field of the note except the type; R-ENUM the "
    "dispatch on unhittable_notes (DROP_NOTE is the documented fall-through); R-ORDER only an unhittable TAP under TAP_TO_FAKE "
    "becomes a fake, kept notes are the same object, one loop and no sorting; R-TABLE hittable searches with the greatest EventTag "
    "and its exception set is {STOP_END, DELAY_END} on the same beat; R-BISECT for hittable's search. That hittable equals "
    "membership in the warp union for all timing data is NOT decided here."
)
ASSUMPTIONS = ["NamedTuple field defaults (player=0, keysound_index=None) are what an omitted constructor argument gets"]

TIME_NOTES = "simfile.notes.timed:time_notes"


def c1(ctx):
    f = ctx.p.func(TIME_NOTES)
    records.rebuild_site(ctx, f, "simfile.notes.Note", 1, "@loop:note_data", {"note_type": "NoteType.FAKE"}, "fake note")


def c2(ctx):
    records.enum_dispatch(ctx, TIME_NOTES, "unhittable_notes", fallthrough={"DROP_NOTE": "documented: drop the unhittable note = emit nothing"})


def c3(ctx):
    notes.timed_rules(ctx)


def c4(ctx):
    timing.queries_are_pure(ctx, ["hittable", "time_at"])
    timing.coalesce_coherence(ctx)
    timing.hittable_rule(ctx)
    timing.bisect_rule(ctx, "hittable", "_tagged_beats")


def sweep(ctx):
    """thorough: every construction of a note record and every enum comparison in the package is a judged site or recorded."""
    records.rebuild_census(ctx, {("simfile.notes:NoteData._iter_measure", "simfile.notes.Note"): 1, ("simfile.notes.group:group_notes.join_heads_to_tails_", "simfile.notes.group.NoteWithTail"): 1,
                                 ("simfile.notes.group:ungroup_notes", "simfile.notes.Note"): 2, ("simfile.notes.timed:time_notes", "simfile.notes.Note"): 1,
                                 ("simfile.notes.timed:time_notes", "simfile.notes.timed.TimedNote"): 2})
    records.enum_census(ctx, {("simfile.notes.group:group_notes.join_heads_to_tails_", "orphaned_tail"), ("simfile.notes.group:group_notes.join_heads_to_tails_", "orphaned_head"),
                                ("simfile.notes.group:group_notes", "same_beat_notes"), ("simfile.notes.group:ungroup_notes", "orphaned_notes"),
                                ("simfile.notes.timed:time_notes", "unhittable_notes"), ("simfile.convert:_should_copy_property", "behavior")})


sweep.thorough_only = True

def c5(ctx):
    state.shared_state(ctx, ["simfile.notes.timed:time_notes", "simfile.timing.engine:TimingEngine.__init__", "simfile.timing.engine:TimingEngine.hittable", "simfile.timing.engine:TimingEngine.time_at"], "timing a chart depends on the note data and timing data passed in, as they are at the call")
    timing.event_pairing(ctx)

def c_api(ctx):
    baseline.surface(ctx, "C13: documented surface", modules=['simfile.timing.engine', 'simfile.notes.timed', 'simfile.timing'])

CLAUSES = [
    ("C13.1", "the fake keeps everything but the type (R-REBUILD)", c1),
    ("C13.2", "dispatch on unhittable_notes (R-ENUM)", c2),
    ("C13.3-5", "only taps become fakes; same object otherwise; order preserved", c3),
    ("C13.4", "hittable looks at the whole beat; exception set", c4),
    ("C13.sweep", "package-wide census of record constructions and enum dispatches (thorough)", sweep),
    ("C13.6", "no process-wide state behind time_notes / the engine; warp segments act as their union (R-STATE, R-TABLE)", c5),
    ("C13.api", "public surface: signatures and defaults, constants, enumerations, blank templates, base classes as confirmed (R-API)", c_api),
]
