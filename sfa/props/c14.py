"""C14 - beats are exact fractions that snap to the 1/48 grid only from inexact input (structural clauses)."""
from ..rules import timing, baseline, state

EXPLANATION = (
    "Static rule checking of Beat/BeatValues/TimingData: R-OPS every arithmetic dunder of fractions.Fraction (running interpreter) "
    "that the property lists is overridden, delegates to the same-named Fraction method with the same operand and wraps the result "
    "(for divmod: the remainder) in Beat; predicate atoms: round_to_tick is reached exactly under not (denominator or "
    "isinstance(numerator, Rational)); constants: BEAT_SUBDIVISION == 48, round(self*48)/48; a static arithmetic obligation on the "
    "format precision p of __str__: 10^-p/2 < 1/(2*48); R-TABLE writer/reader delimiters of BeatValues and the attribute/key pairs "
    "of TimingData.__init__. Fraction's own arithmetic and float formatting accuracy are NOT decided."
)
ASSUMPTIONS = ["|beat| <= 1e7 so that float formatting with 3 decimals is exact to half a unit in the last place", "fractions.Fraction arithmetic is exact"]


def c1(ctx):
    timing.beat_ops(ctx)


def c2(ctx):
    timing.beat_construction(ctx)


def c5(ctx):
    timing.beatvalues_codec(ctx, judge_source=False)


def c_state(ctx):
    state.shared_state(ctx, ['simfile.timing:Beat.__new__', 'simfile.timing:Beat.from_str', 'simfile.timing:Beat.__str__', 'simfile.timing:Beat.round_to_tick', 'simfile.timing:BeatValues.from_str', 'simfile.timing:BeatValues.__str__'], 'a Beat depends on its constructor arguments only')


def c_api(ctx):
    baseline.surface(ctx, "C14: documented surface", modules=['simfile.timing'])

CLAUSES = [
    ("C14.1", "operator completeness and same-name delegation (R-OPS)", c1),
    ("C14.2-4", "exact vs. snapping path; grid constants; text form injective on the grid", c2),
    ("C14.5-6", "event list writer/reader delimiters; timing strings reach the engine through one parser", c5),
    ("C14.state", "no process-wide state (memoised constructors) behind Beat / BeatValues (R-STATE)", c_state),
    ("C14.api", "public surface: signatures and defaults, constants, enumerations, blank templates, base classes as confirmed (R-API)", c_api),
]
