"""C19 - directory and pack discovery finds exactly the right simfiles (structural clauses)."""
from ..rules import dirs, fwd, baseline

EXPLANATION = (
    "Static rule checking: R-FWD every function with **kwargs documented as passed down forwards it (or rejects it), filesystem and "
    "ignore_duplicate are forwarded (parameter or stored-field form); R-TABLE the extensions dispatched on are exactly "
    "extensions.SIMFILE and match() lower-cases the path; R-CLONE the .sm/.ssc duplicate branches are identical modulo sm<->ssc and "
    "all 'ssc_path or sm_path' expressions prefer SSC; R-ORDER isdir dominates the nested listdir, one yield per directory, no "
    "recursion, FileNotFoundError guard dominates the open. Behaviour on concrete trees and filesystems is NOT decided."
)
ASSUMPTIONS = ["FS.listdir returns the names of the direct entries; FS.isdir is true for directories only (PyFilesystem contract)"]


def c1(ctx):
    fwd.fwd_kwargs(ctx, floor=8)
    fwd.fwd_options(ctx, ["filesystem", "ignore_duplicate", "strict"], floor=10, skip_callees=["simfile:_detect_ssc"],
                    scope=[f.fq for f in ctx.p.nontest_functions() if f.fq not in ("simfile:loads", "simfile:mutate")])


def c2(ctx):
    dirs.extension_match(ctx)
    dirs.directory_rules(ctx)


def c5(ctx):
    dirs.pack_rules(ctx)


def c_api(ctx):
    baseline.surface(ctx, "C19: documented surface", modules=['simfile.dir', 'simfile._private.extensions'], functions=['simfile:opendir', 'simfile:openpack'])

CLAUSES = [
    ("C19.1", "loader options pass through (R-FWD)", c1),
    ("C19.2-4,6", "extension dispatch, duplicate handling, SSC preferred, FileNotFoundError guard", c2),
    ("C19.5", "pack listing", c5),
    ("C19.api", "public surface: signatures and defaults, constants, enumerations, blank templates, base classes as confirmed (R-API)", c_api),
]
