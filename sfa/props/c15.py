"""C15 - split timing: chart timing is used all-or-nothing under one rule (structural clauses)."""
from ..rules import timing, baseline

EXPLANATION = (
    "Static rule checking: R-TABLE CHART_TIMING_PROPERTIES resolved through the descriptor table equals the eleven documented keys, "
    "the threshold is 0.7 and the comparison >=; predicate atoms: timing_source returns the chart exactly under the conjunction of "
    "the four documented conditions and the simfile otherwise; R-SINGLE after x = timing_source(simfile, chart) every read goes "
    "through x and the parameters are not read again (TimingData.__init__, displaybpm); R-ORDER/R-TABLE the DISPLAYBPM dispatch "
    "('*', 'a:b', number; only InvalidOperation falls back to BPMS). Numeric parsing of values is NOT decided."
)
ASSUMPTIONS = ["an item property read returns the value under its key (C18)"]


def c1(ctx):
    timing.timing_source_rule(ctx)


def c3(ctx):
    timing.single_source(ctx)
    timing.timingdata_fields(ctx)


def c5(ctx):
    timing.displaybpm_rule(ctx)


def c6(ctx):
    timing.beatvalues_codec(ctx, judge_source=False)


def c_api(ctx):
    baseline.surface(ctx, "C15: documented surface", modules=['simfile.timing', 'simfile.timing.displaybpm', 'simfile.timing._private.timingsource'])

CLAUSES = [
    ("C15.1-2", "the eleven properties; the rule (R-TABLE, predicate atoms)", c1),
    ("C15.3-4", "never mixed (R-SINGLE); offset default", c3),
    ("C15.5", "DISPLAYBPM dispatch", c5),
    ("C15.6", "every row of the chosen source's BPMS / STOPS / DELAYS / WARPS becomes one event, in order (shared with C14)", c6),
    ("C15.api", "public surface: signatures and defaults, constants, enumerations, blank templates, base classes as confirmed (R-API)", c_api),
]
