"""C11 - beat to time conversion matches the exact timeline (structural clauses)."""
from ..rules import timing, state, baseline

EXPLANATION = (
    "Static rule checking of the timing engine's forward direction: R-TABLE the EventTag order and default tag, the pairing of event "
    "lists with tags, warp coalescing comparisons and the initial state; R-BISECT the list handed to bisect is a projection of the "
    "state sequence onto the very key (beat, tag) that heapq.merge builds it sorted by (TaggedEvent.__lt__ recognised as a "
    "lexicographic comparison); R-DIM a units-of-measure check: beats*60/bpm is seconds, the pause length is added only under the "
    "{STOP, DELAY} x {STOP_END, DELAY_END} guard, the BPM changes only on a BPM event. Numerical agreement with the exact timeline, "
    "monotonicity and the invariances are NOT decided here."
)
ASSUMPTIONS = [
    "each of BPMS/STOPS/DELAYS/WARPS is sorted by strictly increasing beat (property domain), so each per-kind list is sorted by TaggedEvent order",
    "heapq.merge of sorted inputs is sorted by '<'",
]


def c1(ctx):
    timing.tag_order(ctx, ['time_at'])


def c2(ctx):
    timing.event_pairing(ctx)
    timing.coalesce_coherence(ctx)


def c3(ctx):
    timing.queries_are_pure(ctx, ["time_at", "bpm_at"])
    timing.bisect_rule(ctx, "time_at", "_tagged_beats")
    timing.bisect_rule(ctx, "bpm_at", "_tagged_beats")
    timing.bisect_census(ctx)


def c4(ctx):
    timing.dims_time(ctx)


def c5(ctx):
    state.shared_state(ctx, ["simfile.timing.engine:TimingEngine.__init__", "simfile.timing.engine:TimingEngine.time_at", "simfile.timing.engine:TimingEngine.bpm_at"], "the times an engine reports depend on its own timing data only")

def c_api(ctx):
    baseline.surface(ctx, "C11: documented surface", modules=['simfile.timing.engine', 'simfile.timing'])

CLAUSES = [
    ("C11.1", "tag order and default tag (R-TABLE)", c1),
    ("C11.2", "event pairing, warp coalescing, initial state (R-TABLE)", c2),
    ("C11.3", "search order = build order for _tagged_beats (R-BISECT)", c3),
    ("C11.4-5", "dimensions and pause guard sets (R-DIM, R-TABLE)", c4),
    ("C11.6", "no process-wide state behind the engine (a cache must be keyed by everything the timeline reads) (R-STATE)", c5),
    ("C11.api", "public surface: signatures and defaults, constants, enumerations, blank templates, base classes as confirmed (R-API)", c_api),
]
