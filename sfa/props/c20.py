"""C20 - asset lookup: the named file if it exists, else a pattern match, else None (structural clauses)."""
from ..rules import dirs, baseline

EXPLANATION = (
    "Static rule checking: R-PROV every non-None value that reaches the cache derives from an element of a directory listing "
    "(the simfile directory's, or the containing directory's for a specified path) joined onto that directory; R-ORDER every return "
    "of the lookup is the cache hit or goes through _cache_path, which stores before returning; R-SYM both sides of the file-name "
    "comparison are lower-cased; R-TABLE each preset normalised with the stdlib regex parser into (anchor, literal, anchor) equals "
    "the documented pattern table, MUSIC matches by audio extension; banner: two stages, each ordered by extensions.IMAGE, stage 2 "
    "guarded by exists. Which of several matches wins, and the DISC key, are not claimed."
)
ASSUMPTIONS = ["FS.listdir lists existing entries; FS.exists is accurate at the time of the call"]


def c1(ctx):
    dirs.asset_lookup(ctx)


def c4(ctx):
    dirs.asset_tables(ctx)
    dirs.extension_match(ctx)


def c5(ctx):
    dirs.pack_banner(ctx)


def c_api(ctx):
    baseline.surface(ctx, "C20: documented surface", modules=['simfile.assets', 'simfile._private.extensions', 'simfile.dir', 'simfile._private.path'])

CLAUSES = [
    ("C20.1-3,6", "provenance, cache, case-insensitive comparison, specified path first", c1),
    ("C20.4", "pattern table and matching", c4),
    ("C20.5", "pack banner priority", c5),
    ("C20.api", "public surface: signatures and defaults, constants, enumerations, blank templates, base classes as confirmed (R-API)", c_api),
]
