"""C01 - SM simfile: serialize then parse gives back the same simfile (structural clauses)."""
from ..rules import readers, serial, writers, census, entry, baseline, views

EXPLANATION = (
    "Static rule checking (ast + CFG/dominance + constant evaluation) of the structural conditions the SM round trip "
    "needs on every path: R-TABLE field order writer=reader=documentation and multi-value split/join symmetry; R-WS "
    "decorations are whitespace and the reader strips; R-NULL key-only values reach no string sink; R-ORDER layout. "
    "Round-trip equality on concrete values and msdparser's escaping are NOT decided here."
)
ASSUMPTIONS = [
    "msdparser.MSDParameter.value is Optional[str] (read from the dependency's source annotation)",
    "msdparser escapes/tokenizes components as mutual inverses outside the gaps listed in the property",
]


def c1(ctx):
    serial.table_spec(ctx, 'sm')
    serial.smchart_writer_fields(ctx)
    serial.sm_chart_reader(ctx)


def c3(ctx):
    writers.base_items(ctx)
    readers.sm_simfile_table(ctx, raw_key_ok=True)


def c5(ctx):
    serial.str_is_serialize(ctx)
    entry.detection_fallback(ctx)
    serial.layout(ctx)
    writers.charts_items(ctx)
    serial.serializer_raw_text(ctx, 'sm')


def c4(ctx):
    serial.null_sweep(ctx, 'sm')


def c6(ctx):
    census.mechanism_census(ctx, ["serialize", "__str__", "items", "keys", "values", "__iter__", "__getitem__", "get", "__init__", "_parse", "__setitem__", "update", "setdefault", "move_to_end", "__eq__", "__ne__", "from_str", "from_msd", "_from_msd", "__delitem__", "pop", "popitem", "clear"], "SM serialize / parse", modules=["simfile.base", "simfile.sm", "simfile._private.serializable"])
    entry.constructor_funnel(ctx)
    views.equality(ctx)
    entry.text_entry_points(ctx)

def c_api(ctx):
    baseline.surface(ctx, "C01: documented surface", modules=['simfile.sm', 'simfile.base', 'simfile._private.serializable'])

CLAUSES = [
    ("C01.1-2", "field order and strip-able decorations (writer, reader, documentation)", c1),
    ("C01.3", "multi-value split/join symmetry and item forms", c3),
    ("C01.4", "key-only values serialize (R-NULL)", c4),
    ("C01.5", "layout: properties, blank line, charts in order; only parameters and whitespace are written", c5),
    ("C01.6", "no unexamined override of the writer / reader / mapping methods in the SM classes (R-CENSUS); the constructor parses whenever a text is given, also the empty one; 'equal' means same type, same ordered mapping, same charts (six fields per chart)", c6),
    ("C01.api", "public surface: signatures and defaults, constants, enumerations, blank templates, base classes as confirmed (R-API)", c_api),
]
