"""C08 - notes written to note data read back identically, in canonical form (structural clauses)."""
from ..rules import notes, baseline, state

EXPLANATION = (
    "Static rule checking of NoteData.from_notes: R-ORDER must-pass-through - on every enumerated path to the return (loops zero / "
    "at-least-once, sentinel locals constant-propagated, library fact: itertools.groupby groups are non-empty) a push_measure() "
    "has run; skipped players/measures/rows are filled over range(last+1, current) with last advanced every iteration (R-POLY); "
    "separators written agree with the reader's split characters; rows per measure = 4*lcm(denominators), row key = beat mod 4 * q; "
    "a cell is str(note) at note.column. Equality of decoded and encoded notes on concrete streams is NOT decided."
)
ASSUMPTIONS = [
    "itertools.groupby never yields an empty group and yields at least one group for a non-empty iterable",
    "the input stream is sorted by (player, beat, column) (property domain)",
]


def c1(ctx):
    notes.from_notes_paths(ctx)


def c2(ctx):
    notes.from_notes_fill(ctx)


def c3(ctx):
    notes.from_notes_rows(ctx)


def c5(ctx):
    notes.beat_formula(ctx)
    notes.keysound_extraction(ctx)
    notes.columns_rule(ctx)


def c_state(ctx):
    state.shared_state(ctx, ['simfile.notes:NoteData.__iter__', 'simfile.notes:NoteData.from_notes', 'simfile.notes:NoteData.__init__', 'simfile.timing:Beat.__new__'], 'the text written for a stream of notes depends on that stream only')


def c_api(ctx):
    baseline.surface(ctx, "C08: documented surface", modules=['simfile.notes'])

CLAUSES = [
    ("C08.1", "every exit has written a measure (must-pass-through)", c1),
    ("C08.2", "skipped players / measures / rows are filled; separators agree with the reader", c2),
    ("C08.3-4", "row count and row key; a written cell is the note's own text", c3),
    ("C08.5", "the reader as the inverse: beat formula, one note per cell with the cell's own fields, keysound brackets, reported column count (shared with C07)", c5),
    ("C08.state", "no process-wide state (module-level caches, memoised constructors) behind the note writer / reader (R-STATE)", c_state),
    ("C08.api", "public surface: signatures and defaults, constants, enumerations, blank templates, base classes as confirmed (R-API)", c_api),
]
