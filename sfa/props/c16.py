"""C16 - SM to SSC conversion keeps every property, chart, timing and note (structural clauses)."""
from ..rules import convert, fwd, readers, writers, baseline, views, state, timing

EXPLANATION = (
    "Static rule checking of sm_to_ssc: R-ALIAS every aliased item property of the source class resolves to the same key/alias "
    "on the target class (descriptor tables); R-PURE the converter writes only to objects it created (deepcopy(template) or "
    "blank()), parameters are never receivers of a store or a mutating call; R-TABLE nothing is invalid when the target is SSC; "
    "R-ORDER the negative-BPM/stop check dominates every copy and covers both lists, every chart is converted and appended in "
    "order; R-FWD templates are passed through. Equality of timing/notes as read back is NOT decided."
)
ASSUMPTIONS = ["copy.deepcopy returns an object sharing no mutable state with its argument", "str values are immutable (sharing them is not aliasing)"]


def c1(ctx):
    convert.alias_rule(ctx, "simfile.sm.SMSimfile", "simfile.ssc.SSCSimfile")


def c2(ctx):
    convert.purity(ctx)
    convert.convert_sequence(ctx)
    convert.wrappers(ctx, 'sm_to_ssc')
    fwd.fwd_options(ctx, ["simfile_template", "chart_template"], floor=2, scope=["simfile.convert:sm_to_ssc", "simfile.convert:_convert"])


def c3(ctx):
    convert.ssc_target_tables(ctx, 'sm_to_ssc')


def c4(ctx):
    convert.warps_first(ctx, 'sm_to_ssc')


def c5(ctx):
    writers.base_items(ctx)
    writers.ssc_chart_items(ctx)
    readers.ssc_simfile_table(ctx, raw_key_ok=True, relaxed=True)


def c_views(ctx):
    views.key_chooser(ctx)
    state.shared_state(ctx, ['simfile.convert:sm_to_ssc'], 'the conversion of one simfile depends on that simfile, the templates and the policy only')


def c_timing(ctx):
    timing.timing_source_rule(ctx)
    timing.timingdata_fields(ctx)


def c_api(ctx):
    baseline.surface(ctx, "C16: documented surface", modules=['simfile.convert'], keys=['simfile.ssc.SSCSimfile', 'simfile.ssc.SSCChart', 'simfile.sm.SMSimfile'])

CLAUSES = [
    ("C16.1", "aliases survive conversion (R-ALIAS)", c1),
    ("C16.2-5", "purity and freshness; every chart in order; templates forwarded (R-PURE, R-ORDER, R-FWD)", c2),
    ("C16.3", "every property is copied when the target is SSC (R-TABLE)", c3),
    ("C16.4", "negative BPM/stop refusal first (R-ORDER)", c4),
    ("C16.6", "the result's serialization loads back as an equal SSC simfile: every key is written, the notes item (by key) last (shared with C02)", c5),
    ("C16.7", "properties are read and written through the attribute views under the documented key (alias exactly when the standard key is absent); no process-wide state between conversions (R-STATE)", c_views),
    ("C16.8", "the timing reader the comparison goes through: which object the timing is read from, and that every list (WARPS by key, as SM simfiles have no such attribute) and the offset are read from it (shared with C15)", c_timing),
    ("C16.api", "public surface: signatures and defaults, constants, enumerations, blank templates, base classes as confirmed (R-API)", c_api),
]
