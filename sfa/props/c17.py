"""C17 - SSC to SM conversion applies the caller's policy to every SSC-only property (structural clauses)."""
from ..rules import convert, fwd, records, baseline, views, state

EXPLANATION = (
    "Static rule checking of ssc_to_sm: R-EXC the may-raise set - explicit raises in the resolved call tree must be within "
    "{InvalidPropertyException, NotImplementedError}, plus the raising summary of the store output[property] = value for an SMChart "
    "(SMChart.__setitem__ raises KeyError outside SM_CHART_PROPERTIES): every documented SSC chart key that is neither an SM field "
    "nor listed in INVALID_PROPERTIES[SMChart] is a finding keyed by the key; R-TABLE completeness of the tables, documented default "
    "behaviours, defaults agree with the blank templates; R-ENUM/R-TABLE per-member outcomes of the behaviour dispatch; R-PURE and "
    "order as C16. The round trip on values is NOT decided."
)
ASSUMPTIONS = ["OrderedDict.__setitem__ (SMSimfile, SSC classes) does not raise for str keys"]


def c1(ctx):
    convert.may_raise(ctx)


def c2(ctx):
    convert.table_completeness(ctx)


def c3(ctx):
    records.enum_dispatch(ctx, "simfile.convert:_should_copy_property", "behavior", enum_cls="simfile.convert.InvalidPropertyBehavior")
    convert.policy_dispatch(ctx)
    fwd.fwd_options(ctx, ["invalid_property_behaviors", "simfile_template", "chart_template"], floor=5,
                    scope=["simfile.convert:ssc_to_sm", "simfile.convert:_convert", "simfile.convert:_copy_properties"])


def c5(ctx):
    convert.global_tables_immutable(ctx)
    convert.purity(ctx)
    convert.convert_sequence(ctx)
    convert.wrappers(ctx, 'ssc_to_sm')
    convert.warps_first(ctx, 'ssc_to_sm')
    convert.ssc_target_tables(ctx, 'ssc_to_sm')


def c_views(ctx):
    views.key_chooser(ctx)
    views.smchart_guards(ctx)
    state.shared_state(ctx, ['simfile.convert:ssc_to_sm'], 'the conversion of one simfile depends on that simfile, the templates and the policy only')


def c_api(ctx):
    baseline.surface(ctx, "C17: documented surface", modules=['simfile.convert'], keys=['simfile.ssc.SSCSimfile', 'simfile.ssc.SSCChart', 'simfile.sm.SMSimfile'])

CLAUSES = [
    ("C17.1", "may-raise set of ssc_to_sm (R-EXC)", c1),
    ("C17.2-4", "table completeness; defaults agree with the blank templates (R-TABLE)", c2),
    ("C17.3", "behaviour dispatch total with the documented outcomes; policy forwarded", c3),
    ("C17.5", "purity, chart order, warps check first", c5),
    ("C17.7", "properties are read and written through the attribute views under the documented key (alias exactly when the standard key is absent); no process-wide state between conversions (R-STATE)", c_views),
    ("C17.api", "public surface: signatures and defaults, constants, enumerations, blank templates, base classes as confirmed (R-API)", c_api),
]
