"""C02 - SSC simfile: serialize then parse gives back the same simfile (structural clauses)."""
from ..rules import entry, readers, serial, writers, census, baseline, views
from ..rules.ident import ident_rule

EXPLANATION = (
    "Static rule checking of the SSC writer/reader pair: R-IDENT no identity comparison between values in ssc.py and the "
    "notes item recognised by key against the declared key/alias; R-ORDER typestate of the written chart (NOTEDATA first, "
    "notes item last on every path, every other item written); R-TABLE multi-value symmetry and chart opening rules of the "
    "reader; R-NULL at the chart serializer's sinks. Value-level round-trip equality is NOT decided here."
)
ASSUMPTIONS = [
    "msdparser.MSDParameter.value is Optional[str] (read from the dependency's source annotation)",
    "CPython may share equal str objects (interning) - the reason identity on values is value-dependent",
]


def c1(ctx):
    ident_rule(ctx, ["simfile.ssc"] if ctx.tier == "quick" else [m.name for m in ctx.p.nontest_modules()], floor=4 if ctx.tier == "quick" else 12)
    writers.ssc_chart_items(ctx)
    readers.ssc_chart_table(ctx, raw_key_ok=True)


def c3(ctx):
    serial.table_spec(ctx, 'ssc')
    writers.base_items(ctx)


def c4(ctx):
    readers.ssc_simfile_table(ctx, raw_key_ok=True, relaxed=True)


def c6(ctx):
    entry.detection_fallback(ctx)


def c5(ctx):
    serial.str_is_serialize(ctx)
    serial.null_sweep(ctx, 'ssc')
    serial.serializer_raw_text(ctx, 'ssc')
    serial.layout(ctx)
    writers.charts_items(ctx)


def c7(ctx):
    census.mechanism_census(ctx, ["serialize", "__str__", "items", "keys", "values", "__iter__", "__getitem__", "get", "__init__", "_parse", "__setitem__", "update", "setdefault", "move_to_end", "__eq__", "__ne__", "from_str", "from_msd", "_from_msd", "__delitem__", "pop", "popitem", "clear"], "SSC serialize / parse", modules=["simfile.base", "simfile.ssc", "simfile._private.serializable"])
    entry.constructor_funnel(ctx)
    views.equality(ctx, sm_chart=False)

def c_api(ctx):
    baseline.surface(ctx, "C02: documented surface", modules=['simfile.ssc', 'simfile.base', 'simfile._private.serializable'])

CLAUSES = [
    ("C02.1-2", "notes item by key; NOTEDATA first, notes last; no identity tests on values", c1),
    ("C02.3", "multi-value symmetry on simfile and chart level", c3),
    ("C02.4", "chart opening/closing in SSCSimfile._parse", c4),
    ("C02.5", "R-NULL at the sinks; only parameters and whitespace are written; layout", c5),
    ("C02.6", "the text is auto-detected as SSC when VERSION is the first key (whatever its value)", c6),
    ("C02.7", "no unexamined override of the writer / reader / mapping methods in the SSC classes (R-CENSUS); 'equal' means same type, same ordered mapping, same charts", c7),
    ("C02.api", "public surface: signatures and defaults, constants, enumerations, blank templates, base classes as confirmed (R-API)", c_api),
]
