"""C04 - load, save, load loses nothing; a second save changes nothing (structural clauses)."""
from ..rules import readers, serial, writers, census, baseline, entry

EXPLANATION = (
    "Static rule checking of 'whenever a text loads it can be serialized' and of the idempotence of the normalisers: R-NULL "
    "over every serialize() of a Serializable subclass with the parsers' stores (param.value: Optional[str]) as sources; "
    "R-KEYNORM keys are stored upper-cased and written as stored; R-WS decorations are whitespace and the reader strips them; "
    "R-TABLE split/join symmetry under the same table. Byte-level stability of a second save is NOT decided here."
)
ASSUMPTIONS = [
    "msdparser.MSDParameter.value is Optional[str] (read from the dependency's source annotation)",
    "SMChart fields come from strip() results on the load path and are therefore str (absent fields are outside the load-path domain)",
]


def c1(ctx):
    serial.null_sweep(ctx)
    writers.base_items(ctx)
    writers.ssc_chart_items(ctx)


def c2(ctx):
    serial.reader_keynorm(ctx)
    readers.sm_simfile_table(ctx)
    readers.ssc_simfile_table(ctx)
    readers.ssc_chart_table(ctx)
    serial.table_spec(ctx)


def c3(ctx):
    serial.smchart_writer_fields(ctx)
    serial.sm_chart_reader(ctx)
    serial.serializer_raw_text(ctx)
    serial.str_is_serialize(ctx)
    serial.layout(ctx)
    writers.charts_items(ctx)


def c4(ctx):
    census.mechanism_census(ctx, ["serialize", "__str__", "items", "keys", "values", "__iter__", "__getitem__", "get", "__init__", "_parse", "__setitem__", "update", "setdefault", "move_to_end", "__eq__", "__ne__", "from_str", "from_msd", "_from_msd", "__delitem__", "pop", "popitem", "clear"], "load / save")
    entry.constructor_funnel(ctx)

def c_api(ctx):
    baseline.surface(ctx, "C04: documented surface", modules=['simfile.sm', 'simfile.ssc', 'simfile.base', 'simfile._private.serializable'], functions=['simfile:load', 'simfile:loads'])

CLAUSES = [
    ("C04.1", "every loaded value can be serialized (R-NULL over all serializers)", c1),
    ("C04.2", "normalisation is idempotent: keys stored upper-cased, multi-value join/split symmetric", c2),
    ("C04.3", "decorations are whitespace and stripped; only parameters and whitespace are written; layout", c3),
    ("C04.4", "no unexamined override of the writer / reader / mapping methods anywhere in the hierarchy (R-CENSUS)", c4),
    ("C04.api", "public surface: signatures and defaults, constants, enumerations, blank templates, base classes as confirmed (R-API)", c_api),
]
