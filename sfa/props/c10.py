"""C10 - ungrouping grouped notes restores the original note stream (structural clauses)."""
from ..rules import notes, records, grouping, baseline, state

EXPLANATION = (
    "Static rule checking of ungroup_notes: R-REBUILD the head Note copies every field of the NoteWithTail, the tail Note takes "
    "tail_beat/TAIL/column/player and no keysound index; R-ORDER the drain loop post-dominates the main loop, every joined note "
    "pushes exactly one tail, tails are released before later notes; R-ENUM on the orphan policy; R-CMP the heap order used for "
    "the pending tails is Note's position order (all four operators). Stream equality on concrete inputs is NOT decided."
)
ASSUMPTIONS = ["heapq orders its elements with '<' only", "tails carry no keysound index (property domain)"]

UNGROUP = "simfile.notes.group:ungroup_notes"


def c1(ctx):
    f = ctx.p.func(UNGROUP)
    records.rebuild_site(ctx, f, "simfile.notes.Note", 1, "note", {}, "rebuilt head")
    records.rebuild_site(ctx, f, "simfile.notes.Note", 2, "note", {"beat": "note.tail_beat", "note_type": "NoteType.TAIL", "keysound_index": None}, "rebuilt tail")


def c2(ctx):
    notes.ungroup_order(ctx)


def c5(ctx):
    # group_notes as the forward direction: the type filter precedes joining, nothing buffered is lost, a joined head keeps its fields
    grouping.group_level(ctx)
    grouping.joiner(ctx)


def c3(ctx):
    records.enum_dispatch(ctx, UNGROUP, "orphaned_notes")


def c4(ctx):
    records.cmp_rule(ctx, "simfile.notes.Note", ("player", "beat", "column"))


def sweep(ctx):
    """thorough: every construction of a note record and every enum comparison in the package is a judged site or recorded."""
    records.rebuild_census(ctx, {("simfile.notes:NoteData._iter_measure", "simfile.notes.Note"): 1, ("simfile.notes.group:group_notes.join_heads_to_tails_", "simfile.notes.group.NoteWithTail"): 1,
                                 ("simfile.notes.group:ungroup_notes", "simfile.notes.Note"): 2, ("simfile.notes.timed:time_notes", "simfile.notes.Note"): 1,
                                 ("simfile.notes.timed:time_notes", "simfile.notes.timed.TimedNote"): 2})
    records.enum_census(ctx, {("simfile.notes.group:group_notes.join_heads_to_tails_", "orphaned_tail"), ("simfile.notes.group:group_notes.join_heads_to_tails_", "orphaned_head"),
                                ("simfile.notes.group:group_notes", "same_beat_notes"), ("simfile.notes.group:ungroup_notes", "orphaned_notes"),
                                ("simfile.notes.timed:time_notes", "unhittable_notes"), ("simfile.convert:_should_copy_property", "behavior")})


sweep.thorough_only = True

def c_state(ctx):
    state.shared_state(ctx, ['simfile.notes.group:group_notes', 'simfile.notes.group:ungroup_notes'], 'grouping and ungrouping one stream depends on that stream and the options only')


def c_api(ctx):
    baseline.surface(ctx, "C10: documented surface", modules=['simfile.notes.group', 'simfile.notes'])

CLAUSES = [
    ("C10.1", "rebuilt notes carry every field (R-REBUILD)", c1),
    ("C10.2", "no tail is lost; tails released in order (R-ORDER)", c2),
    ("C10.3", "orphan policy dispatch is total (R-ENUM)", c3),
    ("C10.4", "the heap order is the note position order (R-CMP, shared with C07)", c4),
    ("C10.5", "the forward direction (group_notes): filter before joining, nothing lost, joined head keeps its fields (shared with C09)", c5),
    ("C10.sweep", "package-wide census of record constructions and enum dispatches (thorough)", sweep),
    ("C10.state", "no process-wide state behind grouping / counting: two streams being grouped at the same time do not see each other (R-STATE)", c_state),
    ("C10.api", "public surface: signatures and defaults, constants, enumerations, blank templates, base classes as confirmed (R-API)", c_api),
]
