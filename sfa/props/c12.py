"""C12 - time to beat conversion inverts beat to time on the tick grid (structural clauses)."""
from ..rules import timing, state, baseline

EXPLANATION = (
    "Static rule checking of the inverse direction: R-BISECT the list searched by beat_at must be sorted by the key it is searched "
    "with - it is the projection (time, tag) of a sequence built in (beat, tag) order, which is reported (known finding); R-DIM "
    "seconds/60*bpm is beats, wrapped in Beat(float) (tick rounding), zero beats under the {STOP, DELAY} guard; guard-set agreement "
    "with C11. The inverse law and the half-tick bound are NOT decided here."
)
ASSUMPTIONS = ["time is only weakly monotone in (beat, tag) order: pauses of length 0 do not occur, but warps make distinct events share a time"]


def c1(ctx):
    timing.queries_are_pure(ctx, ["beat_at"])
    timing.bisect_rule(ctx, "beat_at", "_tagged_times")
    timing.bisect_census(ctx)


def c2(ctx):
    timing.dims_beat(ctx)
    timing.tag_order(ctx, ['beat_at'])


def c3(ctx):
    state.shared_state(ctx, ["simfile.timing.engine:TimingEngine.__init__", "simfile.timing.engine:TimingEngine.beat_at"], "the beats an engine reports depend on its own timing data only")
    timing.warp_union(ctx)

def c4(ctx):
    timing.dims_time(ctx)
    timing.beat_construction(ctx)
    timing.event_pairing(ctx)


def c_api(ctx):
    baseline.surface(ctx, "C12: documented surface", modules=['simfile.timing.engine', 'simfile.timing'])

CLAUSES = [
    ("C12.1", "search order = build order for _tagged_times (R-BISECT)", c1),
    ("C12.2-3", "dimensions of beats_until / beat_at; guard sets; default tag", c2),
    ("C12.4", "no process-wide state behind the engine; warp segments act as their union (shared with C11) (R-STATE, R-TABLE)", c3),
    ("C12.5", "the timeline beat_at searches is built from time_until (no time inside a warp, pause lengths under the tag guard) and from Beats that are exact or tick-snapped (shared with C11, C14)", c4),
    ("C12.api", "public surface: signatures and defaults, constants, enumerations, blank templates, base classes as confirmed (R-API)", c_api),
]
