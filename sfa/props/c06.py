"""C06 - a failed or cancelled mutate never damages the input file (structural clauses)."""
from ..rules import mutate, baseline, writers, serial

EXPLANATION = (
    "Static rule checking of mutate's failure behaviour: R-EXC handler discipline around the yield (CancelMutation the only "
    "swallowed class, every other handler a bare re-raise, no write effect reachable from a handler or a finally); R-ORDER "
    "every write-mode open is dominated by the completed serialization and encode check of the text it writes, the write-mode "
    "with-bodies contain nothing but writer.write(<prepared string>), the backup block is closed before the output is opened; "
    "R-EFFECT census. Behaviour under injected k-th filesystem faults is covered only to the extent that a failing open('w') "
    "is assumed not to truncate."
)
ASSUMPTIONS = [
    "a failing open(name, 'w') does not truncate the file",
    "str.encode(encoding) raises for exactly the characters the text-mode writer could not encode",
    "writing an already prepared, encodable str to an open file fails only for environmental reasons (disk full, I/O error)",
]


def c1(ctx):
    mutate.mutate_handlers(ctx)


def c2(ctx):
    mutate.mutate_order(ctx)
    mutate.save_sequence(ctx)


def c3(ctx):
    mutate.effect_census(ctx, only_reachable_from_mutate=True)


def c4(ctx):
    mutate.serialization_fails_loudly(ctx)
    writers.charts_items(ctx)
    writers.base_items(ctx)
    writers.ssc_chart_items(ctx)
    serial.smchart_writer_fields(ctx)
    serial.serializer_raw_text(ctx)
    serial.str_is_serialize(ctx)


def c_api(ctx):
    baseline.surface(ctx, "C06: documented surface", functions=['simfile:mutate', 'simfile:open_with_detected_encoding'], keys=['simfile.ENCODINGS', 'simfile.CancelMutation'], modules=['simfile._private.nativeosfs', 'simfile._private.serializable'])

CLAUSES = [
    ("C06.1", "handler discipline around the yield (R-EXC)", c1),
    ("C06.2-4", "nothing that can fail for data reasons happens after truncation; backup complete first (R-ORDER)", c2),
    ("C06.5", "write-effect census over mutate's call tree", c3),
    ("C06.6", "a failing serialization raises out of str(simfile): nothing swallows it (R-EXC); every chart-list element is written by its own serialize(), so a non-chart raises; every item is written as one escaped MSD parameter, so the backup parses to the original (shared with C01, C02)", c4),
    ("C06.api", "public surface: signatures and defaults, constants, enumerations, blank templates, base classes as confirmed (R-API)", c_api),
]
