"""C18 - attribute and key views of a simfile or chart never disagree (structural clauses)."""
from ..rules import serial, views, writers, census, baseline

EXPLANATION = (
    "Static rule checking of the descriptor machinery: R-CLONE/R-TABLE the three accessors of item_property apply get / []= / del to "
    "the result of one key chooser, which returns the alias exactly under 'name not in self and alias and alias in self'; R-TABLE "
    "attribute name = lower-cased key for all declarations, the alias table equals the documented one; class table: SMChart "
    "overrides every key-changing method and each refuses keys outside the six fields; equality and serialization read the "
    "mapping. Agreement on concrete histories is NOT decided; clear/setdefault/|= on SMChart are outside the operation set."
)
ASSUMPTIONS = ["OrderedDict get/[]=/del/in behave as documented (stdlib)"]


def c1(ctx):
    views.key_chooser(ctx)


def c2(ctx):
    views.declarations(ctx)


def c4(ctx):
    views.smchart_guards(ctx)


def c5(ctx):
    views.equality(ctx)
    serial.smchart_writer_fields(ctx)
    writers.ssc_chart_items(ctx, judge_skip_only=True)
    writers.base_items(ctx)
    serial.str_is_serialize(ctx)


def c9(ctx):
    census.mechanism_census(ctx, sorted(census.WATCHED), "attribute and key views")

def c_api(ctx):
    baseline.surface(ctx, "C18: documented surface", modules=['simfile._private.property', 'simfile.base', 'simfile.sm', 'simfile.ssc'])

CLAUSES = [
    ("C18.1", "one key chooser for get/set/delete", c1),
    ("C18.2-3", "attribute name = lower-cased key; alias table", c2),
    ("C18.4", "SM chart key guards", c4),
    ("C18.5", "equality and serialization read the mapping", c5),
    ("C18.6", "the mapping methods are the inherited OrderedDict ones except where examined (R-CENSUS)", c9),
    ("C18.api", "public surface: signatures and defaults, constants, enumerations, blank templates, base classes as confirmed (R-API)", c_api),
]
