"""
Load-time normal form.  Everything here is semantics-preserving and exists so
that the rules need to know one spelling only:

  * `tmp = E; return tmp`                      -> `return E`
  * `isinstance(x, (A, B))`                    -> `isinstance(x, A) or isinstance(x, B)`
  * calls of *new* private helpers (functions whose name is not one of the
    definitions the repository has today, see anchors.txt) are inlined into
    their callers, so that an "extract helper" refactoring is transparent:
      - a helper that is a single `return <expr>` is substituted as an expression
        (also when passed by reference: `reduce(_lcm, ...)` -> `reduce(lambda a, b: ..., ...)`)
      - a helper whose returns are all in tail position is spliced in as statements
        at `f(...)`, `x = f(...)` and `return f(...)` call statements.
"""
from __future__ import annotations

import ast
import copy
import os
from typing import Dict, List, Optional, Set, Tuple

_ANCHORS: Optional[Set[str]] = None


def anchors() -> Set[str]:
    global _ANCHORS
    if _ANCHORS is None:
        p = os.path.join(os.path.dirname(os.path.abspath(__file__)), "anchors.txt")
        with open(p) as f:
            _ANCHORS = {l.strip() for l in f if l.strip()}
    return _ANCHORS


class Once(ast.stmt):
    """A block executed exactly once; `break` inside it leaves the block (the spliced body of a helper whose returns
    are not all in tail position: `return E` became `<deliver E>; break`)."""
    _fields = ("body",)


def _unparse_once(self, node):  # ast.unparse support for the synthetic block
    self.fill("for _once in (None,)")
    with self.block():
        self.traverse(node.body)


ast._Unparser.visit_Once = _unparse_once  # type: ignore[attr-defined]


def normalise(tree: ast.Module) -> None:
    """Single-module form (kept for probes): no cross-module helpers."""
    normalise_program({"<module>": tree}, set())


def normalise_program(trees: Dict[str, ast.Module], pkgs: Set[str]) -> None:
    from . import normalize_ho as ho
    for t in trees.values():
        _iso(t)
    ho.renamed_private_anchors(trees)
    ho.inline_new_properties(trees)
    ho.fold_private_constants(trees, pkgs)
    for t in trees.values():
        _strip_casts(t)
        _iso(t)  # isinstance(x, _TYPES) with a private tuple of classes is the `or` of the single tests now
    for m, t in trees.items():
        if not (".tests" in m or m.endswith("tests")):
            ho.expand_member_factories(t)
            ho.explicit_super(t)
            ho.format_calls(t)
            ho.function_values(t)
            ho.inline_single_use_genexps(t)
            ho.fuse_genexps(t)
            ho.yield_from_genexp(t)
            ho.bool_indexed_pairs(t)
            ho.genexp_for_loops(t)
            ho.deferred_job_list(t)
            ho.for_break_else(t)
            ho.search_loop_to_any(t)
            ho.first_match_loops(t)
            ho.dict_dispatch_calls(t)
            ho.unroll_constant_loops(t)
            ho.constant_getattr(t)
    ho.straight_generators(trees)
    for m, t in trees.items():
        if not (".tests" in m or m.endswith("tests")):
            _objects_to_closures(t)
            _text_accumulators(t)
            for _ in range(3):
                if not _helpers_to_closures(t, trees):
                    break
            _generators_to_procedures(t)
            _role_names(t)
            _unroll_table_loops(t)
            ho.beta_reduce(t)
            ho.constant_getattr(t)
            _departialize(t)
    inlined = False
    for stage in range(2):
        for _ in range(4):  # helpers calling helpers
            helpers = {m: _collect_helpers(t, m) for m, t in trees.items()}
            changed = False
            for m, t in trees.items():
                if ".tests" in m or m.endswith("tests"):
                    continue
                changed |= _inline_helpers(m, t, helpers, trees, pkgs)
            if not changed:
                break
            inlined = True
            _drop_dead_helpers(trees)  # a helper whose (now unused) nested closure is gone may itself be inlined in the next round
        if stage == 0:
            # a function chosen in an if-chain and called afterwards: the call is pushed into the branches (and the chosen helpers inlined there)
            for m, t in trees.items():
                if not (".tests" in m or m.endswith("tests")):
                    ho.first_match_loops(t)
                    ho.select_then_call(t)
    for t in trees.values():
        if inlined:
            _fold_constant_ifs(t)  # a flag parameter bound to True/False at the call site
    if inlined:
        _drop_dead_helpers(trees)
    _inline_private_tables(trees)
    ho.record_unpack(trees)
    for m, t in trees.items():
        if not (".tests" in m or m.endswith("tests")):
            ho.empty_yield_from(t)
            ho.inline_single_use_genexps(t)
            ho.genexp_for_loops(t)
            ho.double_negation(t)
            ho.split_tuple_assign(t)
            ho.iterator_aliases(t)
            ho.rename_apart(t)
            ho.copy_propagation(t)
            ho.nonneg_clamp(t)
            ho.fuse_comp_temps(t)
            ho.flag_loops(t)
            ho.inline_loop_iter_temps(t)
            ho.drop_dead_pure_stores(t)
            ho.tail_return_to_break(t)
            ho.hoist_next_in_tests(t)
            ho.loop_target_unpack(t)
            ho.unroll_constant_loops(t)
            ho.constant_getattr(t)
            ho.splice_starred_displays(t)
    for t in trees.values():
        _strip_casts(t)
        _try_keyerror(t)
        _chain_loops(t)
        _fold_sentinels(t)
        _scalarize_records(t)
        _while_true(t)
        _rotate_carried(t)
        _drain_loops(t)
        _clamp_idiom(t)
        _loop_built_lists(t)
        _next_sentinel(t)
        _return_temp(t)
        ast.fix_missing_locations(t)
        ho.distinct_loop_lines(t)


# ---------------------------------------------------------------------------

EXHAUSTED = "__EXHAUSTED__"


def _text_accumulators(tree: ast.Module) -> None:
    """chunks = [] ; chunks.append(s) / chunks.extend(it) ... ; "".join(chunks)      ==>      chunks = StringIO() ; chunks.write(s) /
    for x in it: chunks.write(x) ... ; chunks.getvalue()
    (a local list that is only appended / extended to and joined with the empty separator exactly once, at the end): the text is accumulated
    the way the rest of the package does it.  Needs StringIO to be importable by name in the module."""
    has_stringio = any(isinstance(st, ast.ImportFrom) and st.module == "io" and any(a.name == "StringIO" and a.asname is None for a in st.names) for st in tree.body)
    if not has_stringio:
        return
    for fn in [n for n in ast.walk(tree) if isinstance(n, ast.FunctionDef)]:
        own = list(_own_nodes(fn))
        parents: Dict[int, ast.AST] = {}
        for n in ast.walk(fn):
            for c in ast.iter_child_nodes(n):
                parents[id(c)] = n
        for st in list(fn.body):
            tgt = val = None
            if isinstance(st, ast.Assign) and len(st.targets) == 1 and isinstance(st.targets[0], ast.Name):
                tgt, val = st.targets[0].id, st.value
            elif isinstance(st, ast.AnnAssign) and isinstance(st.target, ast.Name) and st.value is not None:
                tgt, val = st.target.id, st.value
            if tgt is None or not (isinstance(val, ast.List) and not val.elts):
                continue
            if sum(1 for n in ast.walk(fn) if isinstance(n, ast.Name) and n.id == tgt and isinstance(n.ctx, (ast.Store, ast.Del))) != 1:
                continue
            uses = [n for n in ast.walk(fn) if isinstance(n, ast.Name) and n.id == tgt and isinstance(n.ctx, ast.Load)]
            appends, extends, joins = [], [], []
            ok = bool(uses)
            for u in uses:
                par = parents.get(id(u))
                g = parents.get(id(par)) if par is not None else None
                if isinstance(par, ast.Attribute) and par.value is u and par.attr in ("append", "extend") and isinstance(g, ast.Call) and g.func is par and len(g.args) == 1 and not g.keywords \
                        and isinstance(parents.get(id(g)), ast.Expr):
                    (appends if par.attr == "append" else extends).append((parents[id(g)], g))
                elif isinstance(par, ast.Call) and isinstance(par.func, ast.Attribute) and par.func.attr == "join" and isinstance(par.func.value, ast.Constant) and par.func.value.value == "" \
                        and par.args == [u] and not par.keywords:
                    joins.append(par)
                else:
                    ok = False
                    break
            if not ok or len(joins) != 1 or not (appends or extends):
                continue
            # the join must come after every append in program order: require it in a top-level statement of the function that follows all of them
            top_index = {}
            for i, x in enumerate(fn.body):
                for n in ast.walk(x):
                    top_index[id(n)] = i
            ji = top_index.get(id(joins[0]))
            if ji is None or any(top_index.get(id(g), 10 ** 9) >= ji for _, g in appends + extends):
                continue
            # rewrite
            new_val = ast.Call(func=ast.Name(id="StringIO", ctx=ast.Load()), args=[], keywords=[])
            ast.copy_location(new_val, val)
            if isinstance(st, ast.Assign):
                st.value = new_val
            else:
                idx = fn.body.index(st)
                fn.body[idx] = ast.copy_location(ast.Assign(targets=[ast.Name(id=tgt, ctx=ast.Store())], value=new_val), st)
            for stmt, g in appends:
                g.func.attr = "write"
            _counter[0] += 1
            k = 0
            for stmt, g in extends:
                k += 1
                x = f"_piece__inl{_counter[0]}_{k}"
                w = ast.Expr(value=ast.Call(func=ast.Attribute(value=ast.Name(id=tgt, ctx=ast.Load()), attr="write", ctx=ast.Load()), args=[ast.Name(id=x, ctx=ast.Load())], keywords=[]))
                loop = ast.For(target=ast.Name(id=x, ctx=ast.Store()), iter=g.args[0], body=[w], orelse=[], type_comment=None)
                ast.copy_location(loop, stmt)
                for n in ast.walk(loop):
                    if not hasattr(n, "lineno") and isinstance(n, (ast.stmt, ast.expr)):
                        ast.copy_location(n, stmt)
                # replace stmt in its block
                for holder in ast.walk(fn):
                    for fld in ("body", "orelse", "finalbody"):
                        blk = getattr(holder, fld, None)
                        if isinstance(blk, list):
                            for i, y in enumerate(blk):
                                if y is stmt:
                                    blk[i] = loop
            j = joins[0]
            j.func = ast.Attribute(value=ast.Name(id=tgt, ctx=ast.Load()), attr="getvalue", ctx=ast.Load())
            j.args = []
            ast.fix_missing_locations(fn)


def _generators_to_procedures(tree: ast.Module) -> None:
    """A nested generator function g whose every use is `for x in g(..): W.write(x)` with the same plain name W (a local of the enclosing
    function) becomes a procedure that writes: `yield E` -> `W.write(E)`, the consuming loops -> `g(..)`.  Each value is written as soon as it is
    produced either way, and the loops run to exhaustion."""
    for fn in [n for n in ast.walk(tree) if isinstance(n, ast.FunctionDef)]:
        for g in [x for x in fn.body if isinstance(x, ast.FunctionDef)]:
            own = list(_own_nodes(g))
            ys = [n for n in own if isinstance(n, ast.Yield)]
            if not ys or any(isinstance(n, (ast.YieldFrom, ast.Return)) for n in own) or g.decorator_list:
                continue
            ystm = [n for n in own if isinstance(n, ast.Expr) and isinstance(n.value, ast.Yield) and n.value.value is not None]
            if len(ys) != len(ystm):
                continue
            parents: Dict[int, ast.AST] = {}
            for n in ast.walk(fn):
                for c in ast.iter_child_nodes(n):
                    parents[id(c)] = n
            refs = [n for n in ast.walk(fn) if isinstance(n, ast.Name) and n.id == g.name and isinstance(n.ctx, ast.Load)]
            loops = []
            writer = None
            ok = bool(refs)
            for r in refs:
                call = parents.get(id(r))
                loop = parents.get(id(call)) if call is not None else None
                if not (isinstance(call, ast.Call) and call.func is r and isinstance(loop, ast.For) and loop.iter is call and not loop.orelse and isinstance(loop.target, ast.Name)
                        and len(loop.body) == 1 and isinstance(loop.body[0], ast.Expr) and isinstance(loop.body[0].value, ast.Call)):
                    ok = False
                    break
                w = loop.body[0].value
                if not (isinstance(w.func, ast.Attribute) and w.func.attr == "write" and isinstance(w.func.value, ast.Name) and len(w.args) == 1 and not w.keywords
                        and isinstance(w.args[0], ast.Name) and w.args[0].id == loop.target.id):
                    ok = False
                    break
                if writer is None:
                    writer = w.func.value.id
                elif writer != w.func.value.id:
                    ok = False
                    break
                # a loop inside g itself would be recursion
                x = loop
                inside_g = False
                while id(x) in parents:
                    x = parents[id(x)]
                    if x is g:
                        inside_g = True
                if inside_g:
                    ok = False
                    break
                loops.append((loop, call))
            if not ok or writer is None or writer in _params_of(g) or writer in _locals_of(g):
                continue
            for y in ystm:
                y.value = ast.copy_location(ast.Call(func=ast.Attribute(value=ast.Name(id=writer, ctx=ast.Load()), attr="write", ctx=ast.Load()), args=[y.value.value], keywords=[]), y.value)
            for loop, call in loops:
                stmt = ast.copy_location(ast.Expr(value=call), loop)
                for holder in ast.walk(fn):
                    for fld in ("body", "orelse", "finalbody"):
                        blk = getattr(holder, fld, None)
                        if isinstance(blk, list):
                            for i, x in enumerate(blk):
                                if x is loop:
                                    blk[i] = stmt
            ast.fix_missing_locations(fn)


def _departialize(tree: ast.Module) -> None:
    """p = functools.partial(F, a, k=v) ; ... p(x, y) ...   ==>   p__0 = a ; p__k = v ; ... F(p__0, x, y, k=p__k) ...
    (p bound once, used only as the callee of calls that do not repeat one of the bound keywords): the bound arguments are still evaluated once,
    where the partial was created."""
    partial_names = set()
    for st in tree.body:
        if isinstance(st, ast.ImportFrom) and st.module == "functools":
            for a in st.names:
                if a.name == "partial":
                    partial_names.add(a.asname or "partial")
    for fn in [n for n in ast.walk(tree) if isinstance(n, ast.FunctionDef)]:
        own = list(_own_nodes(fn))
        stores: Dict[str, int] = {}
        for n in ast.walk(fn):
            if isinstance(n, ast.Name) and isinstance(n.ctx, (ast.Store, ast.Del)):
                stores[n.id] = stores.get(n.id, 0) + 1
        parents: Dict[int, ast.AST] = {}
        for n in ast.walk(fn):
            for c in ast.iter_child_nodes(n):
                parents[id(c)] = n
        for holder in ast.walk(fn):
            for fld in ("body", "orelse", "finalbody"):
                body = getattr(holder, fld, None)
                if not (isinstance(body, list) and body and isinstance(body[0], ast.stmt)):
                    continue
                i = 0
                while i < len(body):
                    st = body[i]
                    i += 1
                    if not (isinstance(st, ast.Assign) and len(st.targets) == 1 and isinstance(st.targets[0], ast.Name) and isinstance(st.value, ast.Call)):
                        continue
                    f = st.value.func
                    is_partial = (isinstance(f, ast.Name) and f.id in partial_names) or (isinstance(f, ast.Attribute) and f.attr == "partial" and isinstance(f.value, ast.Name) and f.value.id == "functools")
                    if not is_partial or not st.value.args or any(isinstance(a, ast.Starred) for a in st.value.args) or any(k.arg is None for k in st.value.keywords):
                        continue
                    p = st.targets[0].id
                    if stores.get(p, 0) != 1 or p in _params_of(fn) or not isinstance(st.value.args[0], (ast.Name, ast.Attribute)):
                        continue
                    uses = [n for n in ast.walk(fn) if isinstance(n, ast.Name) and n.id == p and isinstance(n.ctx, ast.Load)]
                    calls_ = []
                    ok = bool(uses)
                    bound_kw = {k.arg for k in st.value.keywords}
                    for u in uses:
                        par = parents.get(id(u))
                        if not (isinstance(par, ast.Call) and par.func is u) or any(isinstance(a, ast.Starred) for a in par.args) or any(k.arg is None or k.arg in bound_kw for k in par.keywords):
                            ok = False
                            break
                        calls_.append(par)
                    if not ok:
                        continue
                    pre: List[ast.stmt] = []
                    pos: List[ast.expr] = []
                    kws: List[ast.keyword] = []
                    for j, a in enumerate(st.value.args[1:]):
                        if _simple(a) and not (isinstance(a, ast.Name) and stores.get(a.id, 0) > 1):
                            pos.append(a)
                        else:
                            tmp = f"{p}__{j}"
                            pre.append(ast.copy_location(ast.Assign(targets=[ast.Name(id=tmp, ctx=ast.Store())], value=a), st))
                            pos.append(ast.Name(id=tmp, ctx=ast.Load()))
                    for k in st.value.keywords:
                        if _simple(k.value) and not (isinstance(k.value, ast.Name) and stores.get(k.value.id, 0) > 1):
                            kws.append(ast.keyword(arg=k.arg, value=k.value))
                        else:
                            tmp = f"{p}__{k.arg}"
                            pre.append(ast.copy_location(ast.Assign(targets=[ast.Name(id=tmp, ctx=ast.Store())], value=k.value), st))
                            kws.append(ast.keyword(arg=k.arg, value=ast.Name(id=tmp, ctx=ast.Load())))
                    for c in calls_:
                        c.func = copy.deepcopy(st.value.args[0])
                        c.args = [copy.deepcopy(x) for x in pos] + list(c.args)
                        c.keywords = [copy.deepcopy(x) for x in kws] + list(c.keywords)
                    for x in pre:
                        ast.fix_missing_locations(x)
                    body[i - 1:i] = pre or [ast.copy_location(ast.Pass(), st)]
                    i += len(pre) - 1 if pre else 0
                    ast.fix_missing_locations(fn)


def _unroll_table_loops(tree: ast.Module) -> None:
    """for a, b, c in _TABLE: BODY   with _TABLE a private module-level tuple of a few tuples of names / constants (a dispatch table of classes,
    functions, strings), no break / else in the loop, the targets not re-assigned: one copy of BODY per row with the row's entries substituted,
    each copy in a Once block where `continue` is `break`.  The table-driven loop is then the if-chain it stands for."""
    tables: Dict[str, ast.AST] = {}
    counts: Dict[str, int] = {}
    for st in tree.body:
        if isinstance(st, ast.Assign) and len(st.targets) == 1 and isinstance(st.targets[0], ast.Name):
            nm, val = st.targets[0].id, st.value
        elif isinstance(st, ast.AnnAssign) and isinstance(st.target, ast.Name) and st.value is not None:
            nm, val = st.target.id, st.value
        else:
            continue
        counts[nm] = counts.get(nm, 0) + 1
        if nm.startswith("_") and not nm.startswith("__") and isinstance(val, ast.Tuple) and 1 <= len(val.elts) <= 6:
            rows = val.elts
            if all(isinstance(r, ast.Tuple) and r.elts and all(isinstance(x, (ast.Name, ast.Constant, ast.Attribute, ast.Lambda)) for x in r.elts) for r in rows) and len({len(r.elts) for r in rows}) == 1:
                tables[nm] = val
    tables = {k: v for k, v in tables.items() if counts.get(k) == 1}
    # tables that are locals of a function (bound once at its top level, possibly read by a closure of that function)
    for fn0 in [n for n in ast.walk(tree) if isinstance(n, ast.FunctionDef)]:
        for st in fn0.body:
            if isinstance(st, ast.Assign) and len(st.targets) == 1 and isinstance(st.targets[0], ast.Name):
                nm, val = st.targets[0].id, st.value
            elif isinstance(st, ast.AnnAssign) and isinstance(st.target, ast.Name) and st.value is not None:
                nm, val = st.target.id, st.value
            else:
                continue
            if nm in tables or not (isinstance(val, ast.Tuple) and 1 <= len(val.elts) <= 6):
                continue
            rows = val.elts
            if not (all(isinstance(r, ast.Tuple) and r.elts and all(isinstance(x, (ast.Name, ast.Constant, ast.Attribute, ast.Lambda)) for x in r.elts) for r in rows) and len({len(r.elts) for r in rows}) == 1):
                continue
            if sum(1 for n in ast.walk(tree) if isinstance(n, ast.Name) and n.id == nm and isinstance(n.ctx, (ast.Store, ast.Del))) != 1:
                continue
            # the names in the table must mean the same thing where the loop is: nested functions / never re-bound names of fn0
            names_in = {x.id for r in rows for x in r.elts if isinstance(x, ast.Name)}
            rebound = {n.id for n in ast.walk(fn0) if isinstance(n, ast.Name) and isinstance(n.ctx, (ast.Store, ast.Del)) and n.id in names_in}
            if rebound:
                continue
            tables[nm] = val
    # the table must be used only as the iterable of such loops
    uses: Dict[str, int] = {}
    for n in ast.walk(tree):
        if isinstance(n, ast.Name) and n.id in tables and isinstance(n.ctx, ast.Load):
            uses[n.id] = uses.get(n.id, 0) + 1

    def continues_to_breaks(stmts: List[ast.stmt]) -> Optional[List[ast.stmt]]:
        out = []
        for x in stmts:
            if isinstance(x, ast.Continue):
                b_ = ast.copy_location(ast.Break(), x)
                b_._once_exit = True
                out.append(b_)
                continue
            if isinstance(x, ast.Break):
                return None
            if isinstance(x, (ast.For, ast.AsyncFor, ast.While)):
                if any(isinstance(n, (ast.Break, ast.Continue)) for y in x.orelse for n in ast.walk(y)):
                    return None
                out.append(x)
                continue
            if isinstance(x, (ast.FunctionDef, ast.AsyncFunctionDef, ast.ClassDef)) or isinstance(x, Once):
                if isinstance(x, Once):
                    return None
                out.append(x)
                continue
            new = copy.copy(x)
            for fld in ("body", "orelse", "finalbody"):
                sub = getattr(x, fld, None)
                if isinstance(sub, list) and sub and isinstance(sub[0], ast.stmt):
                    r = continues_to_breaks(sub)
                    if r is None:
                        return None
                    setattr(new, fld, r)
            if getattr(x, "handlers", None):
                hs = []
                for h in x.handlers:
                    r = continues_to_breaks(h.body)
                    if r is None:
                        return None
                    h2 = copy.copy(h)
                    h2.body = r
                    hs.append(h2)
                new.handlers = hs
            out.append(new)
        return out

    for fn in [n for n in ast.walk(tree) if isinstance(n, ast.FunctionDef)]:
        for holder in ast.walk(fn):
            for fld in ("body", "orelse", "finalbody"):
                body = getattr(holder, fld, None)
                if not (isinstance(body, list) and body and isinstance(body[0], ast.stmt)):
                    continue
                new_body: List[ast.stmt] = []
                changed = False
                for st in body:
                    literal_rows = None
                    if isinstance(st, ast.For) and isinstance(st.iter, (ast.Tuple, ast.List)) and 1 <= len(st.iter.elts) <= 6 and all(
                            isinstance(r, ast.Tuple) and r.elts and all(isinstance(x, (ast.Name, ast.Constant, ast.Attribute, ast.Lambda)) for x in r.elts) for r in st.iter.elts) \
                            and len({len(r.elts) for r in st.iter.elts}) == 1:
                        # the table is written in the loop header itself; attribute reads in it are read once per row either way
                        literal_rows = st.iter.elts
                    if not (isinstance(st, ast.For) and ((isinstance(st.iter, ast.Name) and st.iter.id in tables and uses.get(st.iter.id) == 1) or literal_rows is not None) and not st.orelse
                            and isinstance(st.target, ast.Tuple) and all(isinstance(x, ast.Name) for x in st.target.elts)):
                        new_body.append(st)
                        continue
                    rows = literal_rows if literal_rows is not None else tables[st.iter.id].elts
                    tnames = [x.id for x in st.target.elts]
                    if len(tnames) != len(rows[0].elts) or any(isinstance(n, ast.Name) and n.id in tnames and isinstance(n.ctx, (ast.Store, ast.Del)) for x in st.body for n in ast.walk(x)):
                        new_body.append(st)
                        continue
                    # the loop variables must not be read after the loop
                    conv = continues_to_breaks(st.body)
                    if conv is None:
                        new_body.append(st)
                        continue
                    for r in rows:
                        mapping = dict(zip(tnames, r.elts))
                        blk = [_Subst(mapping, {}).visit(copy.deepcopy(x)) for x in conv]
                        o = Once(body=blk or [ast.Pass()])
                        ast.copy_location(o, st)
                        for x in ast.walk(o):
                            if isinstance(x, (ast.stmt, ast.expr)) and not hasattr(x, "lineno"):
                                ast.copy_location(x, st)
                        new_body.append(o)
                    changed = True
                if changed:
                    setattr(holder, fld, new_body)


ROLE_ANCHORS = [
    # (enclosing function, anchor name the rules use, what identifies the nested function that plays the role)
    ("from_notes", "push_measure", "groupby-over-own-parameter"),
]


def _role_names(tree: ast.Module) -> None:
    """A nested function that plays the part of an anchored closure under another name gets the anchor's name (rules address it by name)."""
    for fn in [n for n in ast.walk(tree) if isinstance(n, ast.FunctionDef)]:
        for outer, anchor, role in ROLE_ANCHORS:
            if fn.name != outer:
                continue
            nested = [x for x in fn.body if isinstance(x, ast.FunctionDef)]
            if any(x.name == anchor for x in nested):
                continue
            names = {n.id for n in ast.walk(fn) if isinstance(n, ast.Name)} | {a.arg for a in ast.walk(fn) if isinstance(a, ast.arg)}
            if anchor in names:
                continue
            cands = []
            for x in nested:
                ps = set(_params_of(x))
                if role == "groupby-over-own-parameter" and any(
                        isinstance(n, ast.For) and isinstance(n.iter, ast.Call) and ast.unparse(n.iter.func) in ("groupby", "itertools.groupby") and n.iter.args
                        and isinstance(n.iter.args[0], ast.Name) and n.iter.args[0].id in ps for n in _own_nodes(x)):
                    cands.append(x)
            if len(cands) != 1:
                continue
            old = cands[0].name
            cands[0].name = anchor
            for n in ast.walk(fn):
                if isinstance(n, ast.Name) and n.id == old:
                    n.id = anchor


def _helpers_to_closures(tree: ast.Module, trees: Dict[str, ast.Module]) -> bool:
    """A private module-level function that is used only inside one function F of its module, and whose leading parameters receive the same
    never-reassigned local / parameter of F at every call, becomes a nested function of F over those names (the inverse of lifting a closure
    to module level).  Nothing else can call it, so nothing else can observe the move."""
    changed = False
    top_funcs = {st.name: st for st in tree.body if isinstance(st, ast.FunctionDef)}
    for name, h in list(top_funcs.items()):
        if not name.startswith("_") or name.startswith("__") or name in anchors() or h.decorator_list or h.args.vararg or h.args.kwarg or h.args.kwonlyargs or h.args.posonlyargs:
            continue
        if any(isinstance(n, (ast.Global, ast.Nonlocal, ast.Yield, ast.YieldFrom, ast.Await)) for n in ast.walk(h)) and any(isinstance(n, (ast.Global, ast.Nonlocal)) for n in ast.walk(h)):
            continue
        # imported elsewhere?
        used_elsewhere = False
        for t in trees.values():
            if t is tree:
                continue
            for n in ast.walk(t):
                if isinstance(n, ast.ImportFrom) and any(a.name == name for a in n.names):
                    used_elsewhere = True
                if isinstance(n, ast.Attribute) and n.attr == name:
                    used_elsewhere = True
        if used_elsewhere:
            continue
        # every reference is the callee of a call, all inside one outermost function (or method) F
        parents: Dict[int, ast.AST] = {}
        for n in ast.walk(tree):
            for c in ast.iter_child_nodes(n):
                parents[id(c)] = n
        refs = [n for n in ast.walk(tree) if isinstance(n, ast.Name) and n.id == name and isinstance(n.ctx, ast.Load)]
        if not refs or any(isinstance(n, ast.Constant) and n.value == name for n in ast.walk(tree)):
            continue
        calls_: List[ast.Call] = []
        outers = set()
        ok = True
        for r in refs:
            par = parents.get(id(r))
            if not (isinstance(par, ast.Call) and par.func is r):
                ok = False
                break
            calls_.append(par)
            x = r
            outer = None
            while id(x) in parents:
                x = parents[id(x)]
                if isinstance(x, ast.FunctionDef):
                    outer = x
            if outer is None or outer is h:
                ok = False
                break
            outers.add(id(outer))
            F = outer
        if not ok or len(outers) != 1:
            continue
        if any(isinstance(a, ast.Starred) for c in calls_ for a in c.args) or any(k.arg is None for c in calls_ for k in c.keywords):
            continue
        params = [a.arg for a in h.args.args]
        f_names_stores: Dict[str, int] = {}
        for n in ast.walk(F):
            if isinstance(n, ast.Name) and isinstance(n.ctx, (ast.Store, ast.Del)):
                f_names_stores[n.id] = f_names_stores.get(n.id, 0) + 1
        f_params = set(_params_of(F))
        h_stores = {n.id for n in ast.walk(h) if isinstance(n, ast.Name) and isinstance(n.ctx, (ast.Store, ast.Del))}
        h_locals = _locals_of(h)
        captured: Dict[str, str] = {}
        for i, q in enumerate(params):
            args = []
            for c in calls_:
                a = c.args[i] if i < len(c.args) else next((k.value for k in c.keywords if k.arg == q), None)
                args.append(a)
            if any(a is None or not isinstance(a, ast.Name) for a in args) or len({a.id for a in args}) != 1:
                continue
            nm = args[0].id
            # the name means the same object at every call: a parameter of F that is never re-bound, or a local bound once at F's top level
            same = (nm in f_params and f_names_stores.get(nm, 0) == 0) or (nm not in f_params and f_names_stores.get(nm, 0) == 1 and any(
                isinstance(st, (ast.Assign, ast.AnnAssign)) and any(isinstance(t, ast.Name) and t.id == nm for t in (st.targets if isinstance(st, ast.Assign) else [st.target])) for st in F.body))
            if not same or q in h_stores or (nm != q and nm in (h_locals | set(params))):
                continue
            shadowed = False
            for c in calls_:
                x = c
                while id(x) in parents:
                    x = parents[id(x)]
                    if isinstance(x, ast.FunctionDef) and x is not F:
                        if nm in _params_of(x) or nm in _locals_of(x):
                            shadowed = True
                    if x is F:
                        break
            if shadowed:
                continue
            captured[q] = nm
        if not captured:
            continue
        idxs = sorted(params.index(q) for q in captured)
        # defaults: right-aligned to the parameters; after removal the parameters with defaults must still be a suffix
        ndef = len(h.args.defaults)
        defaults_of = {params[len(params) - ndef + j]: h.args.defaults[j] for j in range(ndef)}
        remaining = [q for q in params if q not in captured]
        flags = [q in defaults_of for q in remaining]
        if any(flags[j] and not flags[j + 1] for j in range(len(flags) - 1)):
            continue
        # where to put it: before the first top-level statement of F that mentions the helper, after the captured locals are bound
        first_use = next((i for i, st in enumerate(F.body) if any(isinstance(n, ast.Name) and n.id == name for n in ast.walk(st))), None)
        if first_use is None:
            continue
        bound_at = 0
        for nm in captured.values():
            if nm in f_params:
                continue
            idx = next((i for i, st in enumerate(F.body) if isinstance(st, (ast.Assign, ast.AnnAssign)) and any(isinstance(t, ast.Name) and t.id == nm for t in (st.targets if isinstance(st, ast.Assign) else [st.target]))), None)
            if idx is None:
                bound_at = None
                break
            bound_at = max(bound_at, idx + 1)
        if bound_at is None or bound_at > first_use:
            continue
        if name in f_params or f_names_stores.get(name, 0):
            continue
        nh = copy.deepcopy(h)
        nh.args.args = [a for a in nh.args.args if a.arg not in captured]
        nh.args.defaults = [copy.deepcopy(defaults_of[q]) for q in remaining if q in defaults_of]
        ren = {q: nm for q, nm in captured.items() if q != nm}
        if ren:
            for n in ast.walk(nh):
                if isinstance(n, ast.Name) and n.id in ren:
                    n.id = ren[n.id]
        for c in calls_:
            c.args = [a for i, a in enumerate(c.args) if i not in idxs]
            c.keywords = [kw for kw in c.keywords if kw.arg not in captured]
        F.body.insert(first_use, nh)
        tree.body.remove(h)
        ast.fix_missing_locations(F)
        changed = True
    return changed


def _is_ctor_or_annotation(n: ast.Name, top: ast.stmt, cname: str, tree: ast.Module) -> bool:
    """The class name used as the callee of a call, or inside an annotation (not evaluated in a way that matters)."""
    for x in ast.walk(top):
        if isinstance(x, ast.Call) and x.func is n:
            return True
        if isinstance(x, (ast.arg, ast.AnnAssign)) and x.annotation is not None and any(y is n for y in ast.walk(x.annotation)):
            return True
        if isinstance(x, ast.FunctionDef) and x.returns is not None and any(y is n for y in ast.walk(x.returns)):
            return True
    return False


def _objects_to_closures(tree: ast.Module) -> None:
    """w = _C(args) where _C is a small private class of the module (plain methods, an __init__ that only stores fields, fields never re-assigned
    by the methods) and w is used only as `w.m(...)` / `w.field` inside one function: the fields become locals of that function and the methods
    nested functions over them (`self.f` -> the local, `self.m(..)` -> `m(..)`, `w.m(..)` -> `m(..)`).  The object never escapes, so nothing else can
    observe the difference."""
    classes: Dict[str, ast.ClassDef] = {}
    for st in tree.body:
        if isinstance(st, ast.ClassDef) and st.name.startswith("_") and not st.name.startswith("__") and st.name not in anchors() and not st.decorator_list and not st.keywords \
                and all(isinstance(b, ast.Name) and b.id == "object" for b in st.bases) and not any(
                    isinstance(n, ast.Name) and n.id == st.name for x in tree.body if x is not st for n in ast.walk(x) if not _is_ctor_or_annotation(n, x, st.name, tree)):
            members = [x for x in st.body if not (isinstance(x, ast.Expr) and isinstance(x.value, ast.Constant))
                       and not (isinstance(x, ast.Assign) and len(x.targets) == 1 and isinstance(x.targets[0], ast.Name) and x.targets[0].id == "__slots__")]
            if members and all(isinstance(x, ast.FunctionDef) and not x.decorator_list and x.args.args and not x.args.vararg and not x.args.kwarg for x in members) \
                    and all(x.name == "__init__" or not (x.name.startswith("__") and x.name.endswith("__")) for x in members):
                classes[st.name] = st
    if not classes:
        return
    info: Dict[str, Any] = {}
    for cname, cd in classes.items():
        methods = {x.name: x for x in cd.body if isinstance(x, ast.FunctionDef)}
        init = methods.get("__init__")
        fields: List[Tuple[str, ast.expr]] = []
        ok = True
        general_init = False
        if init is not None:
            sn = init.args.args[0].arg
            for x in _doc_stripped(init.body):
                if isinstance(x, ast.AnnAssign) and x.value is not None:
                    tgt, val = x.target, x.value
                elif isinstance(x, ast.Assign) and len(x.targets) == 1:
                    tgt, val = x.targets[0], x.value
                else:
                    general_init = True
                    break
                if not (isinstance(tgt, ast.Attribute) and isinstance(tgt.value, ast.Name) and tgt.value.id == sn) or any(isinstance(n, ast.Name) and n.id == sn for n in ast.walk(val)):
                    general_init = True
                    break
                fields.append((tgt.attr, val))
            if general_init:
                # any __init__ that uses self only as self.<x>, returns nothing and defines nothing: its body is spliced where the object is
                # created, every self.<field> a local
                fields = []
                seen_f: List[str] = []
                pars = {}
                for n in ast.walk(init):
                    for c in ast.iter_child_nodes(n):
                        pars[id(c)] = n
                for n in ast.walk(init):
                    if isinstance(n, ast.Name) and n.id == sn and not isinstance(pars.get(id(n)), ast.Attribute):
                        ok = False
                    if isinstance(n, (ast.Return, ast.Yield, ast.YieldFrom, ast.FunctionDef, ast.Lambda, ast.ClassDef, ast.Nonlocal, ast.Global)) and n is not init:
                        ok = False
                    if isinstance(n, ast.Attribute) and isinstance(n.value, ast.Name) and n.value.id == sn and isinstance(n.ctx, ast.Store) and n.attr not in seen_f:
                        seen_f.append(n.attr)
                fields = [(f_, None) for f_ in seen_f]
            if init.args.defaults or init.args.kwonlyargs:
                ok = False
        fnames = [f for f, _ in fields]
        if len(set(fnames)) != len(fnames):
            ok = False
        for mname, m in methods.items():
            if mname == "__init__" or not ok:
                continue
            sn = m.args.args[0].arg
            for n in ast.walk(m):
                if isinstance(n, ast.Name) and n.id == sn:
                    pass
                if isinstance(n, ast.Attribute) and isinstance(n.value, ast.Name) and n.value.id == sn:
                    if isinstance(n.ctx, ast.Del) or (n.attr not in fnames and n.attr not in methods) or (isinstance(n.ctx, ast.Store) and n.attr not in fnames):
                        ok = False
                if isinstance(n, (ast.Nonlocal, ast.Global, ast.Yield, ast.YieldFrom, ast.Await, ast.FunctionDef)) and n is not m:
                    if isinstance(n, (ast.Nonlocal, ast.Global)):
                        ok = False
            # self used other than as self.<x>
            parents = {}
            for n in ast.walk(m):
                for c in ast.iter_child_nodes(n):
                    parents[id(c)] = n
            for n in ast.walk(m):
                if isinstance(n, ast.Name) and n.id == sn and not isinstance(parents.get(id(n)), ast.Attribute):
                    ok = False
        if ok:
            info[cname] = (init, fields, methods, general_init)
    if not info:
        return
    # the class may only be instantiated (its name appears nowhere else: no isinstance, no annotation that matters at run time is affected)
    for fn in [n for n in ast.walk(tree) if isinstance(n, ast.FunctionDef)]:
        own = list(_own_nodes(fn))
        for st_holder in [fn] + [n for n in own if hasattr(n, "body") and isinstance(getattr(n, "body"), list)]:
            pass
        blocks: List[Tuple[List[ast.stmt], int, ast.stmt]] = []

        def find(stmts):
            for i, st in enumerate(stmts):
                blocks.append((stmts, i, st))
                if isinstance(st, (ast.FunctionDef, ast.AsyncFunctionDef, ast.ClassDef)):
                    continue
                for fld in ("body", "orelse", "finalbody"):
                    sub = getattr(st, fld, None)
                    if isinstance(sub, list) and sub and isinstance(sub[0], ast.stmt):
                        find(sub)
                for hd in getattr(st, "handlers", []):
                    find(hd.body)

        find(fn.body)
        for block, i, st in blocks:
            if not (isinstance(st, ast.Assign) and len(st.targets) == 1 and isinstance(st.targets[0], ast.Name) and isinstance(st.value, ast.Call) and isinstance(st.value.func, ast.Name)
                    and st.value.func.id in info and block is fn.body):
                continue
            w = st.targets[0].id
            init, fields, methods, general_init = info[st.value.func.id]
            all_names = {n.id for n in ast.walk(fn) if isinstance(n, ast.Name)} | {a.arg for a in ast.walk(fn) if isinstance(a, ast.arg)}
            stores = sum(1 for n in ast.walk(fn) if isinstance(n, ast.Name) and n.id == w and isinstance(n.ctx, (ast.Store, ast.Del)))
            if stores != 1 or w in _params_of(fn):
                continue
            parents: Dict[int, ast.AST] = {}
            for n in ast.walk(fn):
                for c in ast.iter_child_nodes(n):
                    parents[id(c)] = n
            uses = [n for n in ast.walk(fn) if isinstance(n, ast.Name) and n.id == w and isinstance(n.ctx, ast.Load)]
            fnames = [f for f, _ in fields]
            good = True
            for u in uses:
                par = parents.get(id(u))
                if not (isinstance(par, ast.Attribute) and par.value is u and isinstance(par.ctx, ast.Load)):
                    good = False
                    break
                if par.attr in methods and par.attr != "__init__":
                    pass  # called, or handed on as a function value: the nested function either way
                elif par.attr not in fnames:
                    good = False
                    break
            if not good:
                continue
            # bind __init__'s parameters
            call = st.value
            if any(isinstance(a, ast.Starred) for a in call.args) or any(k.arg is None for k in call.keywords):
                continue
            iparams = [a.arg for a in init.args.args[1:]] if init is not None else []
            if len(call.args) > len(iparams):
                continue
            bound: Dict[str, ast.expr] = dict(zip(iparams, call.args))
            for k in call.keywords:
                bound[k.arg] = k.value
            if set(bound) != set(iparams):
                continue
            pre: List[ast.stmt] = []
            pmap: Dict[str, ast.expr] = {}
            for q, a in bound.items():
                if isinstance(a, ast.Constant) or (isinstance(a, ast.Name) and a.id in _params_of(fn) and not any(isinstance(n, ast.Name) and n.id == a.id and isinstance(n.ctx, ast.Store) for n in ast.walk(fn))):
                    pmap[q] = a
                else:
                    tmp = f"{w}_{q}"
                    if tmp in all_names:
                        good = False
                    pre.append(ast.copy_location(ast.Assign(targets=[ast.Name(id=tmp, ctx=ast.Store())], value=a), st))
                    pmap[q] = ast.Name(id=tmp, ctx=ast.Load())
            fmap: Dict[str, ast.expr] = {}
            if general_init:
                for f_, _v in fields:
                    loc = f"{w}_{f_.lstrip('_')}"
                    if loc in all_names:
                        good = False
                    fmap[f_] = ast.Name(id=loc, ctx=ast.Load())
            for f_, val in ([] if general_init else fields):
                v2 = _Subst(pmap, {}).visit(copy.deepcopy(val))
                if isinstance(v2, ast.Constant) or (isinstance(v2, ast.Name) and v2.id in _params_of(fn)):
                    fmap[f_] = v2  # the field is the caller's own (never re-assigned) value
                else:
                    loc = f"{w}_{f_.lstrip('_')}"
                    if loc in all_names:
                        good = False
                    pre.append(ast.copy_location(ast.Assign(targets=[ast.Name(id=loc, ctx=ast.Store())], value=v2), st))
                    fmap[f_] = ast.Name(id=loc, ctx=ast.Load())
            mnames: Dict[str, str] = {}
            for mname in methods:
                if mname == "__init__":
                    continue
                nn = mname if mname not in all_names and mname not in _BUILTINS else f"{w}_{mname}"
                if nn in all_names:
                    good = False
                mnames[mname] = nn
            if not good:
                continue
            defs: List[ast.stmt] = []
            init_body: List[ast.stmt] = []
            for mname, m in methods.items():
                if mname == "__init__" and not general_init:
                    continue
                sn = m.args.args[0].arg
                nf = copy.deepcopy(m)
                nf.name = mnames.get(mname, mname)
                nf.args.args = nf.args.args[1:]

                class S(ast.NodeTransformer):
                    def visit_Attribute(self, node: ast.Attribute):
                        if isinstance(node.value, ast.Name) and node.value.id == sn:
                            if node.attr in fmap:
                                new_ = copy.deepcopy(fmap[node.attr])
                                if isinstance(new_, ast.Name):
                                    new_.ctx = type(node.ctx)()
                                return ast.copy_location(new_, node)
                            if node.attr in mnames:
                                return ast.copy_location(ast.Name(id=mnames[node.attr], ctx=ast.Load()), node)
                        return self.generic_visit(node)

                stored_fields = sorted({fmap[n.attr].id for n in ast.walk(nf) if isinstance(n, ast.Attribute) and isinstance(n.value, ast.Name) and n.value.id == sn
                                        and isinstance(n.ctx, ast.Store) and n.attr in fmap and isinstance(fmap[n.attr], ast.Name)})
                if any(isinstance(n, ast.Attribute) and isinstance(n.value, ast.Name) and n.value.id == sn and isinstance(n.ctx, ast.Store) and not isinstance(fmap.get(n.attr), ast.Name) for n in ast.walk(nf)):
                    good = False
                S().visit(nf)
                if mname == "__init__":
                    # spliced: parameters replaced by the constructor's arguments
                    loc_i = _locals_of(nf) - {v.id for v in fmap.values() if isinstance(v, ast.Name)}
                    if loc_i & all_names:
                        good = False
                    init_body = [_Subst(pmap, {}).visit(x) for x in _doc_stripped(nf.body)]
                    continue
                if stored_fields:
                    nf.body.insert(0, ast.Nonlocal(names=stored_fields))
                # the method's own locals must not shadow the field locals / sibling names
                loc_m = _locals_of(nf) | set(_params_of(nf))
                if loc_m & ({v.id for v in fmap.values() if isinstance(v, ast.Name)} | set(mnames.values())):
                    good = False
                defs.append(nf)
            if not good:
                continue

            class U(ast.NodeTransformer):
                def visit_Attribute(self, node: ast.Attribute):
                    if isinstance(node.value, ast.Name) and node.value.id == w and isinstance(node.ctx, ast.Load):
                        if node.attr in mnames:
                            return ast.copy_location(ast.Name(id=mnames[node.attr], ctx=ast.Load()), node)
                        if node.attr in fmap:
                            return ast.copy_location(copy.deepcopy(fmap[node.attr]), node)
                    return self.generic_visit(node)

            for j in range(len(block)):
                if j != i:
                    block[j] = U().visit(block[j])
            # the methods are defined before __init__'s body runs (it may hand them on as values)
            block[i:i + 1] = pre + defs + init_body
            for x in pre + defs + init_body:
                for y in ast.walk(x):
                    if isinstance(y, (ast.stmt, ast.expr)) and not hasattr(y, "lineno"):
                        ast.copy_location(y, st)
                ast.fix_missing_locations(x)
            break  # one object per function is enough; blocks are stale now


def _strip_casts(tree: ast.Module) -> None:
    """typing.cast(T, x) is x."""
    names = set()
    for st in tree.body:
        if isinstance(st, ast.ImportFrom) and st.module == "typing":
            for a in st.names:
                if a.name == "cast":
                    names.add(a.asname or "cast")

    class T(ast.NodeTransformer):
        def visit_Call(self, node: ast.Call):
            self.generic_visit(node)
            f = node.func
            if len(node.args) == 2 and not node.keywords and ((isinstance(f, ast.Name) and f.id in names) or (isinstance(f, ast.Attribute) and f.attr == "cast" and isinstance(f.value, ast.Name) and f.value.id == "typing")):
                return node.args[1]
            return node

    T().visit(tree)


def _fold_sentinels(tree: ast.Module) -> None:
    """With S a private module-level `object()` sentinel: `S is S` is True; `x is S` is False when x is a loop variable or a parameter that is
    never assigned (it holds an element / an argument, and nobody outside the module has S).  Boolean operators with a constant operand are
    simplified accordingly."""
    sent = set()
    for st in tree.body:
        if isinstance(st, ast.Assign) and len(st.targets) == 1 and isinstance(st.targets[0], ast.Name) and st.targets[0].id.startswith("_") and isinstance(st.value, ast.Call) \
                and ast.unparse(st.value) == "object()":
            sent.add(st.targets[0].id)
    if not sent:
        return
    for fn in [n for n in ast.walk(tree) if isinstance(n, ast.FunctionDef)]:
        assigned = set()
        loopvars = set()
        for n in _own_nodes(fn):
            if isinstance(n, (ast.For, ast.comprehension)):
                loopvars |= {x.id for x in ast.walk(n.target) if isinstance(x, ast.Name)}
            elif isinstance(n, (ast.Assign, ast.AnnAssign, ast.AugAssign, ast.NamedExpr)):
                tg = n.targets if isinstance(n, ast.Assign) else [n.target]
                for t in tg:
                    assigned |= {x.id for x in ast.walk(t) if isinstance(x, ast.Name)}
        elements = (loopvars | set(_params_of(fn))) - assigned
        # a parameter may receive the sentinel from a caller inside the module: only parameters of public functions / loop variables are safe
        if fn.name.startswith("_"):
            elements -= set(_params_of(fn))

        class F(ast.NodeTransformer):
            def visit_FunctionDef(self, node):
                return node if node is not fn else self.generic_visit(node)

            def visit_Compare(self, node: ast.Compare):
                self.generic_visit(node)
                if len(node.ops) == 1 and isinstance(node.ops[0], (ast.Is, ast.IsNot)) and isinstance(node.left, ast.Name) and isinstance(node.comparators[0], ast.Name):
                    a, b = node.left.id, node.comparators[0].id
                    pos = isinstance(node.ops[0], ast.Is)
                    if a in sent and a == b:
                        return ast.copy_location(ast.Constant(value=pos), node)
                    if (a in sent and b in elements) or (b in sent and a in elements):
                        return ast.copy_location(ast.Constant(value=not pos), node)
                return node

            def visit_BoolOp(self, node: ast.BoolOp):
                self.generic_visit(node)
                is_or = isinstance(node.op, ast.Or)
                vals = []
                for v in node.values:
                    if isinstance(v, ast.Constant) and isinstance(v.value, bool):
                        if v.value == is_or:
                            # True or ... / False and ...: decided here (the operands before it were evaluated and had no say)
                            if not vals:
                                return ast.copy_location(ast.Constant(value=is_or), node)
                            vals.append(v)
                            break
                        continue  # neutral operand
                    vals.append(v)
                if not vals:
                    return ast.copy_location(ast.Constant(value=not is_or), node)
                if len(vals) == 1:
                    return vals[0]
                node.values = vals
                return node

        F().visit(fn)


def _chain_loops(tree: ast.Module) -> None:
    """for x in chain.from_iterable(ROWS): BODY   ==>   for _row in ROWS: for x in _row: BODY        (no break in BODY, no else)
    for x in chain(A, B): BODY                   ==>   for x in A: BODY ; for x in B: BODY           is NOT done (BODY would be duplicated)."""
    k = [0]
    for holder in ast.walk(tree):
        for fld in ("body", "orelse", "finalbody"):
            body = getattr(holder, fld, None)
            if not (isinstance(body, list) and body and isinstance(body[0], ast.stmt)):
                continue
            for i, st in enumerate(body):
                if not (isinstance(st, ast.For) and not st.orelse and isinstance(st.iter, ast.Call) and len(st.iter.args) == 1 and not st.iter.keywords
                        and ast.unparse(st.iter.func) in ("chain.from_iterable", "itertools.chain.from_iterable")):
                    continue
                if _user_breaks(st.body):
                    continue
                k[0] += 1
                row = f"_row__chain{k[0]}"
                inner = ast.For(target=st.target, iter=ast.Name(id=row, ctx=ast.Load()), body=st.body, orelse=[], type_comment=None)
                outer = ast.For(target=ast.Name(id=row, ctx=ast.Store()), iter=st.iter.args[0], body=[inner], orelse=[], type_comment=None)
                ast.copy_location(inner, st)
                ast.copy_location(outer, st)
                ast.fix_missing_locations(outer)
                outer.lineno = getattr(st, "lineno", 0) % 100000 + 100000 * (500 + k[0])  # loops are told apart by their line: a pseudo line for the synthetic one
                body[i] = outer


def _try_keyerror(tree: ast.Module) -> None:
    """try: return M[K] / except KeyError: pass      ==>   if K in M: return M[K]
    try: x = M[K] / except KeyError: H...          ==>   if K in M: x = M[K] / else: H...
    (M and K plain names / attribute chains, one handler without a name, no else / finally): the lookup that may fail becomes the membership
    test it stands for (for the plain dict / OrderedDict mappings of this package)."""
    def plain(e: ast.AST) -> bool:
        while isinstance(e, ast.Attribute):
            e = e.value
        return isinstance(e, (ast.Name, ast.Constant))

    for holder in ast.walk(tree):
        for fld in ("body", "orelse", "finalbody"):
            body = getattr(holder, fld, None)
            if not (isinstance(body, list) and body and isinstance(body[0], ast.stmt)):
                continue
            for i, st in enumerate(body):
                if not (isinstance(st, ast.Try) and len(st.body) == 1 and len(st.handlers) == 1 and not st.orelse and not st.finalbody and st.handlers[0].name is None
                        and isinstance(st.handlers[0].type, ast.Name) and st.handlers[0].type.id == "KeyError"):
                    continue
                b = st.body[0]
                sub = b.value if isinstance(b, (ast.Return, ast.Assign)) else None
                if not (isinstance(sub, ast.Subscript) and plain(sub.value) and plain(sub.slice) and isinstance(sub.ctx, ast.Load)):
                    continue
                if isinstance(b, ast.Assign) and not (len(b.targets) == 1 and isinstance(b.targets[0], ast.Name)):
                    continue
                test = ast.Compare(left=copy.deepcopy(sub.slice), ops=[ast.In()], comparators=[copy.deepcopy(sub.value)])
                hbody = [x for x in st.handlers[0].body if not isinstance(x, ast.Pass)]
                new = ast.If(test=test, body=[b], orelse=hbody)
                ast.copy_location(new, st)
                ast.fix_missing_locations(new)
                body[i] = new


def _next_sentinel(tree: ast.Module) -> None:
    """try: X = next(IT) / except StopIteration: H   ==>   X = next(IT, __EXHAUSTED__) ; if X is __EXHAUSTED__: H
    (one statement in the try body, one handler without a name, no else / finally): the exhausted stream becomes an ordinary branch."""
    for holder in ast.walk(tree):
        for fld in ("body", "orelse", "finalbody"):
            body = getattr(holder, fld, None)
            if not (isinstance(body, list) and body and isinstance(body[0], ast.stmt)):
                continue
            out: List[ast.stmt] = []
            for st in body:
                if (isinstance(st, ast.Try) and len(st.body) == 1 and len(st.handlers) == 1 and not st.orelse and not st.finalbody and st.handlers[0].name is None
                        and isinstance(st.handlers[0].type, ast.Name) and st.handlers[0].type.id == "StopIteration"
                        and isinstance(st.body[0], ast.Assign) and len(st.body[0].targets) == 1 and isinstance(st.body[0].targets[0], ast.Name)
                        and isinstance(st.body[0].value, ast.Call) and isinstance(st.body[0].value.func, ast.Name) and st.body[0].value.func.id == "next"
                        and len(st.body[0].value.args) == 1 and not st.body[0].value.keywords and isinstance(st.body[0].value.args[0], ast.Name)):
                    a = st.body[0]
                    x = a.targets[0].id
                    call = ast.Call(func=ast.Name(id="next", ctx=ast.Load()), args=[a.value.args[0], ast.Name(id=EXHAUSTED, ctx=ast.Load())], keywords=[])
                    na = ast.Assign(targets=[ast.Name(id=x, ctx=ast.Store())], value=call)
                    test = ast.Compare(left=ast.Name(id=x, ctx=ast.Load()), ops=[ast.Is()], comparators=[ast.Name(id=EXHAUSTED, ctx=ast.Load())])
                    ni = ast.If(test=test, body=st.handlers[0].body, orelse=[])
                    for n_ in (na, ni):
                        ast.copy_location(n_, st)
                        ast.fix_missing_locations(n_)
                    ni.lineno = st.handlers[0].lineno
                    out.extend([na, ni])
                else:
                    out.append(st)
            setattr(holder, fld, out)


def _while_true(tree: ast.Module) -> None:
    """while True: if C: return X / break ; REST   ==>   while not C: REST ; [return X]
    (no other break in the loop, no else clause): the loop condition is where a `while` has it."""
    def has_break(stmts) -> bool:
        for x in stmts:
            if isinstance(x, ast.Break):
                return True
            if isinstance(x, (ast.For, ast.While, ast.FunctionDef, ast.AsyncFunctionDef, ast.ClassDef)):
                if isinstance(x, (ast.For, ast.While)) and has_break(x.orelse):
                    return True
                continue
            for fld in ("body", "orelse", "finalbody"):
                sub = getattr(x, fld, None)
                if isinstance(sub, list) and sub and isinstance(sub[0], ast.stmt) and has_break(sub):
                    return True
            for hd in getattr(x, "handlers", []):
                if has_break(hd.body):
                    return True
        return False

    for holder in ast.walk(tree):
        for fld in ("body", "orelse", "finalbody"):
            body = getattr(holder, fld, None)
            if not (isinstance(body, list) and body and isinstance(body[0], ast.stmt)):
                continue
            out: List[ast.stmt] = []
            for st in body:
                if (isinstance(st, ast.While) and isinstance(st.test, ast.Constant) and st.test.value is True and not st.orelse and st.body and isinstance(st.body[0], ast.If)
                        and not st.body[0].orelse and len(st.body[0].body) == 1 and isinstance(st.body[0].body[0], (ast.Return, ast.Break)) and not has_break(st.body[1:])
                        and len(st.body) > 1):
                    first = st.body[0]
                    test = first.test
                    neg = test.operand if isinstance(test, ast.UnaryOp) and isinstance(test.op, ast.Not) else ast.UnaryOp(op=ast.Not(), operand=test)
                    if isinstance(test, ast.Compare) and len(test.ops) == 1:
                        flip = {ast.In: ast.NotIn, ast.NotIn: ast.In, ast.Is: ast.IsNot, ast.IsNot: ast.Is, ast.Eq: ast.NotEq, ast.NotEq: ast.Eq}
                        if type(test.ops[0]) in flip:
                            neg = ast.Compare(left=test.left, ops=[flip[type(test.ops[0])]()], comparators=test.comparators)
                    ast.copy_location(neg, test)
                    ast.fix_missing_locations(neg)
                    nw = ast.While(test=neg, body=st.body[1:], orelse=[])
                    ast.copy_location(nw, st)
                    out.append(nw)
                    if isinstance(first.body[0], ast.Return):
                        out.append(first.body[0])
                else:
                    out.append(st)
            setattr(holder, fld, out)


def _loop_built_lists(tree: ast.Module) -> None:
    """x = [] ; y = [] ; for T in SEQ: t = E0 ; x.append(E1) ; y.append(E2)      ==>      x = [E1' for T in SEQ] ; y = [E2' for T in SEQ]
    (SEQ a plain name / attribute chain, the temporaries and elements free of calls, each list appended exactly once per iteration and used
    nowhere else before the loop): the loop is the comprehension(s) it spells out."""
    def call_free(e: ast.AST) -> bool:
        return not any(isinstance(n, (ast.Call, ast.Yield, ast.YieldFrom, ast.Await, ast.NamedExpr, ast.Lambda)) for n in ast.walk(e))

    for fn in [n for n in ast.walk(tree) if isinstance(n, ast.FunctionDef)]:
        for holder in ast.walk(fn):
            for fld in ("body", "orelse", "finalbody"):
                body = getattr(holder, fld, None)
                if not (isinstance(body, list) and body and isinstance(body[0], ast.stmt)):
                    continue
                for li, lp in enumerate(body):
                    if not (isinstance(lp, ast.For) and not lp.orelse and isinstance(lp.target, (ast.Name, ast.Tuple))):
                        continue
                    it = lp.iter
                    x_ = it
                    while isinstance(x_, ast.Attribute):
                        x_ = x_.value
                    if not isinstance(x_, ast.Name):
                        continue
                    temps: Dict[str, ast.expr] = {}
                    appends: List[Tuple[str, ast.expr]] = []
                    ok = True
                    for st in lp.body:
                        if isinstance(st, (ast.Assign, ast.AnnAssign)) and (len(st.targets) == 1 if isinstance(st, ast.Assign) else True):
                            tg = st.targets[0] if isinstance(st, ast.Assign) else st.target
                            if isinstance(tg, ast.Name) and st.value is not None and call_free(st.value) and not appends:
                                temps[tg.id] = _Subst(dict(temps), {}).visit(copy.deepcopy(st.value))
                                continue
                            ok = False
                            break
                        if isinstance(st, ast.Expr) and isinstance(st.value, ast.Call) and isinstance(st.value.func, ast.Attribute) and st.value.func.attr == "append" \
                                and isinstance(st.value.func.value, ast.Name) and len(st.value.args) == 1 and not st.value.keywords and call_free(st.value.args[0]):
                            appends.append((st.value.func.value.id, _Subst(dict(temps), {}).visit(copy.deepcopy(st.value.args[0]))))
                            continue
                        ok = False
                        break
                    names = [n for n, _ in appends]
                    if not ok or not appends or len(set(names)) != len(names):
                        continue
                    # each list: bound to [] by a statement of this block before the loop, not touched in between, temporaries unused after the loop
                    inits = {}
                    for nm in names:
                        idx = None
                        for j in range(li - 1, -1, -1):
                            st = body[j]
                            tg = st.targets[0] if isinstance(st, ast.Assign) and len(st.targets) == 1 else (st.target if isinstance(st, ast.AnnAssign) else None)
                            if isinstance(tg, ast.Name) and tg.id == nm:
                                if isinstance(st.value, ast.List) and not st.value.elts:
                                    idx = j
                                break
                            if any(isinstance(n, ast.Name) and n.id == nm for n in ast.walk(st)):
                                break
                        if idx is None:
                            break
                        inits[nm] = idx
                    if len(inits) != len(names):
                        continue
                    loop_names = {n.id for n in ast.walk(lp.target) if isinstance(n, ast.Name)} | set(temps)
                    after = body[li + 1:]
                    if any(isinstance(n, ast.Name) and n.id in loop_names and isinstance(n.ctx, ast.Load) for st in after for n in ast.walk(st)):
                        continue
                    if sum(1 for n in ast.walk(fn) if isinstance(n, ast.Name) and n.id in names and isinstance(n.ctx, (ast.Store, ast.Del))) != len(names):
                        continue
                    new_stmts = []
                    for nm, elt in appends:
                        comp = ast.ListComp(elt=elt, generators=[ast.comprehension(target=copy.deepcopy(lp.target), iter=copy.deepcopy(it), ifs=[], is_async=0)])
                        asg = ast.Assign(targets=[ast.Name(id=nm, ctx=ast.Store())], value=comp)
                        ast.copy_location(asg, lp)
                        ast.fix_missing_locations(asg)
                        new_stmts.append(asg)
                    for nm, idx in inits.items():
                        body[idx] = ast.copy_location(ast.Pass(), body[idx])
                    body[li:li + 1] = new_stmts
                    break


def _clamp_idiom(tree: ast.Module) -> None:
    """i = <call> - <int> ; if i < 0: i = 0     ==>     i = max(0, <call> - <int>)      (integer index arithmetic)"""
    for holder in ast.walk(tree):
        for fld in ("body", "orelse", "finalbody"):
            body = getattr(holder, fld, None)
            if not (isinstance(body, list) and body and isinstance(body[0], ast.stmt)):
                continue
            i = 0
            while i + 1 < len(body):
                a, c = body[i], body[i + 1]
                i += 1
                if not (isinstance(a, ast.Assign) and len(a.targets) == 1 and isinstance(a.targets[0], ast.Name) and isinstance(a.value, ast.BinOp) and isinstance(a.value.op, (ast.Sub, ast.Add))
                        and isinstance(a.value.left, ast.Call) and isinstance(a.value.right, ast.Constant) and isinstance(a.value.right.value, int)):
                    continue
                x = a.targets[0].id
                if not (isinstance(c, ast.If) and not c.orelse and len(c.body) == 1 and isinstance(c.body[0], ast.Assign) and len(c.body[0].targets) == 1
                        and isinstance(c.body[0].targets[0], ast.Name) and c.body[0].targets[0].id == x and isinstance(c.body[0].value, ast.Constant) and c.body[0].value.value == 0
                        and isinstance(c.test, ast.Compare) and len(c.test.ops) == 1):
                    continue
                t = c.test
                lt = isinstance(t.ops[0], ast.Lt) and isinstance(t.left, ast.Name) and t.left.id == x and isinstance(t.comparators[0], ast.Constant) and t.comparators[0].value == 0
                gt = isinstance(t.ops[0], ast.Gt) and isinstance(t.comparators[0], ast.Name) and t.comparators[0].id == x and isinstance(t.left, ast.Constant) and t.left.value == 0
                if not (lt or gt):
                    continue
                a.value = ast.copy_location(ast.Call(func=ast.Name(id="max", ctx=ast.Load()), args=[ast.Constant(value=0), a.value], keywords=[]), a.value)
                ast.fix_missing_locations(a)
                body[i] = ast.copy_location(ast.Pass(), c)


def _drain_loops(tree: ast.Module) -> None:
    """while Q: yield Q.popleft()    ==>    if Q: yield from Q ; Q.clear()
    (Q a plain name): the consumer of the generator cannot touch Q between two yields, so the same elements come out in the same order and Q
    ends empty either way."""
    for holder in ast.walk(tree):
        for fld in ("body", "orelse", "finalbody"):
            body = getattr(holder, fld, None)
            if not (isinstance(body, list) and body and isinstance(body[0], ast.stmt)):
                continue
            for i, st in enumerate(body):
                if (isinstance(st, ast.While) and isinstance(st.test, ast.Name) and not st.orelse and len(st.body) == 1 and isinstance(st.body[0], ast.Expr)
                        and isinstance(st.body[0].value, ast.Yield) and isinstance(st.body[0].value.value, ast.Call) and isinstance(st.body[0].value.value.func, ast.Attribute)
                        and st.body[0].value.value.func.attr == "popleft" and not st.body[0].value.value.args and isinstance(st.body[0].value.value.func.value, ast.Name)
                        and st.body[0].value.value.func.value.id == st.test.id):
                    q = st.test.id
                    yf = ast.Expr(value=ast.YieldFrom(value=ast.Name(id=q, ctx=ast.Load())))
                    cl = ast.Expr(value=ast.Call(func=ast.Attribute(value=ast.Name(id=q, ctx=ast.Load()), attr="clear", ctx=ast.Load()), args=[], keywords=[]))
                    new = ast.If(test=ast.Name(id=q, ctx=ast.Load()), body=[yf, cl], orelse=[])
                    for n in (yf, cl, new):
                        ast.copy_location(n, st)
                        ast.fix_missing_locations(n)
                    body[i] = new


def _rotate_carried(tree: ast.Module) -> None:
    """x = E ; while T(x): BODY ; x = E     ==>     while T(E): x = E ; BODY
    (E free of calls with effects and of x, x assigned nowhere else in the loop, no continue in BODY, x not read after the loop):
    the loop tests the fresh value instead of carrying it from the end of the previous iteration."""
    def pure(e: ast.AST) -> bool:
        for n in ast.walk(e):
            if isinstance(n, ast.Call):
                f = n.func
                if not (isinstance(f, ast.Attribute) and f.attr in ("find", "rfind", "index", "count", "startswith", "endswith", "lower", "upper", "strip", "get")) and \
                        not (isinstance(f, ast.Name) and f.id in ("len", "min", "max", "abs", "int", "str")):
                    return False
            if isinstance(n, (ast.Yield, ast.YieldFrom, ast.Await, ast.NamedExpr, ast.Lambda, ast.ListComp, ast.GeneratorExp, ast.SetComp, ast.DictComp)):
                return False
        return True

    for fn in [n for n in ast.walk(tree) if isinstance(n, ast.FunctionDef)]:
        for holder in ast.walk(fn):
            for fld in ("body", "orelse", "finalbody"):
                body = getattr(holder, fld, None)
                if not (isinstance(body, list) and body and isinstance(body[0], ast.stmt)):
                    continue
                i = 0
                while i + 1 < len(body):
                    a, w = body[i], body[i + 1]
                    i += 1
                    if not (isinstance(a, ast.Assign) and len(a.targets) == 1 and isinstance(a.targets[0], ast.Name) and isinstance(w, ast.While) and not w.orelse and len(w.body) >= 2):
                        continue
                    x = a.targets[0].id
                    last = w.body[-1]
                    if not (isinstance(last, ast.Assign) and len(last.targets) == 1 and isinstance(last.targets[0], ast.Name) and last.targets[0].id == x and ast.dump(last.value) == ast.dump(a.value)):
                        continue
                    if not pure(a.value) or any(isinstance(n, ast.Name) and n.id == x for n in ast.walk(a.value)):
                        continue
                    inner = w.body[:-1]
                    if any(isinstance(n, ast.Continue) for st in inner for n in ast.walk(st)) or any(isinstance(n, ast.Name) and n.id == x and isinstance(n.ctx, (ast.Store, ast.Del)) for st in inner for n in ast.walk(st)):
                        continue
                    if not any(isinstance(n, ast.Name) and n.id == x for n in ast.walk(w.test)):
                        continue
                    after = body[i + 1:]
                    used_after = any(isinstance(n, ast.Name) and n.id == x and isinstance(n.ctx, ast.Load) for st in after for n in ast.walk(st))
                    # reads of x after the loop in enclosing blocks: be conservative - x must not be read anywhere outside this loop
                    reads_elsewhere = sum(1 for n in ast.walk(fn) if isinstance(n, ast.Name) and n.id == x and isinstance(n.ctx, ast.Load)) - \
                        sum(1 for n in ast.walk(w) if isinstance(n, ast.Name) and n.id == x and isinstance(n.ctx, ast.Load))
                    if used_after or reads_elsewhere:
                        continue
                    new_test = _Subst({x: a.value}, {}).visit(copy.deepcopy(w.test))
                    head = ast.copy_location(ast.Assign(targets=[ast.Name(id=x, ctx=ast.Store())], value=copy.deepcopy(a.value)), w)
                    w.test = new_test
                    w.body = [head] + inner
                    ast.fix_missing_locations(w)
                    body[i - 1] = ast.copy_location(ast.Pass(), a)


def _record_classes(tree: ast.Module) -> Dict[str, List[str]]:
    """Private NamedTuple classes of the module: name -> field names in order."""
    out: Dict[str, List[str]] = {}
    for st in tree.body:
        if isinstance(st, ast.ClassDef) and st.name.startswith("_") and any((isinstance(b, ast.Name) and b.id == "NamedTuple") or (isinstance(b, ast.Attribute) and b.attr == "NamedTuple") for b in st.bases):
            fields = [x.target.id for x in st.body if isinstance(x, ast.AnnAssign) and isinstance(x.target, ast.Name)]
            if any(isinstance(x, ast.AnnAssign) and x.value is not None for x in st.body):
                continue  # defaults: keep it simple
            if any(isinstance(x, ast.FunctionDef) and x.name in ("__new__", "__init__", "__getattribute__", "__getattr__") for x in st.body):
                continue
            out[st.name] = fields
    return out


def _scalarize_records(tree: ast.Module) -> None:
    """v = _Rec(a, b, c) (a private NamedTuple, plain names / constants as arguments) whose every other use is a field read `v.f` that the
    assignment dominates: the field reads become the arguments and the record disappears."""
    recs = _record_classes(tree)
    if not recs:
        return
    for fn in [n for n in ast.walk(tree) if isinstance(n, ast.FunctionDef)]:
        own = list(_own_nodes(fn))
        stores: Dict[str, int] = {}
        for n in own:
            if isinstance(n, ast.Name) and isinstance(n.ctx, (ast.Store, ast.Del)):
                stores[n.id] = stores.get(n.id, 0) + 1
        params = set(_params_of(fn))

        def find_blocks(stmts: List[ast.stmt], acc):
            for i, st in enumerate(stmts):
                acc.append((stmts, i, st))
                if isinstance(st, (ast.FunctionDef, ast.AsyncFunctionDef, ast.ClassDef)):
                    continue
                for fld in ("body", "orelse", "finalbody"):
                    sub = getattr(st, fld, None)
                    if isinstance(sub, list) and sub and isinstance(sub[0], ast.stmt):
                        find_blocks(sub, acc)
                for hd in getattr(st, "handlers", []):
                    find_blocks(hd.body, acc)

        acc: List[Tuple[List[ast.stmt], int, ast.stmt]] = []
        find_blocks(fn.body, acc)
        for block, i, st in acc:
            if not (isinstance(st, ast.Assign) and len(st.targets) == 1 and isinstance(st.targets[0], ast.Name) and isinstance(st.value, ast.Call)
                    and isinstance(st.value.func, ast.Name) and st.value.func.id in recs):
                continue
            v = st.targets[0].id
            fields = recs[st.value.func.id]
            if stores.get(v, 0) != 1 or v in params or any(isinstance(a, ast.Starred) for a in st.value.args) or any(k.arg is None for k in st.value.keywords):
                continue
            vals: Dict[str, ast.expr] = {}
            for f_, a in zip(fields, st.value.args):
                vals[f_] = a
            for k in st.value.keywords:
                vals[k.arg] = k.value
            if set(vals) != set(fields) or len(st.value.args) > len(fields):
                continue
            ok = True
            for a in vals.values():
                if isinstance(a, ast.Constant):
                    continue
                if isinstance(a, ast.Name) and ((a.id in params and stores.get(a.id, 0) == 0) or (a.id not in params and stores.get(a.id, 0) == 1)):
                    continue
                ok = False
            if not ok:
                continue
            later = block[i + 1:]
            inside = {id(n) for x in later for n in ast.walk(x)}
            uses = [n for n in own if isinstance(n, ast.Name) and n.id == v and isinstance(n.ctx, ast.Load)]
            if not uses or any(id(u) not in inside for u in uses):
                continue
            parents: Dict[int, ast.AST] = {}
            for x in later:
                for n in ast.walk(x):
                    for c in ast.iter_child_nodes(n):
                        parents[id(c)] = n
            if not all(isinstance(parents.get(id(u)), ast.Attribute) and parents[id(u)].attr in vals and isinstance(parents[id(u)].ctx, ast.Load) for u in uses):
                continue
            # a nested function / lambda reading the record later would see later values of the arguments: they are single-store, so it is the same value
            class Rep(ast.NodeTransformer):
                def visit_Attribute(self, node: ast.Attribute):
                    if isinstance(node.value, ast.Name) and node.value.id == v and isinstance(node.ctx, ast.Load) and node.attr in vals:
                        return ast.copy_location(copy.deepcopy(vals[node.attr]), node)
                    return self.generic_visit(node)

            for j in range(i + 1, len(block)):
                block[j] = Rep().visit(block[j])
            block[i] = ast.copy_location(ast.Pass(), st)


def _pure_literal(e: ast.AST) -> bool:
    if isinstance(e, ast.Constant):
        return True
    if isinstance(e, ast.Attribute):
        # a dotted name such as EventTag.STOP (an enumeration member, a class attribute): reading it again gives the same object
        x = e
        while isinstance(x, ast.Attribute):
            x = x.value
        return isinstance(x, ast.Name) and x.id[:1].isupper()
    if isinstance(e, (ast.Tuple, ast.List, ast.Set)):
        return all(_pure_literal(x) for x in e.elts)
    if isinstance(e, ast.Dict):
        return all(k is not None and _pure_literal(k) and _pure_literal(v) for k, v in zip(e.keys, e.values))
    if isinstance(e, ast.UnaryOp) and isinstance(e.op, ast.USub):
        return _pure_literal(e.operand)
    return False


_MUTATING = {"append", "add", "update", "clear", "pop", "popitem", "setdefault", "extend", "insert", "remove", "discard", "sort", "reverse", "move_to_end", "__setitem__", "__delitem__"}


def _inline_private_tables(trees: Dict[str, ast.Module]) -> None:
    """A private module-level name bound once to a display of literals (dict / tuple / list / set), used only inside its own module and only in
    ways that cannot change it or let it escape (`T.get(..)`, `T[..]`, `x in T`, `for x in T`, `len(T)`), is replaced by the display at its use sites."""
    imported: Set[str] = set()
    for t in trees.values():
        for n in ast.walk(t):
            if isinstance(n, ast.ImportFrom):
                imported |= {a.name for a in n.names}
    for m, t in trees.items():
        cands: Dict[str, ast.AST] = {}
        counts: Dict[str, int] = {}
        for st in t.body:
            tgt = None
            if isinstance(st, ast.Assign) and len(st.targets) == 1 and isinstance(st.targets[0], ast.Name):
                tgt, val = st.targets[0].id, st.value
            elif isinstance(st, ast.AnnAssign) and isinstance(st.target, ast.Name) and st.value is not None:
                tgt, val = st.target.id, st.value
            if tgt is not None:
                counts[tgt] = counts.get(tgt, 0) + 1
                if tgt.startswith("_") and not tgt.startswith("__") and tgt not in imported and isinstance(val, (ast.Dict, ast.Tuple, ast.List, ast.Set)) and _pure_literal(val):
                    cands[tgt] = val
        cands = {k: v for k, v in cands.items() if counts.get(k) == 1}
        if not cands:
            continue
        parents: Dict[int, ast.AST] = {}
        for n in ast.walk(t):
            for c in ast.iter_child_nodes(n):
                parents[id(c)] = n
        safe: Dict[str, List[ast.Name]] = {k: [] for k in cands}
        for n in ast.walk(t):
            if not (isinstance(n, ast.Name) and n.id in cands):
                continue
            par = parents.get(id(n))
            if isinstance(n.ctx, ast.Store):
                if not (isinstance(par, (ast.Assign, ast.AnnAssign)) and parents.get(id(par)) is t):
                    safe.pop(n.id, None)
                continue
            ok = False
            if isinstance(par, ast.Attribute) and par.value is n and par.attr in ("get", "keys", "values", "items", "index", "count") and isinstance(parents.get(id(par)), ast.Call) and parents[id(par)].func is par:
                ok = True
            elif isinstance(par, ast.Subscript) and par.value is n and isinstance(par.ctx, ast.Load):
                ok = True
            elif isinstance(par, ast.Compare) and n in par.comparators and all(isinstance(o, (ast.In, ast.NotIn)) for o in par.ops):
                ok = True
            elif isinstance(par, (ast.For, ast.comprehension)) and par.iter is n:
                ok = True
            elif isinstance(par, ast.Call) and isinstance(par.func, ast.Name) and par.func.id in ("len", "sorted", "tuple", "list", "set", "frozenset", "dict", "any", "all", "min", "max", "enumerate", "iter") and n in par.args:
                ok = True
            if ok and n.id in safe:
                safe[n.id].append(n)
            else:
                safe.pop(n.id, None)
        if any(isinstance(n, ast.Global) for n in ast.walk(t)):
            for n in ast.walk(t):
                if isinstance(n, ast.Global):
                    for nm in n.names:
                        safe.pop(nm, None)
        for name, uses in safe.items():
            if not uses:
                continue
            for u in uses:
                par = parents[id(u)]
                lit = copy.deepcopy(cands[name])
                ast.copy_location(lit, u)
                for sub in ast.walk(lit):
                    ast.copy_location(sub, u)
                for fld, val in ast.iter_fields(par):
                    if val is u:
                        setattr(par, fld, lit)
                    elif isinstance(val, list):
                        for i, x in enumerate(val):
                            if x is u:
                                val[i] = lit


def _iso(tree: ast.Module) -> None:
    class T(ast.NodeTransformer):
        def visit_Call(self, node: ast.Call):
            self.generic_visit(node)
            if (isinstance(node.func, ast.Name) and node.func.id == "isinstance" and len(node.args) == 2 and not node.keywords
                    and isinstance(node.args[1], ast.Tuple) and len(node.args[1].elts) >= 2 and isinstance(node.args[0], (ast.Name, ast.Attribute))):
                vals = []
                for e in node.args[1].elts:
                    c = ast.Call(func=ast.Name(id="isinstance", ctx=ast.Load()), args=[copy.deepcopy(node.args[0]), e], keywords=[])
                    ast.copy_location(c, node)
                    ast.fix_missing_locations(c)
                    vals.append(c)
                b = ast.BoolOp(op=ast.Or(), values=vals)
                ast.copy_location(b, node)
                return b
            return node

    T().visit(tree)


def _fold_constant_ifs(tree: ast.Module) -> None:
    for holder in ast.walk(tree):
        for fld in ("body", "orelse", "finalbody"):
            body = getattr(holder, fld, None)
            if not (isinstance(body, list) and body and isinstance(body[0], ast.stmt)):
                continue
            out: List[ast.stmt] = []
            changed = False
            for st in body:
                if isinstance(st, ast.If) and isinstance(st.test, ast.Constant):
                    out.extend(st.body if st.test.value else st.orelse)
                    changed = True
                else:
                    out.append(st)
            if changed:
                setattr(holder, fld, out or [ast.copy_location(ast.Pass(), body[0])])


def _return_temp(tree: ast.Module) -> None:
    for fn in [n for n in ast.walk(tree) if isinstance(n, (ast.FunctionDef, ast.AsyncFunctionDef))]:
        counts: Dict[str, int] = {}
        assigned: Dict[str, int] = {}
        for n in ast.walk(fn):
            if isinstance(n, ast.Name):
                counts[n.id] = counts.get(n.id, 0) + 1
                if isinstance(n.ctx, ast.Store):
                    assigned[n.id] = assigned.get(n.id, 0) + 1
        for holder in ast.walk(fn):
            for fld in ("body", "orelse", "finalbody"):
                body = getattr(holder, fld, None)
                if not (isinstance(body, list) and body and isinstance(body[0], ast.stmt)):
                    continue
                i = 0
                while i + 1 < len(body):
                    a, r = body[i], body[i + 1]
                    if (isinstance(a, ast.Assign) and len(a.targets) == 1 and isinstance(a.targets[0], ast.Name) and isinstance(r, ast.Return)
                            and isinstance(r.value, ast.Name) and r.value.id == a.targets[0].id):
                        t = a.targets[0].id
                        if counts.get(t, 0) == 2 * assigned.get(t, 0):
                            new = ast.Return(value=a.value)
                            ast.copy_location(new, a)
                            new.end_lineno = getattr(r, "end_lineno", None)
                            body[i:i + 2] = [new]
                            continue
                    i += 1


# ---------------------------------------------------------------------------
# helper inlining

import builtins as _builtins

_BUILTINS = set(dir(_builtins))


def _doc_stripped(body: List[ast.stmt]) -> List[ast.stmt]:
    if body and isinstance(body[0], ast.Expr) and isinstance(body[0].value, ast.Constant) and isinstance(body[0].value.value, str):
        return body[1:]
    return body


def _simple(e: ast.expr) -> bool:
    return isinstance(e, (ast.Name, ast.Constant)) or (isinstance(e, ast.Attribute) and _simple(e.value))


def _own_nodes(fn: ast.AST):
    """Nodes of a function body without descending into nested defs / classes (lambdas are descended into)."""
    stack = list(reversed(fn.body))
    while stack:
        n = stack.pop()
        yield n
        if isinstance(n, (ast.FunctionDef, ast.AsyncFunctionDef, ast.ClassDef)):
            continue
        stack.extend(reversed(list(ast.iter_child_nodes(n))))


def _params_of(fn: ast.AST) -> List[str]:
    a = fn.args
    out = [x.arg for x in a.posonlyargs + a.args + a.kwonlyargs]
    if a.vararg:
        out.append(a.vararg.arg)
    if a.kwarg:
        out.append(a.kwarg.arg)
    return out


def _locals_of(fn: ast.AST) -> Set[str]:
    out: Set[str] = set()
    for n in _own_nodes(fn):
        if isinstance(n, ast.Name) and isinstance(n.ctx, (ast.Store, ast.Del)):
            out.add(n.id)
        elif isinstance(n, ast.ExceptHandler) and n.name:
            out.add(n.name)
        elif isinstance(n, (ast.FunctionDef, ast.AsyncFunctionDef, ast.ClassDef)):
            out.add(n.name)
        elif isinstance(n, (ast.Import, ast.ImportFrom)):
            for a in n.names:
                out.add((a.asname or a.name).split(".")[0])
    return out


def _empty_display(e: ast.AST) -> bool:
    return isinstance(e, (ast.List, ast.Tuple)) and not e.elts


def _never_mutated(fn: ast.AST, name: str) -> bool:
    """The parameter is only read: no method is called on it, nothing is stored into it."""
    for n in ast.walk(fn):
        if isinstance(n, ast.Attribute) and isinstance(n.value, ast.Name) and n.value.id == name:
            return False
        if isinstance(n, ast.Subscript) and isinstance(n.value, ast.Name) and n.value.id == name and isinstance(n.ctx, (ast.Store, ast.Del)):
            return False
    return True


class _Helper:
    def __init__(self, node: ast.FunctionDef, kind: str, cls: Optional[str], module: str, owner: Optional[ast.AST] = None):
        self.node = node
        self.kind = kind  # "func" | "method" | "static" | "class" | "nested"
        self.cls = cls
        self.module = module
        self.owner = owner  # enclosing function of a nested helper
        a = node.args
        self.params = [x.arg for x in a.posonlyargs + a.args]
        self.kwonly = [x.arg for x in a.kwonlyargs]
        self.defaults: Dict[str, ast.expr] = {}
        pos = a.posonlyargs + a.args
        for arg, d in zip(pos[len(pos) - len(a.defaults):], a.defaults):
            self.defaults[arg.arg] = d
        for arg, d in zip(a.kwonlyargs, a.kw_defaults):
            if d is not None:
                self.defaults[arg.arg] = d
        self.is_gen = any(isinstance(n, (ast.Yield, ast.YieldFrom)) for n in _own_nodes(node))
        # names in annotations are not evaluated when the body runs (parameter / return annotations at definition time only)
        ann: Set[int] = set()
        for n in ast.walk(node):
            for x in ([n.annotation] if isinstance(n, (ast.arg, ast.AnnAssign)) and n.annotation is not None else []) + ([n.returns] if isinstance(n, ast.FunctionDef) and n.returns is not None else []):
                ann |= {id(y) for y in ast.walk(x)}
        loaded = {n.id for n in ast.walk(node) if isinstance(n, ast.Name) and isinstance(n.ctx, ast.Load) and id(n) not in ann}
        self.free = loaded - set(_params_of(node)) - _locals_of(node) - _BUILTINS

    @property
    def body(self) -> List[ast.stmt]:
        # read live: the helper's own body may have had helpers inlined into it earlier in the same round
        return _doc_stripped(self.node.body)

    @property
    def is_expr(self) -> bool:
        b = self.body
        return (not self.is_gen) and len(b) == 1 and isinstance(b[0], ast.Return) and b[0].value is not None

    @property
    def locals(self) -> Set[str]:
        return _locals_of(self.node)

    def bind(self, call: ast.Call, receiver: Optional[ast.expr]) -> Optional[Dict[str, ast.expr]]:
        params = list(self.params)
        out: Dict[str, ast.expr] = {}
        if self.kind in ("method", "class"):
            if not params or receiver is None:
                return None
            out[params[0]] = receiver
            params = params[1:]
        va = self.node.args.vararg.arg if self.node.args.vararg else None
        cargs = list(call.args)
        if va is not None:
            # f(a, b, *rest): the positional parameters take plain arguments, the remainder must be exactly one starred plain expression
            if any(isinstance(a, ast.Starred) for a in cargs[:len(params)]) or len(cargs) != len(params) + 1 or not isinstance(cargs[-1], ast.Starred) \
                    or not isinstance(cargs[-1].value, (ast.Name, ast.Attribute)):
                return None
            out[va] = cargs[-1].value
            cargs = cargs[:-1]
        if any(isinstance(a, ast.Starred) for a in cargs) or any(k.arg is None for k in call.keywords):
            return None
        if len(cargs) > len(params):
            return None
        for q_name, q_expr in getattr(self, "qualify", {}).items():
            out[q_name] = q_expr
        for p, a in zip(params, cargs):
            out[p] = a
        for k in call.keywords:
            if k.arg in out or k.arg not in params + self.kwonly:
                return None
            out[k.arg] = k.value
        for p in params + self.kwonly:
            if p not in out:
                if p in self.defaults:
                    out[p] = self.defaults[p]
                else:
                    return None
        return out


def _eligible(fn: ast.FunctionDef, nested: bool = False, private_class: bool = False) -> bool:
    if fn.name in anchors():
        return False
    if not nested and ((not fn.name.startswith("_") and not private_class) or (fn.name.startswith("__") and fn.name.endswith("__"))):
        return False
    a = fn.args
    if a.kwarg:
        return False
    if a.vararg:
        # *rest is accepted when the function only hands it on as *rest (the caller's own starred argument takes its place)
        vn = a.vararg.arg
        pars = {}
        for n in ast.walk(fn):
            for c in ast.iter_child_nodes(n):
                pars[id(c)] = n
        for n in ast.walk(fn):
            if isinstance(n, ast.Name) and n.id == vn:
                if not (isinstance(n.ctx, ast.Load) and isinstance(pars.get(id(n)), ast.Starred) and isinstance(pars.get(id(pars[id(n)])), ast.Call)):
                    return False
        if a.kwonlyargs:
            return False
    if nested and fn.decorator_list:
        return False
    if nested:
        # a default is evaluated once, at definition time: only immutable or never-mutated empty defaults may be re-evaluated per call
        for arg, d in list(zip((a.posonlyargs + a.args)[len(a.posonlyargs + a.args) - len(a.defaults):], a.defaults)) + [(x, y) for x, y in zip(a.kwonlyargs, a.kw_defaults) if y is not None]:
            empty = isinstance(d, (ast.List, ast.Tuple, ast.Dict)) and not (d.elts if not isinstance(d, ast.Dict) else d.keys)
            if not (isinstance(d, ast.Constant) or empty):
                return False
            if empty:
                for n in ast.walk(fn):
                    if isinstance(n, ast.Attribute) and isinstance(n.value, ast.Name) and n.value.id == arg.arg:
                        return False  # a method of the default object may mutate it
                    if isinstance(n, ast.Subscript) and isinstance(n.value, ast.Name) and n.value.id == arg.arg and isinstance(n.ctx, (ast.Store, ast.Del)):
                        return False
    for d in fn.decorator_list:
        if not (isinstance(d, ast.Name) and d.id in ("staticmethod", "classmethod")):
            return False
    for n in ast.walk(fn):
        if n is fn:
            continue
        if isinstance(n, (ast.FunctionDef, ast.AsyncFunctionDef, ast.ClassDef, ast.Await, ast.Global, ast.Nonlocal)):
            return False
        if isinstance(n, ast.Call) and isinstance(n.func, ast.Name) and n.func.id == fn.name:
            return False  # recursive
    return True


def _no_annotations(a: ast.arguments) -> ast.arguments:
    a = copy.deepcopy(a)
    for x in a.posonlyargs + a.args + a.kwonlyargs + ([a.vararg] if a.vararg else []) + ([a.kwarg] if a.kwarg else []):
        x.annotation = None
    return a


def _nested_expr_helper(fn: ast.FunctionDef) -> bool:
    """A nested `def key(x): return <expr>` that is new (not an anchor) may be turned into a lambda at its uses."""
    if fn.name in anchors():
        return False
    body = _doc_stripped(fn.body)
    a = fn.args
    return len(body) == 1 and isinstance(body[0], ast.Return) and body[0].value is not None and not (a.vararg or a.kwarg or a.kwonlyargs or a.defaults) and not fn.decorator_list


class _Subst(ast.NodeTransformer):
    def __init__(self, mapping: Dict[str, ast.expr], rename: Dict[str, str]):
        self.mapping = mapping
        self.rename = rename

    def visit_Name(self, n: ast.Name):
        if n.id in self.mapping and isinstance(n.ctx, ast.Load):
            return copy.deepcopy(self.mapping[n.id])
        if n.id in self.rename:
            return ast.copy_location(ast.Name(id=self.rename[n.id], ctx=n.ctx), n)
        return n

    def visit_ExceptHandler(self, n: ast.ExceptHandler):
        self.generic_visit(n)
        if n.name in self.rename:
            n.name = self.rename[n.name]
        return n


_counter = [0]
_bindcall: Dict[int, ast.Call] = {}
_first_cache: Dict[Tuple[int, str], Optional["_Helper"]] = {}


def _first_of(h: "_Helper", default: ast.Constant) -> Optional["_Helper"]:
    key = (id(h.node), ast.dump(default))
    if key in _first_cache:
        return _first_cache[key]
    own = list(_own_nodes(h.node))
    ok = not any(isinstance(n, (ast.YieldFrom, ast.Try, ast.With)) for n in own) and not any(isinstance(n, ast.Return) and n.value is not None for n in own)
    ys = [n for n in own if isinstance(n, ast.Yield)]
    ystm = [n for n in own if isinstance(n, ast.Expr) and isinstance(n.value, ast.Yield) and n.value.value is not None]
    res = None
    if ok and ys and len(ys) == len(ystm):
        fn = copy.deepcopy(h.node)

        class Y(ast.NodeTransformer):
            def visit_FunctionDef(self, node):
                return node if node is not fn else self.generic_visit(node)

            def visit_Lambda(self, node):
                return node

            def visit_Expr(self, node: ast.Expr):
                if isinstance(node.value, ast.Yield):
                    return ast.copy_location(ast.Return(value=node.value.value), node)
                return node

            def visit_Return(self, node: ast.Return):
                return ast.copy_location(ast.Return(value=copy.deepcopy(default)), node)

        Y().visit(fn)
        tail = ast.Return(value=copy.deepcopy(default))
        ast.copy_location(tail, fn.body[-1])
        fn.body.append(tail)
        ast.fix_missing_locations(fn)
        res = _Helper(fn, h.kind, h.cls, h.module, owner=h.owner)
    _first_cache[key] = res
    return res


def _uses(fn_body: List[ast.stmt], name: str) -> int:
    return sum(1 for st in fn_body for n in ast.walk(st) if isinstance(n, ast.Name) and n.id == name and isinstance(n.ctx, ast.Load))


def _ends(stmts: List[ast.stmt]) -> bool:
    """Every path through the block ends in return/raise."""
    if not stmts:
        return False
    last = stmts[-1]
    if isinstance(last, (ast.Return, ast.Raise)):
        return True
    if isinstance(last, ast.If):
        return bool(last.orelse) and _ends(last.body) and _ends(last.orelse)
    if isinstance(last, (ast.With, ast.AsyncWith)):
        return _ends(last.body)
    if isinstance(last, ast.Try) and not last.finalbody:
        main = last.orelse if last.orelse else last.body
        return _ends(main) and all(_ends(h.body) for h in last.handlers)
    return False


def _has_return(st: ast.AST) -> bool:
    return any(isinstance(n, ast.Return) for n in ast.walk(st))


def _returns_in_loops(stmts: List[ast.stmt]) -> bool:
    for st in stmts:
        for n in ast.walk(st):
            if isinstance(n, (ast.For, ast.AsyncFor, ast.While)) and _has_return(n):
                return True
    return False


class _RetToBreak(ast.NodeTransformer):
    def __init__(self, sink, once: bool = True):
        self.sink = sink
        self.once = once

    def visit_Return(self, n: ast.Return):
        b = ast.copy_location(ast.Break(), n)
        if self.once:
            b._once_exit = True  # leaves the synthetic Once block, not a loop of the program
        return list(self.sink(n.value)) + [b]

    def visit_FunctionDef(self, n):
        return n

    def visit_Lambda(self, n):
        return n


def _tail_convert(stmts: List[ast.stmt], sink) -> Optional[List[ast.stmt]]:
    """Rewrite a block whose returns are all in tail position into return-free statements delivering values to *sink*."""
    out: List[ast.stmt] = []
    for i, st in enumerate(stmts):
        if isinstance(st, ast.Return):
            out.extend(sink(st.value))
            return out
        if isinstance(st, ast.If) and _has_return(st):
            body = _tail_convert(st.body, sink)
            if body is None:
                return None
            if st.orelse:
                if _ends(st.body) and _ends(st.orelse):
                    orelse = _tail_convert(st.orelse, sink)
                    if orelse is None:
                        return None
                    out.append(ast.copy_location(ast.If(test=st.test, body=body or [ast.Pass()], orelse=orelse), st))
                    return out
                if _ends(st.body) and not any(_has_return(x) for x in st.orelse):
                    rest = _tail_convert(list(st.orelse) + list(stmts[i + 1:]), sink)
                    if rest is None:
                        return None
                    out.append(ast.copy_location(ast.If(test=st.test, body=body or [ast.Pass()], orelse=rest), st))
                    return out
                if _ends(st.orelse) and not any(_has_return(x) for x in st.body):
                    orelse = _tail_convert(st.orelse, sink)
                    rest = _tail_convert(list(st.body) + list(stmts[i + 1:]), sink)
                    if orelse is None or rest is None:
                        return None
                    out.append(ast.copy_location(ast.If(test=st.test, body=rest or [ast.Pass()], orelse=orelse), st))
                    return out
                return None
            if _ends(st.body):
                rest = _tail_convert(list(stmts[i + 1:]), sink)
                if rest is None:
                    return None
                out.append(ast.copy_location(ast.If(test=st.test, body=body or [ast.Pass()], orelse=rest), st))
                return out
            return None
        if isinstance(st, (ast.With, ast.AsyncWith)) and _has_return(st):
            if not _ends(st.body):
                return None
            body = _tail_convert(st.body, sink)
            if body is None:
                return None
            new = copy.copy(st)
            new.body = body or [ast.Pass()]
            out.append(new)
            return out
        if isinstance(st, ast.Try) and _has_return(st):
            if st.finalbody and any(_has_return(x) for x in st.finalbody):
                return None
            if not _ends([ast.Try(body=st.body, handlers=st.handlers, orelse=st.orelse, finalbody=[])]):
                return None
            new = copy.copy(st)
            if st.orelse:
                if any(_has_return(x) for x in st.body):
                    return None
                new.orelse = _tail_convert(st.orelse, sink)
                if new.orelse is None:
                    return None
            else:
                new.body = _tail_convert(st.body, sink)
                if new.body is None:
                    return None
            hs = []
            for h in st.handlers:
                hb = _tail_convert(h.body, sink)
                if hb is None:
                    return None
                h2 = copy.copy(h)
                h2.body = hb or [ast.Pass()]
                hs.append(h2)
            new.handlers = hs
            out.append(new)
            return out
        if isinstance(st, (ast.For, ast.AsyncFor, ast.While)) and _has_return(st):
            # for x in it: ... return E ...   <rest with tail returns>   ->   for ...: ... deliver E; break ... else: <rest>
            inner_loops = [n for b in st.body for n in ast.walk(b) if isinstance(n, (ast.For, ast.AsyncFor, ast.While))]
            if st.orelse or any(_has_return(l) for l in inner_loops):
                return None
            if any(isinstance(n, ast.Break) for b in st.body for n in ast.walk(b)):
                return None
            rest = _tail_convert(list(stmts[i + 1:]), sink)
            if rest is None:
                return None
            new = copy.copy(st)
            nb: List[ast.stmt] = []
            for b in st.body:
                r = _RetToBreak(sink, once=False).visit(b)  # this break leaves the helper's own loop: a loop of the program
                nb.extend(r if isinstance(r, list) else [r])
            new.body = nb
            new.orelse = rest
            out.append(new)
            return out
        if _has_return(st):
            return None
        out.append(st)
    if not _ends(list(stmts)):
        out.extend(sink(None))
    return out


def _user_breaks(stmts: List[ast.stmt]) -> bool:
    """A break / continue-free check for the loop body at hand: a `break` that belongs to this loop (not to a loop nested in it)."""
    for x in stmts:
        if isinstance(x, ast.Break):
            return True
        if isinstance(x, (ast.For, ast.AsyncFor, ast.While)):
            if _user_breaks(x.orelse):
                return True
            continue
        if isinstance(x, (ast.FunctionDef, ast.AsyncFunctionDef, ast.ClassDef)):
            continue
        for fld in ("body", "orelse", "finalbody"):
            sub = getattr(x, fld, None)
            if isinstance(sub, list) and sub and isinstance(sub[0], ast.stmt) and _user_breaks(sub):
                return True
        for hd in getattr(x, "handlers", []):
            if _user_breaks(hd.body):
                return True
    return False


def _deliver_returns(stmts: List[ast.stmt], sink, in_loop: bool) -> Optional[List[ast.stmt]]:
    """`return E` -> deliver E ; break.  A loop that contains such a return takes the statements that follow it into its `else:` clause
    (they run exactly when the loop was not left by a return), followed by `continue` when an enclosing loop goes on, and is itself followed
    by `break` - the for/else spelling of leaving several loops at once.  None when the shape does not allow it."""
    out: List[ast.stmt] = []
    for i, st in enumerate(stmts):
        if isinstance(st, ast.Return):
            out.extend(sink(st.value))
            b_ = ast.copy_location(ast.Break(), st)
            if not in_loop:
                b_._once_exit = True
            out.append(b_)
            return out  # anything after a return is dead
        if isinstance(st, (ast.FunctionDef, ast.AsyncFunctionDef, ast.ClassDef)) or not _has_return(st):
            out.append(st)
            continue
        if isinstance(st, (ast.For, ast.AsyncFor, ast.While)):
            if st.orelse or _user_breaks(st.body) or (isinstance(st, ast.While) and isinstance(st.test, ast.Constant)):
                return None
            body = _deliver_returns(st.body, sink, True)
            rest = _deliver_returns(list(stmts[i + 1:]), sink, in_loop)
            if body is None or rest is None:
                return None
            new = copy.copy(st)
            new.body = body
            if in_loop:
                new.orelse = rest + ([] if _ends(rest) else [ast.copy_location(ast.Continue(), st)])
                out.append(new)
                out.append(ast.copy_location(ast.Break(), st))
            else:
                new.orelse = rest
                out.append(new)
            return out
        if isinstance(st, ast.If):
            # a return under a condition: both arms continue with the rest of the block
            rest = list(stmts[i + 1:])
            body = _deliver_returns(list(st.body) + ([] if _ends(st.body) else copy.deepcopy(rest)), sink, in_loop)
            orelse = _deliver_returns(list(st.orelse) + ([] if (st.orelse and _ends(st.orelse)) else rest), sink, in_loop)
            if body is None or orelse is None:
                return None
            new = copy.copy(st)
            new.body = body or [ast.Pass()]
            new.orelse = orelse
            out.append(new)
            return out
        return None  # with / try around a return inside a loop nest: not attempted
    return out


def _once_convert(stmts: List[ast.stmt], sink, at: ast.AST) -> Optional[List[ast.stmt]]:
    """General fallback: the body runs inside a Once block, `return E` -> deliver E; break."""
    if _returns_in_loops(stmts):
        if any(isinstance(n, Once) for st in stmts for n in ast.walk(st)):
            return None  # a break out of a nested Once would be mistaken for ours
        nb = _deliver_returns(list(stmts), sink, False)
        if nb is None:
            return None
        if not _ends(list(stmts)) and not any(isinstance(x, (ast.For, ast.AsyncFor, ast.While)) and _has_return(x) for x in stmts):
            nb.extend(sink(None))
        elif not _ends(list(stmts)):
            # the statements after the first returning loop now live in its else clause: the fall-through value is delivered there
            def add_tail(block: List[ast.stmt]) -> None:
                for x in reversed(block):
                    if isinstance(x, (ast.For, ast.AsyncFor, ast.While)) and x.orelse is not None and any(isinstance(n, ast.Break) for n in ast.walk(x)):
                        if not _ends(x.orelse):
                            if x.orelse and isinstance(x.orelse[-1], (ast.For, ast.AsyncFor, ast.While)):
                                add_tail(x.orelse)
                            else:
                                x.orelse.extend(sink(None))
                        return
                    break
            add_tail(nb)
    else:
        nb = []
        for b in stmts:
            r = _RetToBreak(sink).visit(b)
            nb.extend(r if isinstance(r, list) else [r])
        if not _ends(list(stmts)):
            nb.extend(sink(None))
    o = Once(body=nb or [ast.Pass()])
    ast.copy_location(o, at)
    return [o]


_BASELINE_FUNCS: Optional[Set[str]] = None


def _baseline_functions() -> Set[str]:
    """module:function of the confirmed public surface (empty when the baseline file is missing: then nothing counts as new)."""
    global _BASELINE_FUNCS
    if _BASELINE_FUNCS is None:
        import json
        try:
            with open(os.path.join(os.path.dirname(os.path.abspath(__file__)), "baseline.json")) as f:
                _BASELINE_FUNCS = set(json.load(f).get("signatures", {}))
        except (OSError, ValueError):
            _BASELINE_FUNCS = None
            return {"*"}
    return _BASELINE_FUNCS


def _collect_helpers(tree: ast.Module, modname: str = "") -> Dict[Tuple[Optional[str], str], _Helper]:
    out: Dict[Tuple[Optional[str], str], _Helper] = {}
    # every function of a module under a `_private` package is private to the package, whatever its name (anchored ones excepted)
    private_module = "._private" in modname or modname.endswith("_private")
    exported: Set[str] = set()
    for st in tree.body:
        if isinstance(st, ast.Assign) and any(isinstance(t_, ast.Name) and t_.id == "__all__" for t_ in st.targets) and isinstance(st.value, (ast.List, ast.Tuple)):
            exported |= {e.value for e in st.value.elts if isinstance(e, ast.Constant) and isinstance(e.value, str)}
    for st in tree.body:
        # a module-level function that is not part of the confirmed public surface (sfa/baseline.json) and not exported: a helper introduced by a
        # change, whatever its name
        new_function = isinstance(st, ast.FunctionDef) and modname and not st.name.startswith("_") and f"{modname}:{st.name}" not in _baseline_functions() and st.name not in exported
        if isinstance(st, ast.FunctionDef) and _eligible(st, private_class=private_module or bool(new_function)):
            out[(None, st.name)] = _Helper(st, "func", None, "")
        if isinstance(st, ast.ClassDef):
            private_cls = st.name.startswith("_") and not st.name.startswith("__") and st.name not in anchors()
            for m in st.body:
                if isinstance(m, ast.FunctionDef) and _eligible(m, private_class=private_cls):
                    decos = [d.id for d in m.decorator_list if isinstance(d, ast.Name)]
                    kind = "static" if "staticmethod" in decos else ("class" if "classmethod" in decos else "method")
                    out[(st.name, m.name)] = _Helper(m, kind, st.name, "")
    return out


def _abs_module(mod: str, is_pkg: bool, level: int, name: Optional[str]) -> str:
    if level == 0:
        return name or ""
    base = mod.split(".")
    if not is_pkg:
        base = base[:-1]
    if level > 1:
        base = base[: len(base) - (level - 1)]
    return ".".join(base + ([name] if name else []))


def _top_names(tree: ast.Module) -> Set[str]:
    out: Set[str] = set()
    for st in ast.walk(tree):
        if isinstance(st, (ast.FunctionDef, ast.AsyncFunctionDef, ast.ClassDef)):
            continue
    for st in tree.body:
        stack = [st]
        while stack:
            s = stack.pop()
            if isinstance(s, (ast.FunctionDef, ast.AsyncFunctionDef, ast.ClassDef)):
                out.add(s.name)
            elif isinstance(s, (ast.Import, ast.ImportFrom)):
                for a in s.names:
                    out.add((a.asname or a.name).split(".")[0])
            elif isinstance(s, ast.Assign):
                for t in s.targets:
                    out.update(n.id for n in ast.walk(t) if isinstance(n, ast.Name))
            elif isinstance(s, (ast.AnnAssign, ast.AugAssign)):
                out.update(n.id for n in ast.walk(s.target) if isinstance(n, ast.Name))
            elif isinstance(s, (ast.If, ast.Try)):
                stack.extend(c for c in ast.iter_child_nodes(s) if isinstance(c, (ast.stmt, ast.ExceptHandler)))
            elif isinstance(s, ast.ExceptHandler):
                stack.extend(s.body)
    return out


def _local_types(fn: ast.FunctionDef, classes: Set[str]) -> Dict[str, str]:
    """Locals whose every assignment is `x = C(...)`, and parameters annotated `C` / "C", for the classes of this module."""
    out: Dict[str, Optional[str]] = {}
    a = fn.args
    for arg in a.posonlyargs + a.args + a.kwonlyargs:
        ann = arg.annotation
        nm = ann.id if isinstance(ann, ast.Name) else (ann.value if isinstance(ann, ast.Constant) and isinstance(ann.value, str) else None)
        if nm in classes:
            out[arg.arg] = nm
    for n in _own_nodes(fn):
        tgt = val = None
        if isinstance(n, ast.Assign) and len(n.targets) == 1 and isinstance(n.targets[0], ast.Name):
            tgt, val = n.targets[0].id, n.value
        elif isinstance(n, ast.AnnAssign) and isinstance(n.target, ast.Name) and n.value is not None:
            tgt, val = n.target.id, n.value
        elif isinstance(n, (ast.For, ast.comprehension)):
            for x in ast.walk(n.target):
                if isinstance(x, ast.Name):
                    out[x.id] = None
            continue
        elif isinstance(n, (ast.AugAssign,)) and isinstance(n.target, ast.Name):
            out[n.target.id] = None
            continue
        elif isinstance(n, (ast.Assign,)):
            for t in n.targets:
                for x in ast.walk(t):
                    if isinstance(x, ast.Name) and isinstance(x.ctx, ast.Store):
                        out[x.id] = None
            continue
        elif isinstance(n, ast.withitem) and n.optional_vars is not None:
            for x in ast.walk(n.optional_vars):
                if isinstance(x, ast.Name):
                    out[x.id] = None
            continue
        if tgt is None:
            continue
        c = val.func.id if isinstance(val, ast.Call) and isinstance(val.func, ast.Name) and val.func.id in classes else None
        if tgt in out and out[tgt] != c:
            out[tgt] = None
        elif tgt not in out:
            out[tgt] = c
    return {k: v for k, v in out.items() if v is not None}


class _Scope:
    """What a call inside one function may refer to."""

    def __init__(self, by_name: Dict[str, _Helper], by_class: Dict[Tuple[str, str], _Helper], cls_name: Optional[str], self_names: Set[str], local_types: Optional[Dict[str, str]] = None):
        self.by_name = by_name
        self.by_class = by_class
        self.cls_name = cls_name
        self.self_names = self_names
        self.local_types = local_types or {}  # local / parameter -> class it certainly is an instance of

    def match(self, call: ast.Call):
        f = call.func
        if isinstance(f, ast.Name) and f.id in self.by_name:
            return self.by_name[f.id], None
        if isinstance(f, ast.Attribute) and isinstance(f.value, ast.Name) and f"{f.value.id}.{f.attr}" in self.by_name:
            return self.by_name[f"{f.value.id}.{f.attr}"], None
        if isinstance(f, ast.Attribute) and isinstance(f.value, ast.Name):
            base = f.value.id
            for (c, n), h in self.by_class.items():
                if n != f.attr:
                    continue
                if (base in self.self_names and c == self.cls_name) or base == c:
                    if h.kind == "static":
                        return h, None
                    if h.kind == "method" and base in self.self_names:
                        return h, f.value
                    if h.kind == "class":
                        return h, f.value
            # <local>._helper(...): a private method of this module called on some other instance (e.g. instance = cls(); instance._h(x)):
            # accepted when the name is unique among the module's private helpers
            if base in self.local_types and base not in self.self_names:
                h = self.by_class.get((self.local_types[base], f.attr))
                if h is not None and h.kind == "method":
                    return h, f.value
            cands = [h for (c, n), h in self.by_class.items() if n == f.attr and h.kind == "method"]
            if len(cands) == 1 and f.attr.startswith("_") and base not in self.self_names:
                return cands[0], f.value
        return None, None


_BLOCK = object()


def _eval_order(e: ast.AST):
    """Impure nodes (calls etc.) of *e* in completion order; _BLOCK where evaluation becomes conditional."""
    if isinstance(e, ast.Call):
        yield from _eval_order(e.func)
        for a in e.args:
            yield from _eval_order(a)
        for k in e.keywords:
            yield from _eval_order(k.value)
        yield e
    elif isinstance(e, ast.BoolOp):
        yield from _eval_order(e.values[0])
        if any(isinstance(n, (ast.Call, ast.Await, ast.Yield, ast.YieldFrom, ast.NamedExpr)) for v in e.values[1:] for n in ast.walk(v)):
            yield _BLOCK
    elif isinstance(e, ast.IfExp):
        yield from _eval_order(e.test)
        if any(isinstance(n, (ast.Call, ast.Await, ast.Yield, ast.YieldFrom, ast.NamedExpr)) for v in (e.body, e.orelse) for n in ast.walk(v)):
            yield _BLOCK
    elif isinstance(e, (ast.Lambda,)):
        return
    elif isinstance(e, (ast.ListComp, ast.SetComp, ast.DictComp, ast.GeneratorExp)):
        yield from _eval_order(e.generators[0].iter)
        yield _BLOCK
    elif isinstance(e, (ast.Await, ast.Yield, ast.YieldFrom, ast.NamedExpr)):
        yield _BLOCK
    elif isinstance(e, ast.Compare) and len(e.ops) > 1:
        yield from _eval_order(e.left)
        yield from _eval_order(e.comparators[0])
        yield _BLOCK
    else:
        for c in ast.iter_child_nodes(e):
            if isinstance(c, ast.expr):
                yield from _eval_order(c)
            elif isinstance(c, (ast.keyword,)):
                yield from _eval_order(c.value)


def _inline_helpers(mod: str, tree: ast.Module, all_helpers, trees, pkgs: Set[str]) -> bool:
    own = all_helpers[mod]
    by_name: Dict[str, _Helper] = {n: h for (c, n), h in own.items() if c is None}
    by_class: Dict[Tuple[str, str], _Helper] = {(c, n): h for (c, n), h in own.items() if c is not None}
    top = _top_names(tree)
    # helpers imported from sibling modules
    for st in tree.body:
        if isinstance(st, ast.ImportFrom):
            src_mod = _abs_module(mod, mod in pkgs, st.level, st.module)
            if src_mod in all_helpers and src_mod != mod:
                for a in st.names:
                    h = all_helpers[src_mod].get((None, a.name))
                    if h is not None and h.free <= top:
                        by_name[a.asname or a.name] = h
                    elif h is not None and src_mod in trees:
                        # names of the helper's own module that this module does not have: usable when each is a module-level literal there
                        # (bound once), which is then written out in the inlined body
                        lits: Dict[str, ast.expr] = {}
                        for fr in h.free - top:
                            defs_ = [x for x in trees[src_mod].body if (isinstance(x, ast.Assign) and len(x.targets) == 1 and isinstance(x.targets[0], ast.Name) and x.targets[0].id == fr)
                                     or (isinstance(x, ast.AnnAssign) and isinstance(x.target, ast.Name) and x.target.id == fr and x.value is not None)]
                            stores_ = 1 + sum(1 for n_ in ast.walk(trees[src_mod]) if isinstance(n_, ast.Global) and fr in n_.names)  # class / function bodies bind their own names
                            if len(defs_) == 1 and stores_ == 1 and _pure_literal(defs_[0].value) and isinstance(defs_[0].value, (ast.Constant, ast.Tuple)):
                                lits[fr] = defs_[0].value
                        if lits and set(lits) == (h.free - top):
                            h2 = _Helper(h.node, h.kind, h.cls, h.module, owner=h.owner)
                            h2.qualify = lits
                            h2.free = h.free & top
                            by_name[a.asname or a.name] = h2
            # `from ._private import extensions` ... extensions.helper(..): the helper's own module-level names are written alias.name
            for a in st.names:
                sub = f"{src_mod}.{a.name}" if src_mod else a.name
                if sub in all_helpers and sub != mod and sub in trees:
                    alias = a.asname or a.name
                    their_top = _top_names(trees[sub])
                    for (c_, n_), h in all_helpers[sub].items():
                        if c_ is not None or not (h.free <= their_top):
                            continue
                        h2 = _Helper(h.node, h.kind, h.cls, h.module, owner=h.owner)
                        h2.qualify = {fr: ast.Attribute(value=ast.Name(id=alias, ctx=ast.Load()), attr=fr, ctx=ast.Load()) for fr in h.free}
                        h2.free = set()
                        by_name[f"{alias}.{n_}"] = h2
    changed = False

    def process_function(fn: ast.FunctionDef, cls_name: Optional[str], enclosing: List[ast.FunctionDef], visible_nested: Dict[str, _Helper]) -> None:
        nonlocal changed
        self_names: Set[str] = set()
        if cls_name is not None and not enclosing and fn.args.args:
            self_names.add(fn.args.args[0].arg)
        elif cls_name is not None and enclosing and enclosing[0].args.args:
            self_names.add(enclosing[0].args.args[0].arg)
        # nested helpers defined directly in this function
        nested_here: Dict[str, _Helper] = {}
        for n in _own_nodes(fn):
            if isinstance(n, ast.FunctionDef) and _eligible(n, nested=True):
                stores = sum(1 for x in _own_nodes(fn) if (isinstance(x, ast.Name) and x.id == n.name and isinstance(x.ctx, ast.Store)) or (isinstance(x, ast.FunctionDef) and x.name == n.name))
                if stores == 1:
                    nested_here[n.name] = _Helper(n, "nested", None, mod, owner=fn)
        visible = dict(visible_nested)
        visible.update(nested_here)
        names = dict(by_name)
        for nm in list(names):
            if nm in _locals_of(fn) or nm in _params_of(fn):
                del names[nm]  # shadowed
        names.update(visible)
        scope = _Scope(names, by_class, cls_name, self_names, _local_types(fn, {c for (c, _n) in by_class}))
        scope_locals: Set[str] = set(_locals_of(fn)) | set(_params_of(fn))
        for e in enclosing:
            scope_locals |= set(_locals_of(e)) | set(_params_of(e))
        own_locals = set(_locals_of(fn)) | set(_params_of(fn))

        def usable(h: _Helper) -> bool:
            if h.node is fn:
                return False
            if h.kind == "nested":
                if h.owner is fn:
                    return True
                return not (h.free & own_locals)
            return not (h.free & scope_locals)

        nested_lam = {n.name: n for n in ast.walk(fn) if isinstance(n, ast.FunctionDef) and n is not fn and _nested_expr_helper(n)}

        class Ref(ast.NodeTransformer):
            def visit_FunctionDef(self, node):
                return node if node is not fn else self.generic_visit(node)

            def visit_Call(self, node: ast.Call):
                self.generic_visit(node)
                for i, a in enumerate(node.args):
                    lam = self._as_lambda(a)
                    if lam is not None:
                        node.args[i] = lam
                for k in node.keywords:
                    lam = self._as_lambda(k.value)
                    if lam is not None:
                        k.value = lam
                return node

            def _as_lambda(self, a):
                nonlocal changed
                if isinstance(a, ast.Name):
                    if a.id in nested_lam:
                        src_fn = nested_lam[a.id]
                        body = _doc_stripped(src_fn.body)[0].value
                        if any(isinstance(c_, ast.Call) and scope.match(c_)[0] is not None and not scope.match(c_)[0].is_expr for c_ in ast.walk(body)):
                            return None  # its body still calls a statement helper: keep it a function, so that the helper can be spliced in
                        lam = ast.Lambda(args=_no_annotations(src_fn.args), body=copy.deepcopy(body))
                        changed = True
                        return ast.copy_location(lam, a)
                    h = scope.by_name.get(a.id)
                    if h is not None and h.kind == "func" and h.is_expr and not h.defaults and usable(h):
                        lam = ast.Lambda(args=_no_annotations(h.node.args), body=copy.deepcopy(h.body[0].value))
                        changed = True
                        return ast.copy_location(lam, a)
                return None

        Ref().visit(fn)

        class Expr(ast.NodeTransformer):
            def visit_FunctionDef(self, node):
                return node if node is not fn else self.generic_visit(node)

            def visit_Call(self, node: ast.Call):
                nonlocal changed
                self.generic_visit(node)
                h, recv = scope.match(node)
                if h is None or not h.is_expr or not usable(h):
                    return node
                b = h.bind(node, recv)
                if b is None:
                    return node
                for p, a in b.items():
                    if not _simple(a) and _uses(h.body, p) != 1:
                        return node
                new = _Subst(b, {}).visit(copy.deepcopy(h.body[0].value))
                changed = True
                return ast.copy_location(new, node)

        Expr().visit(fn)

        def stmt_helper_call(e: Optional[ast.AST]):
            if isinstance(e, ast.Call):
                h, recv = scope.match(e)
                if h is not None and not h.is_expr and usable(h):
                    return h, recv
                # next(gen_helper(..), <constant>): the first value the generator yields, else the constant - a function whose
                # `yield E` is `return E` and whose end is `return <constant>`
                if isinstance(e.func, ast.Name) and e.func.id == "next" and len(e.args) == 2 and not e.keywords and isinstance(e.args[0], ast.Call) \
                        and (isinstance(e.args[1], ast.Constant) or (isinstance(e.args[1], ast.Tuple) and all(isinstance(x_, ast.Constant) for x_ in e.args[1].elts))):
                    h, recv = scope.match(e.args[0])
                    if h is not None and h.is_gen and usable(h):
                        d = _first_of(h, e.args[1])
                        if d is not None:
                            _bindcall[id(e)] = e.args[0]
                            return d, recv
            return None, None

        def hoist(st: ast.stmt) -> List[ast.stmt]:
            """`x = g(h(a))` -> `t = h(a); x = g(t)` when h(a) is the first call evaluated by the statement."""
            nonlocal changed
            exprs: List[Tuple[ast.AST, str]] = []
            if isinstance(st, ast.Expr) and isinstance(st.value, ast.Yield) and st.value.value is not None:
                exprs = [(st.value, "value")]  # the yielded value is computed first, then yielded
            elif isinstance(st, ast.Expr):
                if isinstance(st.value, ast.Call) or (isinstance(st.value, ast.YieldFrom) and isinstance(st.value.value, ast.Call)):
                    inner = st.value if isinstance(st.value, ast.Call) else st.value.value
                    if stmt_helper_call(inner)[0] is not None:
                        return [st]
                exprs = [(st, "value")]
            elif isinstance(st, ast.Assign):
                if len(st.targets) == 1 and stmt_helper_call(st.value)[0] is not None:
                    return [st]
                if not all(isinstance(t, ast.Name) or _simple(t) for t in st.targets) and not (
                        len(st.targets) == 1 and isinstance(st.targets[0], ast.Subscript) and _simple(st.targets[0].value) and _simple(st.value)):
                    return [st]
                exprs = [(st, "value")]
            elif isinstance(st, ast.AnnAssign):
                if st.value is None or stmt_helper_call(st.value)[0] is not None:
                    return [st]
                exprs = [(st, "value")]
            elif isinstance(st, ast.AugAssign):
                if not isinstance(st.target, ast.Name):
                    return [st]
                exprs = [(st, "value")]
            elif isinstance(st, ast.Return):
                if st.value is None or stmt_helper_call(st.value)[0] is not None:
                    return [st]
                exprs = [(st, "value")]
            elif isinstance(st, ast.If):
                exprs = [(st, "test")]
            elif isinstance(st, ast.For):
                exprs = [(st, "iter")]  # evaluated once, before the first iteration
            elif isinstance(st, ast.Delete) and len(st.targets) == 1 and isinstance(st.targets[0], ast.Subscript) and _simple(st.targets[0].value):
                exprs = [(st.targets[0], "slice")]
            else:
                return [st]
            holder, fld = exprs[0]
            if isinstance(st, ast.Assign) and len(st.targets) == 1 and isinstance(st.targets[0], ast.Subscript) and _simple(st.targets[0].value) and _simple(st.value):
                # self[h(x)] = v : the value and the container are plain names, so the key expression is the first call evaluated
                holder, fld = st.targets[0], "slice"
            e = getattr(holder, fld)
            # the first helper call the statement evaluates: everything that completes before it must be part of its own arguments
            # (those calls move along with it)
            first = None
            earlier: List[ast.AST] = []
            for it_ in _eval_order(e):
                if it_ is _BLOCK:
                    break
                if stmt_helper_call(it_)[0] is not None:
                    inside = {id(n) for n in ast.walk(it_)}
                    if all(id(x) in inside for x in earlier):
                        first = it_
                    break
                earlier.append(it_)
            if first is None:
                return [st]
            h, _ = stmt_helper_call(first)
            if h is None or h.is_gen:
                return [st]
            _counter[0] += 1
            tmp = f"_ret__inl{_counter[0]}"

            class Rep(ast.NodeTransformer):
                def visit_Call(self, node):
                    if node is first:
                        return ast.copy_location(ast.Name(id=tmp, ctx=ast.Load()), node)
                    return self.generic_visit(node)

                def visit_Lambda(self, node):
                    return node

            setattr(holder, fld, Rep().visit(e))
            pre = ast.copy_location(ast.Assign(targets=[ast.Name(id=tmp, ctx=ast.Store())], value=first), st)
            ast.fix_missing_locations(pre)
            changed = True
            return [pre, st]

        def _for_over_tail_yield(st: ast.For, h: _Helper, recv) -> Optional[List[ast.stmt]]:
            """The consuming body leaves or continues its loop.  That is still the generator's own loop when the generator is
            `PRE...; for x in it: ...; yield E` with the single yield as the last thing an iteration does and nothing after the loop:
            `for T in gen(..): BODY` is then `PRE...; for x in it: ...; T = E; BODY` (break / continue / return in BODY mean the same)."""
            own = list(_own_nodes(h.node))
            if any(isinstance(n, (ast.Return, ast.YieldFrom, ast.Try, ast.With)) for n in own):
                return None
            ys = [n for n in own if isinstance(n, ast.Yield)]
            if not ys or any(y.value is None for y in ys):
                return None
            body = list(h.body)
            if not body or not isinstance(body[-1], ast.For) or body[-1].orelse or any(isinstance(n, (ast.Yield, ast.For, ast.While)) for x in body[:-1] for n in ast.walk(x)):
                return None
            loop = body[-1]

            def has_yield(x) -> bool:
                return any(isinstance(n, ast.Yield) for n in ast.walk(x))

            def tail_yield(stmts) -> bool:
                # every yield is the last thing its path through the iteration does
                for i, x in enumerate(stmts):
                    if not has_yield(x):
                        continue
                    if i != len(stmts) - 1:
                        return False
                    if isinstance(x, ast.Expr) and isinstance(x.value, ast.Yield):
                        return True
                    if isinstance(x, ast.If) and not has_yield(x.test):
                        return tail_yield(x.body) and tail_yield(x.orelse)
                    return False
                return True

            if not tail_yield(loop.body) or any(isinstance(n, (ast.Break, ast.For, ast.While)) for x in loop.body for n in ast.walk(x)):
                return None
            b = h.bind(st.iter, recv)
            if b is None:
                return None
            _counter[0] += 1
            suffix = f"__inl{_counter[0]}"
            pre: List[ast.stmt] = []
            mapping: Dict[str, ast.expr] = {}
            body_stores = {n.id for x in st.body for n in ast.walk(x) if isinstance(n, ast.Name) and isinstance(n.ctx, ast.Store)}
            for p_, a in b.items():
                if _simple(a) and p_ not in h.locals and not (isinstance(a, ast.Name) and a.id in body_stores):
                    mapping[p_] = a
                else:
                    tmp = p_ + suffix
                    pre.append(ast.copy_location(ast.Assign(targets=[ast.Name(id=tmp, ctx=ast.Store())], value=copy.deepcopy(a)), st))
                    mapping[p_] = ast.Name(id=tmp, ctx=ast.Load())
            imported = {(a_.asname or a_.name).split(".")[0] for n_ in ast.walk(h.node) if isinstance(n_, (ast.Import, ast.ImportFrom)) for a_ in n_.names}
            rename = {n: n + suffix for n in h.locals if n not in imported}
            for p_ in b:
                if p_ in h.locals:
                    rename[p_] = p_ + suffix
                    mapping.pop(p_, None)
            body_copy = [_Subst(mapping, rename).visit(copy.deepcopy(x)) for x in h.body]

            class Y(ast.NodeTransformer):
                def visit_FunctionDef(self, node):
                    return node

                def visit_Lambda(self, node):
                    return node

                def visit_Expr(self, node: ast.Expr):
                    if isinstance(node.value, ast.Yield):
                        tgt = copy.deepcopy(st.target)
                        for n in ast.walk(tgt):
                            if hasattr(n, "ctx"):
                                n.ctx = ast.Store()
                        asg = ast.copy_location(ast.Assign(targets=[tgt], value=node.value.value), st)
                        return [asg] + [copy.deepcopy(x) for x in st.body]
                    return node

            res: List[ast.stmt] = []
            for x in body_copy:
                r = Y().visit(x)
                res.extend(r if isinstance(r, list) else [r])
            return pre + res

        def _for_over_generator(st: ast.For, h: _Helper, recv) -> Optional[List[ast.stmt]]:
            def binds_to_this_loop(stmts) -> bool:
                # break / continue / return / yield that belong to the consuming loop (not to a loop nested in its body)
                for x in stmts:
                    if isinstance(x, (ast.Break, ast.Continue, ast.Return)):
                        return True
                    if isinstance(x, (ast.FunctionDef, ast.AsyncFunctionDef, ast.ClassDef)):
                        continue
                    if any(isinstance(n, (ast.Yield, ast.YieldFrom, ast.Return)) for n in ast.walk(x) if not isinstance(n, (ast.FunctionDef, ast.Lambda))):
                        return True
                    if isinstance(x, (ast.For, ast.While)):
                        if binds_to_this_loop(x.orelse):
                            return True
                        continue
                    for fld in ("body", "orelse", "finalbody"):
                        sub = getattr(x, fld, None)
                        if isinstance(sub, list) and sub and isinstance(sub[0], ast.stmt) and binds_to_this_loop(sub):
                            return True
                    for hd in getattr(x, "handlers", []):
                        if binds_to_this_loop(hd.body):
                            return True
                return False

            if binds_to_this_loop(st.body):
                return _for_over_tail_yield(st, h, recv)
            own = list(_own_nodes(h.node))
            if any(isinstance(n, (ast.Return, ast.YieldFrom, ast.Try, ast.With)) for n in own):
                return None
            yields = [n for n in own if isinstance(n, ast.Yield)]
            stmts_y = [n for n in own if isinstance(n, ast.Expr) and isinstance(n.value, ast.Yield) and n.value.value is not None]
            if not yields or len(yields) != len(stmts_y):
                return None
            b = h.bind(st.iter, recv)
            if b is None:
                return None
            _counter[0] += 1
            suffix = f"__inl{_counter[0]}"
            pre: List[ast.stmt] = []
            mapping: Dict[str, ast.expr] = {}
            for p_, a in b.items():
                if _simple(a) and p_ not in h.locals and not any(isinstance(n, ast.Name) and isinstance(n.ctx, ast.Store) and isinstance(a, ast.Name) and n.id == a.id for x in st.body for n in ast.walk(x)):
                    mapping[p_] = a
                else:
                    tmp = p_ + suffix
                    pre.append(ast.copy_location(ast.Assign(targets=[ast.Name(id=tmp, ctx=ast.Store())], value=copy.deepcopy(a)), st))
                    mapping[p_] = ast.Name(id=tmp, ctx=ast.Load())
            imported = {(a_.asname or a_.name).split(".")[0] for n_ in ast.walk(h.node) if isinstance(n_, (ast.Import, ast.ImportFrom)) for a_ in n_.names}
            rename = {n: n + suffix for n in h.locals if n not in imported}
            for p_ in b:
                if p_ in h.locals:
                    rename[p_] = p_ + suffix
                    mapping.pop(p_, None)
            body_copy = [_Subst(mapping, rename).visit(copy.deepcopy(x)) for x in h.body]

            class Y(ast.NodeTransformer):
                def visit_FunctionDef(self, node):
                    return node

                def visit_Lambda(self, node):
                    return node

                def visit_Expr(self, node: ast.Expr):
                    if isinstance(node.value, ast.Yield):
                        tgt = copy.deepcopy(st.target)
                        for n in ast.walk(tgt):
                            if isinstance(n, (ast.Name, ast.Tuple, ast.List, ast.Starred, ast.Attribute, ast.Subscript)) and hasattr(n, "ctx"):
                                n.ctx = ast.Store()
                        asg = ast.copy_location(ast.Assign(targets=[tgt], value=node.value.value), st)
                        return [asg] + [copy.deepcopy(x) for x in st.body]
                    return node

            res: List[ast.stmt] = []
            for x in body_copy:
                r = Y().visit(x)
                res.extend(r if isinstance(r, list) else [r])
            return pre + res

        def rewrite_block(body: List[ast.stmt]) -> List[ast.stmt]:
            nonlocal changed
            out: List[ast.stmt] = []
            queue = list(body)
            guard = 0
            while queue:
                st = queue.pop(0)
                if isinstance(st, (ast.FunctionDef, ast.AsyncFunctionDef, ast.ClassDef)):
                    out.append(st)
                    continue
                for fld in ("body", "orelse", "finalbody"):
                    sub = getattr(st, fld, None)
                    if isinstance(sub, list) and sub and isinstance(sub[0], ast.stmt):
                        setattr(st, fld, rewrite_block(sub))
                for h_ in getattr(st, "handlers", []):
                    h_.body = rewrite_block(h_.body)
                hs = hoist(st)
                if len(hs) == 2 and guard < 50:
                    guard += 1
                    queue[0:0] = hs
                    continue
                call = None
                mode = None
                if isinstance(st, ast.Expr) and isinstance(st.value, ast.Call):
                    call, mode = st.value, "discard"
                elif isinstance(st, ast.Expr) and isinstance(st.value, ast.YieldFrom) and isinstance(st.value.value, ast.Call):
                    call, mode = st.value.value, "yieldfrom"
                elif isinstance(st, ast.Assign) and len(st.targets) == 1 and isinstance(st.value, ast.Call):
                    call, mode = st.value, "assign"
                elif isinstance(st, ast.AnnAssign) and st.value is not None and isinstance(st.value, ast.Call) and isinstance(st.target, ast.Name):
                    call, mode = st.value, "annassign"
                elif isinstance(st, ast.Return) and isinstance(st.value, ast.Call):
                    call, mode = st.value, "return"
                if isinstance(st, ast.For) and not st.orelse and isinstance(st.iter, ast.Call) and guard < 50:
                    # for X in gen_helper(..): BODY  ==>  the generator's body with every `yield E` replaced by `X = E; BODY`
                    h, recv = stmt_helper_call(st.iter)
                    conv = _for_over_generator(st, h, recv) if h is not None and h.is_gen else None
                    if conv is not None:
                        for x in conv:
                            for sub_ in ast.walk(x):
                                if isinstance(sub_, (ast.stmt, ast.expr, ast.ExceptHandler)) and not hasattr(sub_, "lineno"):
                                    ast.copy_location(sub_, st)
                        out.extend(rewrite_block(conv))
                        guard += 1
                        changed = True
                        continue
                if call is not None:
                    h, recv = stmt_helper_call(call)
                    if h is not None and mode == "yieldfrom" and not h.is_gen:
                        mode = "yieldfrom_value"  # yield from f(x), f an ordinary function: every `return E` of f is `yield from E`
                    if h is not None and (h.is_gen == (mode == "yieldfrom")):
                        b = h.bind(_bindcall.get(id(call), call), recv)
                        if b is not None:
                            _counter[0] += 1
                            suffix = f"__inl{_counter[0]}"
                            pre: List[ast.stmt] = []
                            mapping: Dict[str, ast.expr] = {}
                            for p_, a in b.items():
                                if (_simple(a) or (_empty_display(a) and _never_mutated(h.node, p_))) and p_ not in h.locals:
                                    mapping[p_] = a
                                else:
                                    tmp = p_ + suffix
                                    pre.append(ast.copy_location(ast.Assign(targets=[ast.Name(id=tmp, ctx=ast.Store())], value=copy.deepcopy(a)), st))
                                    if p_ in h.locals:
                                        pass
                                    mapping[p_] = ast.Name(id=tmp, ctx=ast.Load())
                            imported = {(a_.asname or a_.name).split(".")[0] for n_ in ast.walk(h.node) if isinstance(n_, (ast.Import, ast.ImportFrom)) for a_ in n_.names}
                            rename = {n: n + suffix for n in h.locals if n not in imported}
                            for p_ in b:
                                if p_ in h.locals:
                                    rename[p_] = p_ + suffix
                                    mapping.pop(p_, None)

                            def sink(value, _st=st, _mode=mode):
                                if _mode == "yieldfrom_value":
                                    if value is None or (isinstance(value, (ast.Tuple, ast.List)) and not value.elts):
                                        return []  # nothing to yield from None would be an error in the original too; () yields nothing
                                    y = ast.Expr(value=ast.YieldFrom(value=value))
                                    return [ast.copy_location(y, _st)]
                                if _mode in ("discard", "yieldfrom"):
                                    return [] if value is None or isinstance(value, ast.Constant) else [ast.copy_location(ast.Expr(value=value), _st)]
                                v = value if value is not None else ast.Constant(value=None)
                                if _mode == "assign":
                                    return [ast.copy_location(ast.Assign(targets=copy.deepcopy(_st.targets), value=v), _st)]
                                if _mode == "annassign":
                                    return [ast.copy_location(ast.Assign(targets=[copy.deepcopy(_st.target)], value=v), _st)]
                                return [ast.copy_location(ast.Return(value=v), _st)]

                            body_copy = [_Subst(mapping, rename).visit(copy.deepcopy(x)) for x in h.body]
                            if mode == "yieldfrom" and any(isinstance(n, ast.Return) and n.value is not None for x in body_copy for n in ast.walk(x)):
                                conv = None
                            elif mode == "return" and not _returns_in_loops(body_copy) or mode == "return":
                                # the helper's returns are the caller's returns
                                conv = list(body_copy)
                                if not _ends(conv):
                                    conv.append(ast.copy_location(ast.Return(value=ast.Constant(value=None)), st))
                            else:
                                conv = _tail_convert(body_copy, sink)
                                if conv is None:
                                    body_copy = [_Subst(mapping, rename).visit(copy.deepcopy(x)) for x in h.body]
                                    conv = _once_convert(body_copy, sink, st)
                            if conv is not None:
                                for x in pre + conv:
                                    for sub_ in ast.walk(x):
                                        if isinstance(sub_, (ast.stmt, ast.expr, ast.ExceptHandler)) and not hasattr(sub_, "lineno"):
                                            ast.copy_location(sub_, st)
                                # the spliced body may itself call helpers
                                out.extend(pre)
                                out.extend(rewrite_block(conv) if guard < 50 else conv)
                                guard += 1
                                changed = True
                                continue
                out.append(st)
            return out

        fn.body = rewrite_block(fn.body)
        for n in _own_nodes(fn):
            if isinstance(n, ast.FunctionDef):
                process_function(n, cls_name, enclosing + [fn], visible)

    for st in tree.body:
        if isinstance(st, ast.FunctionDef):
            process_function(st, None, [], {})
        elif isinstance(st, ast.ClassDef):
            for m in st.body:
                if isinstance(m, ast.FunctionDef):
                    process_function(m, st.name, [], {})
    return changed


def _drop_dead_helpers(trees: Dict[str, ast.Module]) -> None:
    """A non-anchor private helper (or nested def) that is no longer referenced anywhere after inlining is removed:
    its statements now live in its callers and are judged there."""
    refs: Dict[str, int] = {}
    for t in trees.values():
        for n in ast.walk(t):
            if isinstance(n, ast.Name) and isinstance(n.ctx, ast.Load):
                refs[n.id] = refs.get(n.id, 0) + 1
            elif isinstance(n, ast.Attribute):
                refs[n.attr] = refs.get(n.attr, 0) + 1
            elif isinstance(n, ast.Constant) and isinstance(n.value, str) and n.value.isidentifier():
                refs[n.value] = refs.get(n.value, 0) + 1

    name_refs: Dict[str, int] = {}
    for t in trees.values():
        for n in ast.walk(t):
            if isinstance(n, ast.Name):
                name_refs[n.id] = name_refs.get(n.id, 0) + 1
            elif isinstance(n, ast.Constant) and isinstance(n.value, str) and n.value.isidentifier():
                name_refs[n.value] = name_refs.get(n.value, 0) + 1
            elif isinstance(n, ast.alias):
                name_refs[n.name] = name_refs.get(n.name, 0) + 1

    def prune(body: List[ast.stmt], nested: bool) -> None:
        for st in list(body):
            if isinstance(st, ast.FunctionDef) and _eligible(st, nested=nested) and refs.get(st.name, 0) == 0:
                body.remove(st)
                continue
            if isinstance(st, ast.ClassDef) and not nested and st.name.startswith("_") and not st.name.startswith("__") and st.name not in anchors() and name_refs.get(st.name, 0) == 0 \
                    and not st.decorator_list:
                body.remove(st)  # a private class nobody names any more (its objects were dissolved into closures)
                continue
            if isinstance(st, ast.ClassDef):
                prune(st.body, False)
            elif isinstance(st, ast.FunctionDef):
                for holder in ast.walk(st):
                    for fld in ("body", "orelse", "finalbody"):
                        sub = getattr(holder, fld, None)
                        if isinstance(sub, list) and sub and isinstance(sub[0], ast.stmt) and any(isinstance(x, ast.FunctionDef) for x in sub):
                            for x in list(sub):
                                # a nested function can only be reached through its name in the enclosing function
                                local_refs = sum(1 for n_ in ast.walk(st) if isinstance(n_, ast.Name) and n_.id == x.name and isinstance(n_.ctx, ast.Load)) if isinstance(x, ast.FunctionDef) else 1
                                uses_locals = isinstance(x, ast.FunctionDef) and any(isinstance(n_, ast.Call) and isinstance(n_.func, ast.Name) and n_.func.id in ("locals", "vars", "eval", "exec") for n_ in ast.walk(st))
                                if isinstance(x, ast.FunctionDef) and x.name not in anchors() and not x.decorator_list and local_refs == 0 and not uses_locals:
                                    sub.remove(x)
                            if not sub:
                                sub.append(ast.copy_location(ast.Pass(), holder))
        if not body:
            body.append(ast.Pass())

    for t in trees.values():
        prune(t.body, False)
