"""
Load-time normal form.  Everything here is semantics-preserving and exists so
that the rules need to know one spelling only:

  * `tmp = E; return tmp`                      -> `return E`
  * `isinstance(x, (A, B))`                    -> `isinstance(x, A) or isinstance(x, B)`
  * calls of *new* private helpers (functions whose name is not one of the
    definitions the repository has today, see anchors.txt) are inlined into
    their callers, so that an "extract helper" refactoring is transparent:
      - a helper that is a single `return <expr>` is substituted as an expression
        (also when passed by reference: `reduce(_lcm, ...)` -> `reduce(lambda a, b: ..., ...)`)
      - a helper whose returns are all in tail position is spliced in as statements
        at `f(...)`, `x = f(...)` and `return f(...)` call statements.
"""
from __future__ import annotations

import ast
import copy
import os
from typing import Dict, List, Optional, Set, Tuple

_ANCHORS: Optional[Set[str]] = None


def anchors() -> Set[str]:
    global _ANCHORS
    if _ANCHORS is None:
        p = os.path.join(os.path.dirname(os.path.abspath(__file__)), "anchors.txt")
        with open(p) as f:
            _ANCHORS = {l.strip() for l in f if l.strip()}
    return _ANCHORS


def normalise(tree: ast.Module) -> None:
    _iso(tree)
    inlined = False
    for _ in range(3):  # helpers calling helpers
        if not _inline_helpers(tree):
            break
        inlined = True
    if inlined:
        _fold_constant_ifs(tree)  # a flag parameter bound to True/False at the call site
    _return_temp(tree)
    ast.fix_missing_locations(tree)


# ---------------------------------------------------------------------------


def _iso(tree: ast.Module) -> None:
    class T(ast.NodeTransformer):
        def visit_Call(self, node: ast.Call):
            self.generic_visit(node)
            if (isinstance(node.func, ast.Name) and node.func.id == "isinstance" and len(node.args) == 2 and not node.keywords
                    and isinstance(node.args[1], ast.Tuple) and len(node.args[1].elts) >= 2 and isinstance(node.args[0], (ast.Name, ast.Attribute))):
                vals = []
                for e in node.args[1].elts:
                    c = ast.Call(func=ast.Name(id="isinstance", ctx=ast.Load()), args=[copy.deepcopy(node.args[0]), e], keywords=[])
                    ast.copy_location(c, node)
                    ast.fix_missing_locations(c)
                    vals.append(c)
                b = ast.BoolOp(op=ast.Or(), values=vals)
                ast.copy_location(b, node)
                return b
            return node

    T().visit(tree)


def _fold_constant_ifs(tree: ast.Module) -> None:
    for holder in ast.walk(tree):
        for fld in ("body", "orelse", "finalbody"):
            body = getattr(holder, fld, None)
            if not (isinstance(body, list) and body and isinstance(body[0], ast.stmt)):
                continue
            out: List[ast.stmt] = []
            changed = False
            for st in body:
                if isinstance(st, ast.If) and isinstance(st.test, ast.Constant):
                    out.extend(st.body if st.test.value else st.orelse)
                    changed = True
                else:
                    out.append(st)
            if changed:
                setattr(holder, fld, out or [ast.copy_location(ast.Pass(), body[0])])


def _return_temp(tree: ast.Module) -> None:
    for fn in [n for n in ast.walk(tree) if isinstance(n, (ast.FunctionDef, ast.AsyncFunctionDef))]:
        counts: Dict[str, int] = {}
        assigned: Dict[str, int] = {}
        for n in ast.walk(fn):
            if isinstance(n, ast.Name):
                counts[n.id] = counts.get(n.id, 0) + 1
                if isinstance(n.ctx, ast.Store):
                    assigned[n.id] = assigned.get(n.id, 0) + 1
        for holder in ast.walk(fn):
            for fld in ("body", "orelse", "finalbody"):
                body = getattr(holder, fld, None)
                if not (isinstance(body, list) and body and isinstance(body[0], ast.stmt)):
                    continue
                i = 0
                while i + 1 < len(body):
                    a, r = body[i], body[i + 1]
                    if (isinstance(a, ast.Assign) and len(a.targets) == 1 and isinstance(a.targets[0], ast.Name) and isinstance(r, ast.Return)
                            and isinstance(r.value, ast.Name) and r.value.id == a.targets[0].id):
                        t = a.targets[0].id
                        if counts.get(t, 0) == 2 * assigned.get(t, 0):
                            new = ast.Return(value=a.value)
                            ast.copy_location(new, a)
                            new.end_lineno = getattr(r, "end_lineno", None)
                            body[i:i + 2] = [new]
                            continue
                    i += 1


# ---------------------------------------------------------------------------
# helper inlining


def _doc_stripped(body: List[ast.stmt]) -> List[ast.stmt]:
    if body and isinstance(body[0], ast.Expr) and isinstance(body[0].value, ast.Constant) and isinstance(body[0].value.value, str):
        return body[1:]
    return body


def _simple(e: ast.expr) -> bool:
    return isinstance(e, (ast.Name, ast.Constant)) or (isinstance(e, ast.Attribute) and _simple(e.value))


class _Helper:
    def __init__(self, node: ast.FunctionDef, kind: str, cls: Optional[str]):
        self.node = node
        self.kind = kind  # "func" | "method" | "static" | "class"
        self.cls = cls
        self.body = _doc_stripped(node.body)
        a = node.args
        self.params = [x.arg for x in a.posonlyargs + a.args]
        self.kwonly = [x.arg for x in a.kwonlyargs]
        self.defaults: Dict[str, ast.expr] = {}
        pos = a.posonlyargs + a.args
        for arg, d in zip(pos[len(pos) - len(a.defaults):], a.defaults):
            self.defaults[arg.arg] = d
        for arg, d in zip(a.kwonlyargs, a.kw_defaults):
            if d is not None:
                self.defaults[arg.arg] = d
        self.is_expr = len(self.body) == 1 and isinstance(self.body[0], ast.Return) and self.body[0].value is not None

    def bind(self, call: ast.Call, receiver: Optional[ast.expr]) -> Optional[Dict[str, ast.expr]]:
        params = list(self.params)
        out: Dict[str, ast.expr] = {}
        if self.kind in ("method", "class"):
            if not params:
                return None
            if receiver is None:
                return None
            out[params[0]] = receiver
            params = params[1:]
        if any(isinstance(a, ast.Starred) for a in call.args) or any(k.arg is None for k in call.keywords):
            return None
        if len(call.args) > len(params):
            return None
        for p, a in zip(params, call.args):
            out[p] = a
        for k in call.keywords:
            if k.arg in out or k.arg not in params + self.kwonly:
                return None
            out[k.arg] = k.value
        for p in params + self.kwonly:
            if p not in out:
                if p in self.defaults:
                    out[p] = self.defaults[p]
                else:
                    return None
        return out


def _eligible(fn: ast.FunctionDef) -> bool:
    if fn.name in anchors() or not fn.name.startswith("_") or (fn.name.startswith("__") and fn.name.endswith("__")):
        return False
    a = fn.args
    if a.vararg or a.kwarg:
        return False
    for d in fn.decorator_list:
        if not (isinstance(d, ast.Name) and d.id in ("staticmethod", "classmethod")):
            return False
    for n in ast.walk(fn):
        if n is fn:
            continue
        if isinstance(n, (ast.FunctionDef, ast.AsyncFunctionDef, ast.ClassDef, ast.Yield, ast.YieldFrom, ast.Await, ast.Global, ast.Nonlocal, ast.Lambda)):
            if not isinstance(n, ast.Lambda):
                return False
    return True


def _nested_expr_helper(fn: ast.FunctionDef) -> bool:
    """A nested `def key(x): return <expr>` that is new (not an anchor) may be turned into a lambda at its uses."""
    if fn.name in anchors():
        return False
    body = _doc_stripped(fn.body)
    a = fn.args
    return len(body) == 1 and isinstance(body[0], ast.Return) and body[0].value is not None and not (a.vararg or a.kwarg or a.kwonlyargs or a.defaults) and not fn.decorator_list


class _Subst(ast.NodeTransformer):
    def __init__(self, mapping: Dict[str, ast.expr], rename: Dict[str, str]):
        self.mapping = mapping
        self.rename = rename

    def visit_Name(self, n: ast.Name):
        if n.id in self.mapping and isinstance(n.ctx, ast.Load):
            return copy.deepcopy(self.mapping[n.id])
        if n.id in self.rename:
            return ast.copy_location(ast.Name(id=self.rename[n.id], ctx=n.ctx), n)
        return n

    def visit_ExceptHandler(self, n: ast.ExceptHandler):
        self.generic_visit(n)
        if n.name in self.rename:
            n.name = self.rename[n.name]
        return n


_counter = [0]


def _locals_of(fn: ast.FunctionDef) -> Set[str]:
    out: Set[str] = set()
    for n in ast.walk(fn):
        if isinstance(n, ast.Name) and isinstance(n.ctx, (ast.Store, ast.Del)):
            out.add(n.id)
        if isinstance(n, ast.ExceptHandler) and n.name:
            out.add(n.name)
    return out


def _uses(fn_body: List[ast.stmt], name: str) -> int:
    return sum(1 for st in fn_body for n in ast.walk(st) if isinstance(n, ast.Name) and n.id == name and isinstance(n.ctx, ast.Load))


def _ends(stmts: List[ast.stmt]) -> bool:
    """Every path through the block ends in return/raise."""
    if not stmts:
        return False
    last = stmts[-1]
    if isinstance(last, (ast.Return, ast.Raise)):
        return True
    if isinstance(last, ast.If):
        return bool(last.orelse) and _ends(last.body) and _ends(last.orelse)
    return False


def _has_return(st: ast.AST) -> bool:
    return any(isinstance(n, ast.Return) for n in ast.walk(st))


def _tail_convert(stmts: List[ast.stmt], sink) -> Optional[List[ast.stmt]]:
    """Rewrite a block whose returns are all in tail position into return-free statements delivering values to *sink*."""
    out: List[ast.stmt] = []
    for i, st in enumerate(stmts):
        if isinstance(st, ast.Return):
            out.extend(sink(st.value))
            return out
        if isinstance(st, ast.If) and _has_return(st):
            body = _tail_convert(st.body, sink)
            if body is None:
                return None
            if st.orelse:
                if _ends(st.body) and _ends(st.orelse):
                    orelse = _tail_convert(st.orelse, sink)
                    if orelse is None:
                        return None
                    out.append(ast.copy_location(ast.If(test=st.test, body=body or [ast.Pass()], orelse=orelse), st))
                    return out
                if _ends(st.body) and not any(_has_return(x) for x in st.orelse):
                    rest = _tail_convert(list(st.orelse) + list(stmts[i + 1:]), sink)
                    if rest is None:
                        return None
                    out.append(ast.copy_location(ast.If(test=st.test, body=body or [ast.Pass()], orelse=rest), st))
                    return out
                if _ends(st.orelse) and not any(_has_return(x) for x in st.body):
                    orelse = _tail_convert(st.orelse, sink)
                    rest = _tail_convert(list(st.body) + list(stmts[i + 1:]), sink)
                    if orelse is None or rest is None:
                        return None
                    out.append(ast.copy_location(ast.If(test=st.test, body=rest or [ast.Pass()], orelse=orelse), st))
                    return out
                return None
            if _ends(st.body):
                rest = _tail_convert(list(stmts[i + 1:]), sink)
                if rest is None:
                    return None
                out.append(ast.copy_location(ast.If(test=st.test, body=body or [ast.Pass()], orelse=rest), st))
                return out
            return None
        if _has_return(st):
            return None  # return inside a loop / try / with
        out.append(st)
    if not _ends(list(stmts)):
        out.extend(sink(None))
    return out


def _collect_helpers(tree: ast.Module) -> Dict[Tuple[Optional[str], str], _Helper]:
    out: Dict[Tuple[Optional[str], str], _Helper] = {}
    for st in tree.body:
        if isinstance(st, ast.FunctionDef) and _eligible(st):
            out[(None, st.name)] = _Helper(st, "func", None)
        if isinstance(st, ast.ClassDef):
            for m in st.body:
                if isinstance(m, ast.FunctionDef) and _eligible(m):
                    decos = [d.id for d in m.decorator_list if isinstance(d, ast.Name)]
                    kind = "static" if "staticmethod" in decos else ("class" if "classmethod" in decos else "method")
                    out[(st.name, m.name)] = _Helper(m, kind, st.name)
    return out


def _match_call(call: ast.Call, helpers, cls_name: Optional[str], self_names: Set[str]):
    f = call.func
    if isinstance(f, ast.Name) and (None, f.id) in helpers:
        return helpers[(None, f.id)], None
    if isinstance(f, ast.Attribute) and isinstance(f.value, ast.Name):
        base = f.value.id
        # self.helper(...) / cls.helper(...) inside the same class, or ClassName.helper(...)
        for (c, n), h in helpers.items():
            if n != f.attr or c is None:
                continue
            if (base in self_names and c == cls_name) or base == c:
                if h.kind == "static":
                    return h, None
                if h.kind == "method" and base in self_names:
                    return h, f.value
                if h.kind == "class":
                    return h, f.value
    return None, None


def _inline_helpers(tree: ast.Module) -> bool:
    helpers = _collect_helpers(tree)
    changed = False

    def process_function(fn: ast.FunctionDef, cls_name: Optional[str]) -> None:
        nonlocal changed
        self_names: Set[str] = set()
        if cls_name is not None and fn.args.args:
            self_names.add(fn.args.args[0].arg)
        own_key = (cls_name, fn.name)
        # nested single-return defs passed by reference -> lambdas
        nested = {n.name: n for n in ast.walk(fn) if isinstance(n, ast.FunctionDef) and n is not fn and _nested_expr_helper(n)}

        class Ref(ast.NodeTransformer):
            def visit_Call(self, node: ast.Call):
                self.generic_visit(node)
                for i, a in enumerate(node.args):
                    lam = self._as_lambda(a)
                    if lam is not None:
                        node.args[i] = lam
                for k in node.keywords:
                    lam = self._as_lambda(k.value)
                    if lam is not None:
                        k.value = lam
                return node

            def _as_lambda(self, a):
                nonlocal changed
                h = None
                if isinstance(a, ast.Name):
                    if a.id in nested:
                        src_fn = nested[a.id]
                        body = _doc_stripped(src_fn.body)[0].value
                        lam = ast.Lambda(args=copy.deepcopy(src_fn.args), body=copy.deepcopy(body))
                        changed = True
                        return ast.copy_location(lam, a)
                    if (None, a.id) in helpers and helpers[(None, a.id)].is_expr and (None, a.id) != own_key:
                        h = helpers[(None, a.id)]
                if h is not None and not h.defaults:
                    lam = ast.Lambda(args=copy.deepcopy(h.node.args), body=copy.deepcopy(h.body[0].value))
                    changed = True
                    return ast.copy_location(lam, a)
                return None

        Ref().visit(fn)

        # expression helpers anywhere
        class Expr(ast.NodeTransformer):
            def visit_Call(self, node: ast.Call):
                nonlocal changed
                self.generic_visit(node)
                h, recv = _match_call(node, helpers, cls_name, self_names)
                if h is None or not h.is_expr or (h.cls, h.node.name) == own_key:
                    return node
                b = h.bind(node, recv)
                if b is None:
                    return node
                for p, a in b.items():
                    if not _simple(a) and _uses(h.body, p) != 1:
                        return node
                new = _Subst(b, {}).visit(copy.deepcopy(h.body[0].value))
                changed = True
                return ast.copy_location(new, node)

        Expr().visit(fn)

        # statement helpers at call statements
        def rewrite_block(body: List[ast.stmt]) -> List[ast.stmt]:
            nonlocal changed
            out: List[ast.stmt] = []
            for st in body:
                for fld in ("body", "orelse", "finalbody"):
                    sub = getattr(st, fld, None)
                    if isinstance(sub, list) and sub and isinstance(sub[0], ast.stmt) and not isinstance(st, (ast.FunctionDef, ast.AsyncFunctionDef, ast.ClassDef)):
                        setattr(st, fld, rewrite_block(sub))
                for h_ in getattr(st, "handlers", []):
                    h_.body = rewrite_block(h_.body)
                call = None
                mode = None
                if isinstance(st, ast.Expr) and isinstance(st.value, ast.Call):
                    call, mode = st.value, "discard"
                elif isinstance(st, ast.Assign) and len(st.targets) == 1 and isinstance(st.value, ast.Call):
                    call, mode = st.value, "assign"
                elif isinstance(st, ast.AnnAssign) and st.value is not None and isinstance(st.value, ast.Call) and isinstance(st.target, ast.Name):
                    call, mode = st.value, "annassign"
                elif isinstance(st, ast.Return) and isinstance(st.value, ast.Call):
                    call, mode = st.value, "return"
                if call is not None:
                    h, recv = _match_call(call, helpers, cls_name, self_names)
                    if h is not None and not h.is_expr and (h.cls, h.node.name) != own_key:
                        b = h.bind(call, recv)
                        if b is not None:
                            _counter[0] += 1
                            suffix = f"__inl{_counter[0]}"
                            pre: List[ast.stmt] = []
                            mapping: Dict[str, ast.expr] = {}
                            helper_locals = _locals_of(h.node)
                            for p_, a in b.items():
                                if _simple(a) and p_ not in helper_locals:
                                    mapping[p_] = a
                                else:
                                    tmp = p_ + suffix
                                    pre.append(ast.copy_location(ast.Assign(targets=[ast.Name(id=tmp, ctx=ast.Store())], value=copy.deepcopy(a)), st))
                                    mapping[p_] = ast.Name(id=tmp, ctx=ast.Load())
                            rename = {n: n + suffix for n in helper_locals if n not in b}
                            for p_ in b:
                                if p_ in helper_locals:
                                    rename[p_] = p_ + suffix
                                    mapping.pop(p_, None)

                            def sink(value, _st=st, _mode=mode):
                                if _mode == "discard":
                                    return [] if value is None else [ast.copy_location(ast.Expr(value=value), _st)]
                                v = value if value is not None else ast.Constant(value=None)
                                if _mode == "assign":
                                    return [ast.copy_location(ast.Assign(targets=copy.deepcopy(_st.targets), value=v), _st)]
                                if _mode == "annassign":
                                    return [ast.copy_location(ast.Assign(targets=[copy.deepcopy(_st.target)], value=v), _st)]
                                return [ast.copy_location(ast.Return(value=v), _st)]

                            body_copy = [_Subst(mapping, rename).visit(copy.deepcopy(x)) for x in h.body]
                            conv = _tail_convert(body_copy, sink)
                            if conv is not None:
                                for x in conv:
                                    for sub_ in ast.walk(x):
                                        if not hasattr(sub_, "lineno") and isinstance(sub_, (ast.stmt, ast.expr)):
                                            ast.copy_location(sub_, st)
                                out.extend(pre + conv)
                                changed = True
                                continue
                out.append(st)
            return out

        fn.body = rewrite_block(fn.body)

    for st in tree.body:
        if isinstance(st, ast.FunctionDef):
            process_function(st, None)
            for n in ast.walk(st):
                if isinstance(n, ast.FunctionDef) and n is not st:
                    process_function(n, None)
        elif isinstance(st, ast.ClassDef):
            for m in st.body:
                if isinstance(m, ast.FunctionDef):
                    process_function(m, st.name)
    return changed
