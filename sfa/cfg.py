"""
Statement-level control-flow graph for one function, dominators /
post-dominators, reachability with a set of nodes removed, and a small
path enumerator (loops: zero / at-least-one iteration, constant propagation
of sentinel locals, library facts about non-empty iterables).
"""
from __future__ import annotations

import ast
from dataclasses import dataclass, field
from typing import Any, Callable, Dict, Iterable, Iterator, List, Optional, Sequence, Set, Tuple

from .engine import AnalysisError, walk_no_nested

SIMPLE = (
    ast.Expr, ast.Assign, ast.AugAssign, ast.AnnAssign, ast.Pass, ast.Import, ast.ImportFrom,
    ast.Delete, ast.Assert, ast.Global, ast.Nonlocal, ast.FunctionDef, ast.AsyncFunctionDef, ast.ClassDef,
)


@dataclass
class Node:
    id: int
    kind: str  # entry exit raise stmt test for with_enter with_exit except return raise_stmt break continue
    ast: Optional[ast.AST] = None  # the statement (or test expression for "test")
    stmt: Optional[ast.stmt] = None  # owning statement
    note: str = ""

    @property
    def line(self) -> int:
        n = self.ast if self.ast is not None else self.stmt
        return getattr(n, "lineno", 0)

    def label(self) -> str:
        if self.ast is None:
            return self.kind
        try:
            s = ast.unparse(self.ast) if not isinstance(self.ast, (ast.For, ast.While, ast.If, ast.With, ast.Try, ast.ExceptHandler)) else _head(self.ast)
        except Exception:
            s = type(self.ast).__name__
        s = " ".join(s.split())
        return f"{self.kind}:{s[:70]}"


def _head(n: ast.AST) -> str:
    if isinstance(n, ast.For):
        return f"for {ast.unparse(n.target)} in {ast.unparse(n.iter)}"
    if isinstance(n, ast.While):
        return f"while {ast.unparse(n.test)}"
    if isinstance(n, ast.If):
        return f"if {ast.unparse(n.test)}"
    if isinstance(n, ast.With):
        return "with " + ", ".join(ast.unparse(i) for i in n.items)
    if isinstance(n, ast.ExceptHandler):
        return "except " + (ast.unparse(n.type) if n.type else "")
    return type(n).__name__


@dataclass
class _Ctx:
    brk: Optional[int] = None
    cont: Optional[int] = None
    ret: Optional[int] = None  # where a return flows
    exc: List[int] = field(default_factory=list)  # handler entries (innermost first) then raise exit
    # pending finalisers (innermost last): functions creating a fresh copy that flows to a given target
    finals: Tuple = ()


class CFG:
    def __init__(self, fn: ast.AST):
        self.fn = fn
        self.nodes: List[Node] = []
        self.succ: Dict[int, List[Tuple[int, str]]] = {}
        self.pred: Dict[int, List[Tuple[int, str]]] = {}
        self.entry = self._new("entry")
        self.exit = self._new("exit")
        self.raise_exit = self._new("raise")
        self.by_stmt: Dict[int, List[int]] = {}
        ctx = _Ctx(ret=self.exit, exc=[self.raise_exit])
        ends = self._block(fn.body, [(self.entry, "")], ctx)
        for e, lab in ends:
            self._edge(e, self.exit, lab)
        self._dom: Optional[Dict[int, Set[int]]] = None
        self._pdom: Dict[str, Dict[int, Set[int]]] = {}

    # -- construction ------------------------------------------------------
    def _new(self, kind, astn=None, stmt=None, note="") -> int:
        n = Node(len(self.nodes), kind, astn, stmt, note)
        self.nodes.append(n)
        self.succ[n.id] = []
        self.pred[n.id] = []
        if stmt is not None:
            self.by_stmt.setdefault(id(stmt), []).append(n.id)
        return n.id

    def _edge(self, a: int, b: int, label: str = "") -> None:
        if (b, label) not in self.succ[a]:
            self.succ[a].append((b, label))
            self.pred[b].append((a, label))

    def _connect(self, preds: List[Tuple[int, str]], node: int) -> None:
        for p, lab in preds:
            self._edge(p, node, lab)

    def _exc_edges(self, node: int, ctx: _Ctx) -> None:
        # every node inside a try body may transfer to each handler of the
        # enclosing try statements (innermost first, until a catch-all)
        for h in ctx.exc:
            self._edge(node, h, "exc")

    def _block(self, stmts: Sequence[ast.stmt], preds: List[Tuple[int, str]], ctx: _Ctx) -> List[Tuple[int, str]]:
        for st in stmts:
            if not preds:
                break  # unreachable code
            preds = self._stmt(st, preds, ctx)
        return preds

    def _stmt(self, st: ast.stmt, preds, ctx: _Ctx) -> List[Tuple[int, str]]:
        if isinstance(st, SIMPLE):
            n = self._new("stmt", st, st)
            self._connect(preds, n)
            self._exc_edges(n, ctx)
            return [(n, "")]
        if isinstance(st, ast.Return):
            n = self._new("return", st, st)
            self._connect(preds, n)
            self._exc_edges(n, ctx)
            self._edge(n, ctx.ret, "return")
            return []
        if isinstance(st, ast.Raise):
            n = self._new("raise_stmt", st, st)
            self._connect(preds, n)
            self._exc_edges(n, ctx)
            return []
        if isinstance(st, ast.Break):
            n = self._new("break", st, st)
            self._connect(preds, n)
            if ctx.brk is None:
                raise AnalysisError("break outside loop")
            self._edge(n, ctx.brk, "break")
            return []
        if isinstance(st, ast.Continue):
            n = self._new("continue", st, st)
            self._connect(preds, n)
            if ctx.cont is None:
                raise AnalysisError("continue outside loop")
            self._edge(n, ctx.cont, "continue")
            return []
        if isinstance(st, ast.If):
            t = self._new("test", st.test, st)
            self._connect(preds, t)
            self._exc_edges(t, ctx)
            const = st.test.value if isinstance(st.test, ast.Constant) else None
            a = self._block(st.body, [(t, "T")], ctx) if not (isinstance(st.test, ast.Constant) and not const) else []
            if isinstance(st.test, ast.Constant) and const:
                b = []  # 'if True:' has no false edge
            else:
                b = self._block(st.orelse, [(t, "F")], ctx) if st.orelse else [(t, "F")]
            return a + b
        if isinstance(st, (ast.For, ast.AsyncFor)):
            h = self._new("for", st, st)
            self._connect(preds, h)
            self._exc_edges(h, ctx)
            after = self._new("join", None, st, "after-for")
            inner = _Ctx(brk=after, cont=h, ret=ctx.ret, exc=ctx.exc, finals=ctx.finals)
            body_end = self._block(st.body, [(h, "iter")], inner)
            self._connect(body_end, h)
            e = self._block(st.orelse, [(h, "exhaust")], ctx) if st.orelse else [(h, "exhaust")]
            self._connect(e, after)
            return [(after, "")]
        if isinstance(st, ast.While):
            t = self._new("test", st.test, st, "while")
            self._connect(preds, t)
            self._exc_edges(t, ctx)
            after = self._new("join", None, st, "after-while")
            inner = _Ctx(brk=after, cont=t, ret=ctx.ret, exc=ctx.exc, finals=ctx.finals)
            body_end = self._block(st.body, [(t, "T")], inner)
            self._connect(body_end, t)
            e = self._block(st.orelse, [(t, "F")], ctx) if st.orelse else [(t, "F")]
            self._connect(e, after)
            return [(after, "")]
        if type(st).__name__ == "Once":
            after = self._new("join", None, st, "after-once")
            inner = _Ctx(brk=after, cont=ctx.cont, ret=ctx.ret, exc=ctx.exc, finals=ctx.finals)
            body_end = self._block(st.body, preds, inner)
            self._connect(body_end, after)
            return [(after, "")]
        if isinstance(st, (ast.With, ast.AsyncWith)):
            enter = self._new("with_enter", st, st)
            self._connect(preds, enter)
            self._exc_edges(enter, ctx)
            # abrupt exits from the body run __exit__ first
            def fin(target: int, label: str, _st=st) -> int:
                x = self._new("with_exit", _st, _st, label)
                self._edge(x, target, label)
                return x
            inner = _Ctx(
                brk=fin(ctx.brk, "break") if ctx.brk is not None else None,
                cont=fin(ctx.cont, "continue") if ctx.cont is not None else None,
                ret=fin(ctx.ret, "return"),
                exc=ctx.exc,
                finals=ctx.finals,
            )
            body_end = self._block(st.body, [(enter, "")], inner)
            x = self._new("with_exit", st, st, "normal")
            self._connect(body_end, x)
            self._exc_edges(x, ctx)
            return [(x, "")] if body_end else []
        if isinstance(st, ast.Try):
            return self._try(st, preds, ctx)
        if hasattr(ast, "TryStar") and isinstance(st, ast.TryStar):
            raise AnalysisError("try/except* is not modelled")
        if isinstance(st, ast.Match):
            raise AnalysisError("match statement is not modelled")
        raise AnalysisError(f"statement kind {type(st).__name__} is not modelled")

    def _try(self, st: ast.Try, preds, ctx: _Ctx) -> List[Tuple[int, str]]:
        has_final = bool(st.finalbody)

        def with_final(target: Optional[int], label: str) -> Optional[int]:
            if target is None or not has_final:
                return target
            j = self._new("join", None, st, f"finally-{label}")
            ends = self._block(st.finalbody, [(j, "")], ctx)
            for e, lab in ends:
                self._edge(e, target, label)
            return j

        outer = _Ctx(
            brk=with_final(ctx.brk, "break"),
            cont=with_final(ctx.cont, "continue"),
            ret=with_final(ctx.ret, "return"),
            exc=[with_final(ctx.exc[0], "exc")] + ctx.exc[1:] if has_final else ctx.exc,
            finals=ctx.finals,
        )
        handlers = []
        catch_all = False
        for h in st.handlers:
            hn = self._new("except", h, st)
            handlers.append(hn)
            if h.type is None or (isinstance(h.type, ast.Name) and h.type.id == "BaseException"):
                catch_all = True
        body_ctx = _Ctx(
            brk=outer.brk, cont=outer.cont, ret=outer.ret,
            exc=handlers + ([] if catch_all else outer.exc),
            finals=ctx.finals,
        )
        body_end = self._block(st.body, preds, body_ctx)
        else_end = self._block(st.orelse, body_end, outer) if st.orelse else body_end
        ends = list(else_end)
        for h, hn in zip(st.handlers, handlers):
            ends += self._block(h.body, [(hn, "")], outer)
        if has_final and ends:
            j = self._new("join", None, st, "finally-normal")
            self._connect(ends, j)
            ends = self._block(st.finalbody, [(j, "")], ctx)
        return ends

    # -- queries -------------------------------------------------------------
    def nodes_of(self, stmt: ast.stmt) -> List[int]:
        return self.by_stmt.get(id(stmt), [])

    def node_for(self, stmt: ast.stmt) -> int:
        ns = [n for n in self.nodes_of(stmt) if self.nodes[n].kind not in ("with_exit", "join", "except")]
        if not ns:
            raise AnalysisError(f"statement at line {getattr(stmt, 'lineno', '?')} is not in the CFG (unreachable?)")
        return ns[0]

    def stmt_nodes(self) -> Iterator[Node]:
        for n in self.nodes:
            if n.ast is not None:
                yield n

    def reachable(self, start: Optional[int] = None, removed: Iterable[int] = (), skip_exc: bool = False) -> Set[int]:
        start = self.entry if start is None else start
        removed = set(removed)
        seen = set()
        if start in removed:
            return seen
        stack = [start]
        while stack:
            n = stack.pop()
            if n in seen:
                continue
            seen.add(n)
            for s, lab in self.succ[n]:
                if skip_exc and lab == "exc":
                    continue
                if s not in removed and s not in seen:
                    stack.append(s)
        return seen

    def dominators(self) -> Dict[int, Set[int]]:
        if self._dom is None:
            self._dom = _dominators(self.entry, [n.id for n in self.nodes], lambda n: [p for p, _ in self.pred[n]], self.reachable())
        return self._dom

    def dominates(self, a: int, b: int) -> bool:
        """Every path from entry to b passes through a (b reachable)."""
        d = self.dominators()
        return b in d and a in d[b]

    def postdominators(self, normal_only: bool = True) -> Dict[int, Set[int]]:
        key = "n" if normal_only else "a"
        if key not in self._pdom:
            # reverse graph rooted at exit (optionally joined with raise exit)
            virt = -1
            roots = [self.exit] if normal_only else [self.exit, self.raise_exit]

            def rpred(n):
                if n == virt:
                    return []
                out = [s for s, lab in self.succ[n] if not (normal_only and lab == "exc")]
                if n in roots:
                    out.append(virt)
                return out

            ids = [n.id for n in self.nodes] + [virt]
            # reachable in reverse from virt
            seen = {virt}
            stack = list(roots)
            while stack:
                n = stack.pop()
                if n in seen:
                    continue
                seen.add(n)
                for p, lab in self.pred[n]:
                    if normal_only and lab == "exc":
                        continue
                    stack.append(p)
            self._pdom[key] = _dominators(virt, ids, rpred, seen)
        return self._pdom[key]

    def postdominates(self, a: int, b: int, normal_only: bool = True) -> bool:
        """Every path from b to the (normal) exit passes through a."""
        d = self.postdominators(normal_only)
        return b in d and a in d[b]

    def must_pass(self, targets: Iterable[int], start: Optional[int] = None, goal: Optional[int] = None, skip_exc: bool = True) -> Optional[List[int]]:
        """None when every path start->goal passes a target; else one offending path."""
        start = self.entry if start is None else start
        goal = self.exit if goal is None else goal
        removed = set(targets)
        # BFS for a witness path
        prev: Dict[int, Optional[int]] = {start: None}
        if start in removed:
            return None
        queue = [start]
        while queue:
            n = queue.pop(0)
            if n == goal:
                path = []
                while n is not None:
                    path.append(n)
                    n = prev[n]
                return list(reversed(path))
            for s, lab in self.succ[n]:
                if skip_exc and lab == "exc":
                    continue
                if s in removed or s in prev:
                    continue
                prev[s] = n
                queue.append(s)
        return None

    def describe_path(self, path: Sequence[int]) -> List[str]:
        return [f"L{self.nodes[n].line}:{self.nodes[n].label()}" for n in path if self.nodes[n].ast is not None or self.nodes[n].kind in ("entry", "exit")]


def _dominators(root, ids, preds_of: Callable[[int], List[int]], reachable: Set[int]) -> Dict[int, Set[int]]:
    nodes = [n for n in ids if n in reachable]
    full = set(nodes)
    dom = {n: set(full) for n in nodes}
    dom[root] = {root}
    changed = True
    while changed:
        changed = False
        for n in nodes:
            if n == root:
                continue
            ps = [p for p in preds_of(n) if p in dom]
            new = set.intersection(*(dom[p] for p in ps)) if ps else set()
            new = new | {n}
            if new != dom[n]:
                dom[n] = new
                changed = True
    return dom


# ---------------------------------------------------------------------------
# path enumeration with constant propagation


UNKNOWN = object()


@dataclass
class PathResult:
    nodes: List[int]
    env: Dict[str, Any]
    end: int


class PathEnumerator:
    """
    Enumerate abstract paths entry -> {exit, raise}: each loop is taken zero
    times or (body analysed once) at least once; locals holding literal
    constants are propagated and tests over them decided; ``nonempty(for_node,
    env)`` may declare an iterable non-empty (library facts), which removes the
    zero-iteration choice.
    """

    def __init__(self, cfg: CFG, nonempty: Optional[Callable[[ast.For, Dict[str, Any]], bool]] = None, limit: int = 50000, follow_exc: bool = False,
                 atoms: bool = False, atom_canon: Optional[Callable[[ast.AST], Tuple[str, bool]]] = None,
                 opaque_ok: Optional[Callable[[ast.AST], bool]] = None, stop_at_raise: bool = False):
        self.cfg = cfg
        self.atom_canon = atom_canon  # expression -> (canonical key, flipped?)
        self.opaque_ok = opaque_ok  # expressions that may be treated as atoms although they contain calls
        self.stop_at_raise = stop_at_raise
        self.atoms = atoms  # enumerate truth assignments of pure predicate atoms and keep them consistent along a path
        self.nonempty = nonempty or (lambda f, env: False)
        self.limit = limit
        self.follow_exc = follow_exc
        self.count = 0

    def paths(self) -> Iterator[PathResult]:
        yield from self._walk(self.cfg.entry, [], {}, frozenset())

    def _walk(self, n: int, path: List[int], env: Dict[str, Any], loops_done: frozenset) -> Iterator[PathResult]:
        cfg = self.cfg
        while True:
            node = cfg.nodes[n]
            path = path + [n]
            if n in (cfg.exit, cfg.raise_exit) or (self.stop_at_raise and node.kind == "raise_stmt"):
                self.count += 1
                if self.count > self.limit:
                    raise AnalysisError("path enumeration limit exceeded")
                yield PathResult(path, env, n)
                return
            succ = [(s, lab) for s, lab in cfg.succ[n] if self.follow_exc or lab != "exc"]
            if node.kind == "stmt":
                env = self._transfer(node.ast, env)
            elif node.kind == "with_enter":
                env = dict(env)
                for item in node.ast.items:
                    if item.optional_vars is not None:
                        for nm in _names(item.optional_vars):
                            env[nm] = UNKNOWN
            if node.kind == "test":
                v = self._eval(node.ast, env)
                if v is UNKNOWN and self.atoms:
                    unknown = [a for a in self._atoms_of(node.ast) if ("@" + self._key(a)[0]) not in env and self._eval(a, env) is UNKNOWN]
                    seen_keys = []
                    uniq = []
                    for a in unknown:
                        if self._key(a)[0] not in seen_keys:
                            seen_keys.append(self._key(a)[0])
                            uniq.append(a)
                    if uniq and len(uniq) <= 7:
                        for bits in range(2 ** len(uniq)):
                            e2 = dict(env)
                            for i, a in enumerate(uniq):
                                e2["@" + self._key(a)[0]] = bool(bits >> i & 1)
                                e2.setdefault("#" + self._key(a)[0], bool(bits >> i & 1))  # what the first guard saw (never forgotten)
                            v2 = self._eval(node.ast, e2)
                            if v2 is UNKNOWN:
                                outs = succ
                            else:
                                want = "T" if v2 else "F"
                                outs = [(s, lab) for s, lab in succ if lab == want or lab == "exc"]
                            ld = loops_done
                            if node.note == "while":
                                if n in ld:
                                    outs = [(s, lab) for s, lab in outs if lab != "T"]
                                else:
                                    ld = ld | {n}
                            for s, lab in outs:
                                yield from self._walk(s, path, e2, ld)
                        return
                if v is not UNKNOWN:
                    want = "T" if v else "F"
                    succ = [(s, lab) for s, lab in succ if lab == want or lab == "exc"]
            if node.kind == "for":
                first = n not in loops_done
                if first:
                    choices = [(s, lab) for s, lab in succ if lab == "iter"]
                    if not self.nonempty(node.ast, env):
                        choices += [(s, lab) for s, lab in succ if lab == "exhaust"]
                    loops_done = loops_done | {n}
                    envb = dict(env)
                    for nm in _names(node.ast.target):
                        envb[nm] = UNKNOWN
                    for s, lab in choices:
                        e2 = envb if lab == "iter" else env
                        yield from self._walk(s, path, e2, loops_done)
                    return
                else:
                    # second arrival: the body ran once; forget what the body may reassign
                    env = dict(env)
                    for nm in _assigned_in(node.ast.body):
                        env.setdefault(nm, UNKNOWN)
                        # keep the value from the analysed iteration only if constant on
                        # every iteration is not guaranteed -> forget
                        env[nm] = env[nm] if _const_everywhere(node.ast.body, nm, env[nm]) else UNKNOWN
                    succ = [(s, lab) for s, lab in succ if lab == "exhaust"]
                    # allow the loop to be re-entered later from an outer loop iteration
            if node.kind == "test" and node.note == "while":
                if n in loops_done:
                    succ = [(s, lab) for s, lab in succ if lab != "T"]
                else:
                    loops_done = loops_done | {n}
            if not succ:
                return
            if len(succ) == 1:
                n = succ[0][0]
                continue
            for s, lab in succ:
                yield from self._walk(s, path, env, loops_done)
            return

    def _key(self, e: ast.AST) -> Tuple[str, bool]:
        if self.atom_canon is not None:
            return self.atom_canon(e)
        return _akey(e), False

    def _atoms_of(self, test: ast.AST) -> List[ast.AST]:
        if isinstance(test, ast.BoolOp):
            out: List[ast.AST] = []
            for v in test.values:
                out.extend(self._atoms_of(v))
            return out
        if isinstance(test, ast.UnaryOp) and isinstance(test.op, ast.Not):
            return self._atoms_of(test.operand)
        if isinstance(test, ast.Constant):
            return []
        if _is_pure(test) or (self.opaque_ok is not None and self.opaque_ok(test)):
            return [test]
        return []

    # -- tiny abstract domain ------------------------------------------------
    def _transfer(self, st: ast.AST, env: Dict[str, Any]) -> Dict[str, Any]:
        env = dict(env)
        if self.atoms:
            killed = set()
            texts = []
            if isinstance(st, (ast.Assign, ast.AugAssign, ast.AnnAssign)):
                tgts = st.targets if isinstance(st, ast.Assign) else [st.target]
                for t in tgts:
                    for sub_ in ([t] if not isinstance(t, (ast.Tuple, ast.List)) else t.elts):
                        if isinstance(sub_, ast.Name):
                            killed.add(sub_.id)
                        elif isinstance(sub_, (ast.Attribute, ast.Subscript)):
                            texts.append(ast.unparse(sub_))
            elif isinstance(st, ast.stmt):
                killed = _assigned_in([st])
            for k in [k for k in env if k.startswith("@")]:
                if any(t in k for t in texts):
                    del env[k]
            if killed:
                for k in [k for k in env if k.startswith("@")]:
                    try:
                        names = {n.id for n in ast.walk(ast.parse(k[1:], mode="eval")) if isinstance(n, ast.Name)}
                    except SyntaxError:
                        names = set()
                    if names & killed:
                        del env[k]
        if isinstance(st, ast.Assign):
            v = self._eval(st.value, env)
            for t in st.targets:
                if isinstance(t, ast.Name):
                    env[t.id] = v
                else:
                    for nm in _names(t):
                        env[nm] = UNKNOWN
        elif isinstance(st, ast.AnnAssign) and isinstance(st.target, ast.Name):
            env[st.target.id] = self._eval(st.value, env) if st.value is not None else UNKNOWN
        elif isinstance(st, ast.AugAssign):
            for nm in _names(st.target):
                env[nm] = UNKNOWN
        elif isinstance(st, (ast.FunctionDef, ast.AsyncFunctionDef, ast.ClassDef)):
            env[st.name] = UNKNOWN
        # nested functions declaring ``nonlocal x`` may rebind x when called:
        # handled conservatively by callers (none in this repository)
        return env

    def _eval(self, e: Optional[ast.AST], env: Dict[str, Any], cond: bool = True) -> Any:
        """Abstract value of *e*.  cond=True: *e* is evaluated as a condition, so a remembered atom truth value applies;
        operands of comparisons are values (cond=False) and must not be confused with the truthiness atom of the same name."""
        if e is None:
            return UNKNOWN
        if cond and self.atoms and not isinstance(e, (ast.Constant, ast.BoolOp)) and not (isinstance(e, ast.UnaryOp) and isinstance(e.op, ast.Not)):
            key, flip = self._key(e)
            k = "@" + key
            if k in env:
                return (not env[k]) if flip else env[k]
        if isinstance(e, ast.Constant):
            return e.value
        if isinstance(e, ast.Name):
            return env.get(e.id, UNKNOWN)
        if isinstance(e, ast.UnaryOp):
            v = self._eval(e.operand, env, cond=cond and isinstance(e.op, ast.Not))
            if v is UNKNOWN:
                return UNKNOWN
            try:
                if isinstance(e.op, ast.USub):
                    return -v
                if isinstance(e.op, ast.Not):
                    return not v
            except Exception:
                return UNKNOWN
            return UNKNOWN
        if isinstance(e, ast.Compare) and len(e.ops) == 1:
            a, b = self._eval(e.left, env, cond=False), self._eval(e.comparators[0], env, cond=False)
            if a is UNKNOWN or b is UNKNOWN:
                return UNKNOWN
            op = e.ops[0]
            try:
                if isinstance(op, ast.Eq):
                    return a == b
                if isinstance(op, ast.NotEq):
                    return a != b
                if isinstance(op, ast.Lt):
                    return a < b
                if isinstance(op, ast.LtE):
                    return a <= b
                if isinstance(op, ast.Gt):
                    return a > b
                if isinstance(op, ast.GtE):
                    return a >= b
                if isinstance(op, ast.Is):
                    return a is b if (a is None or b is None) else UNKNOWN
                if isinstance(op, ast.IsNot):
                    return a is not b if (a is None or b is None) else UNKNOWN
            except Exception:
                return UNKNOWN
            return UNKNOWN
        if isinstance(e, ast.BoolOp):
            vals = [self._eval(v, env) for v in e.values]
            if isinstance(e.op, ast.And):
                if any(v is not UNKNOWN and not v for v in vals):
                    return False
                if all(v is not UNKNOWN for v in vals):
                    return vals[-1]
            else:
                if any(v is not UNKNOWN and v for v in vals):
                    return True
                if all(v is not UNKNOWN for v in vals):
                    return vals[-1]
            return UNKNOWN
        return UNKNOWN


def _names(t: ast.AST) -> List[str]:
    return [n.id for n in ast.walk(t) if isinstance(n, ast.Name)]


def _assigned_in(stmts: Sequence[ast.stmt]) -> Set[str]:
    out: Set[str] = set()
    for st in stmts:
        for n in walk_no_nested(st):
            if isinstance(n, ast.Assign):
                for t in n.targets:
                    out.update(_names(t))
            elif isinstance(n, (ast.AugAssign, ast.AnnAssign)):
                out.update(_names(n.target))
            elif isinstance(n, (ast.For, ast.AsyncFor)):
                out.update(_names(n.target))
            elif isinstance(n, (ast.With, ast.AsyncWith)):
                for i in n.items:
                    if i.optional_vars is not None:
                        out.update(_names(i.optional_vars))
            elif isinstance(n, ast.NamedExpr):
                out.update(_names(n.target))
    return out


def _const_everywhere(stmts: Sequence[ast.stmt], name: str, value: Any) -> bool:
    """True when every assignment to *name* inside *stmts* stores the same literal *value*
    (then any number of iterations leaves that literal, or the pre-loop value)."""
    if value is UNKNOWN:
        return False
    for st in stmts:
        for n in walk_no_nested(st):
            tgt = None
            val = None
            if isinstance(n, ast.Assign):
                for t in n.targets:
                    if name in _names(t):
                        tgt, val = t, n.value
            elif isinstance(n, (ast.AugAssign, ast.AnnAssign)) and name in _names(n.target):
                return False
            elif isinstance(n, (ast.For, ast.AsyncFor)) and name in _names(n.target):
                return False
            if tgt is not None:
                if not (isinstance(tgt, ast.Name) and isinstance(val, ast.Constant) and val.value == value):
                    return False
    return True


def _akey(e: ast.AST) -> str:
    return ast.unparse(e)


def _is_pure(e: ast.AST) -> bool:
    """No call except isinstance/len/type/hasattr on plain names/attributes; no subscript stores, awaits, yields."""
    for n in ast.walk(e):
        if isinstance(n, ast.Call):
            if not (isinstance(n.func, ast.Name) and n.func.id in ("isinstance", "len", "type", "hasattr", "callable")):
                if not (isinstance(n.func, ast.Attribute) and n.func.attr in ("lower", "upper", "strip", "startswith", "endswith")):
                    return False
        if isinstance(n, (ast.Await, ast.Yield, ast.YieldFrom, ast.NamedExpr, ast.Lambda)):
            return False
    return True


def _pure_atoms(test: ast.AST) -> List[ast.AST]:
    if isinstance(test, ast.BoolOp):
        out = []
        for v in test.values:
            out.extend(_pure_atoms(v))
        return out
    if isinstance(test, ast.UnaryOp) and isinstance(test.op, ast.Not):
        return _pure_atoms(test.operand)
    if isinstance(test, ast.Constant):
        return []
    return [test] if _is_pure(test) else []
