"""
Def-use helpers, expression inlining, guard facts (edge dominance),
lightweight types and call resolution.
"""
from __future__ import annotations

import ast
import copy
from dataclasses import dataclass
from typing import Any, Dict, Iterable, Iterator, List, Optional, Sequence, Set, Tuple, Union

from .cfg import CFG
from .engine import (AnalysisError, ClassInfo, External, FunctionInfo, Module, Program, attr_chain, body_walk, norm,
                     src, walk_no_nested)


# ---------------------------------------------------------------------------
# local bindings


@dataclass
class Binding:
    kind: str  # param assign for with aug unpack except def import walrus
    node: ast.AST  # the binding statement / arg
    value: Optional[ast.expr] = None  # RHS for assign; iter for "for"; context expr for "with"
    index: Optional[Tuple[int, ...]] = None  # position inside an unpacked tuple target


class Locals:
    def __init__(self, fi: FunctionInfo):
        self.fi = fi
        self.b: Dict[str, List[Binding]] = {}
        a = fi.node.args
        for arg in a.posonlyargs + a.args + a.kwonlyargs + ([a.vararg] if a.vararg else []) + ([a.kwarg] if a.kwarg else []):
            self._add(arg.arg, Binding("param", arg))
        for n in body_walk(fi.node):
            if isinstance(n, ast.Assign):
                for t in n.targets:
                    self._target(t, "assign", n, n.value)
            elif isinstance(n, ast.AnnAssign):
                if n.value is not None:
                    self._target(n.target, "assign", n, n.value)
            elif isinstance(n, ast.AugAssign):
                self._target(n.target, "aug", n, n.value)
            elif isinstance(n, (ast.For, ast.AsyncFor)):
                self._target(n.target, "for", n, n.iter)
            elif isinstance(n, (ast.With, ast.AsyncWith)):
                for it in n.items:
                    if it.optional_vars is not None:
                        self._target(it.optional_vars, "with", n, it.context_expr)
            elif isinstance(n, ast.ExceptHandler) and n.name:
                self._add(n.name, Binding("except", n))
            elif isinstance(n, ast.NamedExpr):
                self._target(n.target, "walrus", n, n.value)
            elif isinstance(n, ast.comprehension):
                self._target(n.target, "comp", n, n.iter)
            elif isinstance(n, (ast.Import, ast.ImportFrom)):
                for al in n.names:
                    self._add((al.asname or al.name).split(".")[0], Binding("import", n))
        for st in fi.node.body:
            for n in walk_no_nested(st):
                pass
        for name, sub in fi.nested.items():
            self._add(name, Binding("def", sub.node))

    def _add(self, name: str, b: Binding) -> None:
        self.b.setdefault(name, []).append(b)

    def _target(self, t: ast.AST, kind: str, node: ast.AST, value: Optional[ast.expr], index: Tuple[int, ...] = ()) -> None:
        if isinstance(t, ast.Name):
            self._add(t.id, Binding(kind if not index else "unpack:" + kind, node, value, index or None))
        elif isinstance(t, (ast.Tuple, ast.List)):
            for i, e in enumerate(t.elts):
                self._target(e, kind, node, value, index + (i,))
        elif isinstance(t, ast.Starred):
            self._target(t.value, kind, node, value, index)
        # attribute / subscript targets are not local bindings

    def single(self, name: str) -> Optional[Binding]:
        bs = self.b.get(name, [])
        return bs[0] if len(bs) == 1 else None

    def is_param(self, name: str) -> bool:
        return any(b.kind == "param" for b in self.b.get(name, []))

    def only_param(self, name: str) -> bool:
        bs = self.b.get(name, [])
        return len(bs) == 1 and bs[0].kind == "param"


_locals_cache: Dict[int, Locals] = {}


def locals_of(fi: FunctionInfo) -> Locals:
    k = id(fi.node)
    if k not in _locals_cache:
        _locals_cache[k] = Locals(fi)
    return _locals_cache[k]


def inline(expr: ast.expr, fi: FunctionInfo, depth: int = 8, stop: Iterable[str] = ()) -> ast.expr:
    """Substitute locals that have exactly one plain assignment by their value."""
    loc = locals_of(fi)
    stop = set(stop)

    class T(ast.NodeTransformer):
        def __init__(self, d):
            self.d = d

        def visit_Name(self, n: ast.Name):
            if isinstance(n.ctx, ast.Load) and n.id not in stop and self.d > 0:
                b = loc.single(n.id)
                if b is not None and b.kind == "assign" and b.value is not None:
                    return T(self.d - 1).visit(copy.deepcopy(b.value))
            return n

        def visit_Lambda(self, n):
            return n

    return T(depth).visit(copy.deepcopy(expr))


def same(a: ast.AST, b: ast.AST) -> bool:
    return norm(a) == norm(b)


# ---------------------------------------------------------------------------
# guard facts


def facts_of(test: ast.expr, polarity: bool) -> List[Tuple[ast.expr, bool]]:
    """Atoms implied by ``test`` evaluating to *polarity*."""
    if isinstance(test, ast.UnaryOp) and isinstance(test.op, ast.Not):
        return facts_of(test.operand, not polarity)
    if isinstance(test, ast.BoolOp):
        if isinstance(test.op, ast.And) and polarity:
            return [f for v in test.values for f in facts_of(v, True)]
        if isinstance(test.op, ast.Or) and not polarity:
            return [f for v in test.values for f in facts_of(v, False)]
        return [(test, polarity)]
    if isinstance(test, ast.Compare) and len(test.ops) == 1 and isinstance(test.ops[0], (ast.NotIn, ast.NotEq, ast.IsNot)):
        # x not in T is not (x in T): one atom for both spellings
        pos = {ast.NotIn: ast.In, ast.NotEq: ast.Eq, ast.IsNot: ast.Is}[type(test.ops[0])]()
        return [(ast.copy_location(ast.Compare(left=test.left, ops=[pos], comparators=test.comparators), test), not polarity)]
    return [(test, polarity)]


def edge_dominates(cfg: CFG, t: int, label: str, b: int) -> bool:
    """Every path entry -> b uses the edge (t, label)."""
    if b not in cfg.reachable():
        return False
    # remove the edge and test reachability
    seen = set()
    stack = [cfg.entry]
    while stack:
        n = stack.pop()
        if n in seen:
            continue
        seen.add(n)
        for s, lab in cfg.succ[n]:
            if n == t and lab == label:
                continue
            if s not in seen:
                stack.append(s)
    return b not in seen


def guards_at(cfg: CFG, b: int) -> List[Tuple[ast.expr, bool]]:
    """All atom facts that hold on every path reaching node *b* (from test edges)."""
    out: List[Tuple[ast.expr, bool]] = []
    dom = cfg.dominators().get(b, set())
    for t in dom:
        node = cfg.nodes[t]
        if node.kind != "test" or t == b:
            continue
        for lab, pol in (("T", True), ("F", False)):
            if edge_dominates(cfg, t, lab, b):
                out.extend((a, p) for a, p in facts_of(node.ast, pol) if not isinstance(a, ast.Constant))
    return _close(out)


_NEG = {ast.IsNot: ast.Is, ast.NotIn: ast.In, ast.NotEq: ast.Eq}


def _canon(a: ast.expr, pol: bool) -> Tuple[ast.expr, bool]:
    """x is not y / x not in y / x != y  ->  the positive comparison with the polarity flipped."""
    if isinstance(a, ast.Compare) and len(a.ops) == 1 and type(a.ops[0]) in _NEG:
        b = ast.Compare(left=a.left, ops=[_NEG[type(a.ops[0])]()], comparators=a.comparators)
        return b, (not pol)
    return a, pol


def facts_canon(test: ast.expr, polarity: bool) -> List[Tuple[ast.expr, bool]]:
    return [_canon(a, p) for a, p in facts_of(test, polarity)]


def _close(fs: List[Tuple[ast.expr, bool]], keep_canon: bool = False) -> List[Tuple[ast.expr, bool]]:
    """Unit resolution: not (A and B) with A gives not B; (A or B) with not A gives B.  Atoms are compared by norm()
    after canonicalising complementary comparisons.  Returns the given facts plus the derived ones."""
    out = list(fs)
    known = set()
    for a, pol in out:
        c, cp = _canon(a, pol)
        known.add((norm(c), cp))
    changed = True
    while changed:
        changed = False
        for a, pol in list(out):
            if isinstance(a, ast.BoolOp):
                is_and = isinstance(a.op, ast.And)
                if (is_and and pol is False) or ((not is_and) and pol is True):
                    want = True if is_and else False  # the value that does not decide the operand
                    undecided = []
                    for v in a.values:
                        vf = facts_canon(v, want)
                        if vf and all((norm(x), p) in known for x, p in vf):
                            continue  # this operand is known not to be the deciding one
                        undecided.append(v)
                    if len(undecided) == 1:
                        for x, p in facts_of(undecided[0], not want):
                            c, cp = _canon(x, p)
                            if (norm(c), cp) not in known:
                                out.append((x, p))
                                known.add((norm(c), cp))
                                changed = True
    return out


def contradictory(fs: List[Tuple[ast.expr, bool]]) -> bool:
    """The facts cannot all hold (propositional reasoning over the atoms only)."""
    out = _close(list(fs))
    known = {}
    for a, pol in out:
        a, pol = _canon(a, pol)
        k = norm(a)
        if k in known and known[k] != pol:
            return True
        known[k] = pol
    for a, pol in out:
        if isinstance(a, ast.BoolOp):
            is_and = isinstance(a.op, ast.And)
            vals = []
            for v in a.values:
                t = all(known.get(norm(x)) == p for x, p in facts_canon(v, True)) and bool(facts_of(v, True))
                f = all(known.get(norm(x)) == p for x, p in facts_canon(v, False)) and bool(facts_of(v, False))
                vals.append(True if t else (False if f else None))
            if is_and and pol is False and all(v is True for v in vals):
                return True
            if (not is_and) and pol is True and all(v is False for v in vals):
                return True
    return False


def stmt_of(fi: FunctionInfo, node: ast.AST) -> ast.stmt:
    """Innermost statement of *fi* containing *node* (not descending into nested defs)."""
    found: List[ast.stmt] = []

    def rec(st_list):
        for st in st_list:
            if isinstance(st, (ast.FunctionDef, ast.AsyncFunctionDef, ast.ClassDef)) and st is not node:
                continue
            for n in walk_no_nested(st):
                if n is node:
                    found.append(st)
                    # descend for the innermost
                    for fld in ("body", "orelse", "finalbody"):
                        sub = getattr(st, fld, None)
                        if isinstance(sub, list) and sub and isinstance(sub[0], ast.stmt):
                            rec(sub)
                    for h in getattr(st, "handlers", []):
                        rec(h.body)
                    return

    rec(fi.node.body)
    if not found:
        raise AnalysisError(f"node at line {getattr(node, 'lineno', '?')} not found in {fi.fq}")
    return found[-1]


def cfg_node_of(cfg: CFG, fi: FunctionInfo, node: ast.AST) -> int:
    """CFG node evaluating *node* (the header node for compound statements)."""
    st = stmt_of(fi, node)
    # an expression inside the test/iter/items of a compound statement belongs to its header
    return cfg.node_for(st)


def guards_of_expr(cfg: CFG, fi: FunctionInfo, node: ast.AST) -> List[Tuple[ast.expr, bool]]:
    return guards_at(cfg, cfg_node_of(cfg, fi, node))


def is_none_guarded(name_expr: ast.expr, facts: List[Tuple[ast.expr, bool]]) -> bool:
    """Facts establish that *name_expr* is not None."""
    key = norm(name_expr)
    for atom, pol in facts:
        if isinstance(atom, ast.Compare) and len(atom.ops) == 1 and norm(atom.left) == key:
            c = atom.comparators[0]
            is_none = isinstance(c, ast.Constant) and c.value is None
            if is_none and isinstance(atom.ops[0], ast.Is) and pol is False:
                return True
            if is_none and isinstance(atom.ops[0], ast.IsNot) and pol is True:
                return True
            if is_none and isinstance(atom.ops[0], ast.Eq) and pol is False:
                return True
            if is_none and isinstance(atom.ops[0], ast.NotEq) and pol is True:
                return True
        if norm(atom) == key and pol is True:  # truthiness
            return True
        if (isinstance(atom, ast.Call) and isinstance(atom.func, ast.Name) and atom.func.id == "isinstance"
                and atom.args and norm(atom.args[0]) == key and pol is True):
            return True
    return False


# ---------------------------------------------------------------------------
# lightweight types & call resolution


def _strip_optional(p: Program, mod: Module, ann: ast.expr) -> ast.expr:
    if isinstance(ann, ast.Constant) and isinstance(ann.value, str):
        try:
            ann = ast.parse(ann.value, mode="eval").body
        except SyntaxError:
            return ann
    if isinstance(ann, ast.Subscript):
        head = attr_chain(ann.value)
        if head and head[-1] in ("Optional", "Type", "Iterator", "Iterable", "List", "Sequence"):
            return ann
    return ann


def ann_type(p: Program, mod: Module, ann: Optional[ast.expr]) -> Any:
    """ClassInfo | External | ("iter", T) | ("type", T) | None from an annotation."""
    if ann is None:
        return None
    if isinstance(ann, ast.Constant) and isinstance(ann.value, str):
        try:
            ann = ast.parse(ann.value, mode="eval").body
        except SyntaxError:
            return None
    if isinstance(ann, ast.Subscript):
        head = attr_chain(ann.value)
        h = head[-1] if head else ""
        inner = ann.slice
        if h == "Optional":
            return ann_type(p, mod, inner)
        if h in ("Iterator", "Iterable", "List", "Sequence", "MutableSequence", "Deque", "Tuple") and not isinstance(inner, ast.Tuple):
            t = ann_type(p, mod, inner)
            return ("iter", t) if t is not None else None
        if h == "Type":
            t = ann_type(p, mod, inner)
            return ("type", t) if t is not None else None
        r = p.resolve_expr(mod, ann.value)
        return r if isinstance(r, (ClassInfo, External)) else None
    r = p.resolve_expr(mod, ann)
    if isinstance(r, (ClassInfo, External)):
        return r
    return None


class Typer:
    def __init__(self, p: Program):
        self.p = p
        self._attr_cache: Dict[Tuple[str, str], Any] = {}
        self._busy: Set[Tuple[str, int]] = set()

    def self_name(self, fi: FunctionInfo) -> Optional[str]:
        if fi.cls is None:
            return None
        top = fi
        while top.parent is not None:
            top = top.parent
        decos = top.decorators()
        if "staticmethod" in decos:
            return None
        ps = top.param_names()
        return ps[0] if ps else None

    def type_of(self, fi: FunctionInfo, e: ast.expr, depth: int = 6) -> Any:
        key = (fi.fq, id(e))
        if key in self._busy:
            return None
        self._busy.add(key)
        try:
            return self._type_of(fi, e, depth)
        finally:
            self._busy.discard(key)

    def _type_of(self, fi: FunctionInfo, e: ast.expr, depth: int = 6) -> Any:
        p = self.p
        if depth <= 0:
            return None
        if isinstance(e, ast.Name):
            sn = self.self_name(fi)
            if sn and e.id == sn:
                top = fi
                while top.parent is not None:
                    top = top.parent
                is_cm = any(d in ("classmethod", "abstractclassmethod") for d in top.decorators())
                return ("type", fi.cls) if is_cm else fi.cls
            f = fi
            while f is not None:
                loc = locals_of(f)
                if e.id in loc.b:
                    bs = loc.b[e.id]
                    if len(bs) == 1 and bs[0].kind == "import":
                        ent = self._local_import(f, bs[0].node, e.id)
                        if isinstance(ent, ClassInfo):
                            return ("type", ent)
                        if isinstance(ent, External):
                            return ("type", ent)
                        return ent
                    for b in bs:
                        if b.kind == "param":
                            t = ann_type(p, f.module, b.node.annotation)
                            if t is not None:
                                return t
                            d = f.defaults().get(e.id)
                            if d is not None:
                                return self.type_of(f, d, depth - 1)
                    ts = []
                    for b in bs:
                        if b.kind == "assign" and b.value is not None:
                            if isinstance(b.node, ast.AnnAssign):
                                t = ann_type(p, f.module, b.node.annotation)
                                if t is not None:
                                    ts.append(t)
                                    continue
                            ts.append(self.type_of(f, b.value, depth - 1))
                        elif b.kind in ("for", "comp") and b.value is not None:
                            it = self.type_of(f, b.value, depth - 1)
                            ts.append(it[1] if isinstance(it, tuple) and it[0] == "iter" else None)
                        elif b.kind == "with" and b.value is not None:
                            ts.append(None)
                        elif b.kind == "def":
                            ts.append(f.nested[e.id])
                        else:
                            ts.append(None)
                    ts = [t for t in ts if t is not None]
                    if ts and all(t is ts[0] or t == ts[0] for t in ts):
                        return ts[0]
                    return None
                f = f.parent
            r = p.resolve_name(fi.module, e.id)
            if isinstance(r, ClassInfo):
                return ("type", r)
            if isinstance(r, FunctionInfo):
                return r
            if isinstance(r, tuple) and r[0] == "module":
                return r
            if isinstance(r, External):
                return ("type", r)
            return None
        if isinstance(e, ast.Attribute):
            base = self.type_of(fi, e.value, depth - 1)
            if isinstance(base, tuple) and base[0] == "module":
                r = p.resolve_expr(fi.module, e)
                if isinstance(r, ClassInfo):
                    return ("type", r)
                if isinstance(r, FunctionInfo):
                    return r
                if isinstance(r, tuple) and r[0] == "module":
                    return r
                if isinstance(r, External):
                    return ("type", r)
                # module attribute through a runtime module alias (import simfile; simfile.open)
                return None
            if isinstance(base, ClassInfo):
                return self.attr_type(base, e.attr)
            if isinstance(base, tuple) and base[0] == "type" and isinstance(base[1], ClassInfo):
                m = p.lookup_member(base[1], e.attr)
                if m and m[0] == "method":
                    return m[1]
            return None
        if isinstance(e, ast.Call):
            callee = self.resolve_call(fi, e)
            if isinstance(callee, ClassInfo):
                return callee
            if isinstance(callee, FunctionInfo):
                t = ann_type(p, callee.module, callee.node.returns)
                if t is not None:
                    return t
                return None
            if isinstance(e.func, ast.Name) and e.func.id == "cast" and len(e.args) == 2:
                return ann_type(p, fi.module, e.args[0])
            return None
        if isinstance(e, ast.BoolOp) and isinstance(e.op, ast.Or):
            ts = [self.type_of(fi, v, depth - 1) for v in e.values]
            ts = [t for t in ts if t is not None]
            if ts and all(t == ts[0] for t in ts):
                return ts[0]
        return None

    def _local_import(self, f: FunctionInfo, node: ast.AST, name: str) -> Any:
        p = self.p
        if isinstance(node, ast.ImportFrom):
            srcmod = p._abs_import(f.module, node.level, node.module)
            for al in node.names:
                if (al.asname or al.name) == name:
                    sub = f"{srcmod}.{al.name}"
                    if sub in p.modules:
                        return ("module", sub)
                    if srcmod in p.modules:
                        return p.resolve_name(p.modules[srcmod], al.name)
                    return External(sub)
        if isinstance(node, ast.Import):
            for al in node.names:
                if (al.asname or al.name.split(".")[0]) == name:
                    return ("module", al.name if al.asname else al.name.split(".")[0])
        return None

    def attr_type(self, ci: ClassInfo, attr: str) -> Any:
        key = (ci.fq, attr)
        if key in self._attr_cache:
            return self._attr_cache[key]
        self._attr_cache[key] = None
        p = self.p
        out = None
        for c in p.mro(ci):
            if not isinstance(c, ClassInfo):
                continue
            if attr in c.annots:
                out = ann_type(p, c.module, c.annots[attr])
                if out is not None:
                    break
            if attr in c.methods:
                m = c.methods[attr]
                if "property" in m.decorators():
                    out = ann_type(p, c.module, m.node.returns)
                else:
                    out = m
                break
            init = c.methods.get("__init__")
            if init is not None:
                sn = init.param_names()[0]
                for n in body_walk(init.node):
                    if isinstance(n, ast.Assign):
                        for t in n.targets:
                            if isinstance(t, ast.Attribute) and isinstance(t.value, ast.Name) and t.value.id == sn and t.attr == attr:
                                out = self.type_of(init, n.value)
                    elif isinstance(n, ast.AnnAssign) and isinstance(n.target, ast.Attribute):
                        t = n.target
                        if isinstance(t.value, ast.Name) and t.value.id == sn and t.attr == attr:
                            out = ann_type(p, c.module, n.annotation)
                if out is not None:
                    break
        self._attr_cache[key] = out
        return out

    def resolve_call(self, fi: FunctionInfo, call: ast.Call) -> Any:
        """FunctionInfo | ClassInfo (constructor) | External | None."""
        p = self.p
        fn = call.func
        if isinstance(fn, ast.Name):
            f = fi
            while f is not None:
                if fn.id in f.nested:
                    return f.nested[fn.id]
                loc = locals_of(f)
                if fn.id in loc.b:
                    t = self.type_of(fi, fn)
                    if isinstance(t, FunctionInfo):
                        return t
                    if isinstance(t, tuple) and t[0] == "type":
                        return t[1]
                    return None
                f = f.parent
            r = p.resolve_name(fi.module, fn.id)
            if isinstance(r, (ClassInfo, FunctionInfo, External)):
                return r
            return None
        if isinstance(fn, ast.Attribute):
            # super().m(...)
            if isinstance(fn.value, ast.Call) and isinstance(fn.value.func, ast.Name) and fn.value.func.id == "super" and fi.cls is not None:
                mro = p.mro(fi.cls)[1:]
                for c in mro:
                    if isinstance(c, ClassInfo):
                        if fn.attr in c.methods:
                            return c.methods[fn.attr]
                    else:
                        t = p.external_class(c)
                        if t is not None and hasattr(t, fn.attr):
                            return External(f"{c.name}.{fn.attr}")
                return None
            base = self.type_of(fi, fn.value)
            if isinstance(base, tuple) and base[0] == "module":
                mname = base[1]
                if mname in p.modules:
                    r = p.resolve_name(p.modules[mname], fn.attr)
                    if isinstance(r, (ClassInfo, FunctionInfo, External)):
                        return r
                    return None
                return External(f"{mname}.{fn.attr}")
            if isinstance(base, ClassInfo):
                m = p.lookup_member(base, fn.attr)
                if m and m[0] == "method":
                    return m[1]
                if m and m[0] == "external":
                    return External(f"{m[1].name}.{fn.attr}")
                return None
            if isinstance(base, tuple) and base[0] == "type":
                c = base[1]
                if isinstance(c, ClassInfo):
                    m = p.lookup_member(c, fn.attr)
                    if m and m[0] == "method":
                        return m[1]
                    if m and m[0] == "external":
                        return External(f"{m[1].name}.{fn.attr}")
                elif isinstance(c, External):
                    return External(f"{c.name}.{fn.attr}")
                return None
            if isinstance(base, External):
                return External(f"{base.name}.{fn.attr}")
            r = p.resolve_expr(fi.module, fn)
            if isinstance(r, (ClassInfo, FunctionInfo, External)):
                return r
            if base is None and fn.attr in VALUE_METHODS:
                return External("value." + fn.attr)
        return None


VALUE_METHODS = set()
for _t in (str, list, dict, set, tuple, bytes):
    VALUE_METHODS.update(n for n in dir(_t) if not n.startswith("_"))
VALUE_METHODS.update(("popleft", "appendleft", "getvalue", "write", "read", "seek", "readline"))
VALUE_METHODS -= {"open", "serialize", "blank", "matches"}


def call_args(call: ast.Call, callee: Optional[FunctionInfo] = None, bound: bool = False) -> Dict[str, ast.expr]:
    """Map parameter name -> argument expression (positional mapped through *callee* when known).
    ``**x`` is returned under key "**", ``*x`` under "*"."""
    out: Dict[str, ast.expr] = {}
    names: List[str] = []
    if callee is not None:
        a = callee.node.args
        names = [x.arg for x in a.posonlyargs + a.args]
        if bound and names:
            names = names[1:]
    for i, arg in enumerate(call.args):
        if isinstance(arg, ast.Starred):
            out["*"] = arg.value
            continue
        if i < len(names):
            out[names[i]] = arg
        else:
            out[f"#{i}"] = arg
    for k in call.keywords:
        if k.arg is None:
            out["**"] = k.value
        else:
            out[k.arg] = k.value
    return out


def is_bound_call(typer: Typer, fi: FunctionInfo, call: ast.Call, callee: FunctionInfo) -> bool:
    """The call passes the receiver implicitly (instance or class method via attribute)."""
    if callee.cls is None or callee.parent is not None:
        return False
    if "staticmethod" in callee.decorators():
        return False
    if not isinstance(call.func, ast.Attribute):
        return False
    if any(d in ("classmethod", "abstractclassmethod") for d in callee.decorators()):
        return True
    base = typer.type_of(fi, call.func.value)
    if isinstance(base, tuple) and base[0] == "type":
        return False  # Class.method(self, ...)
    return True
