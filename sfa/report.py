"""
Rule instances, findings, known-findings matching, evidence files.
"""
from __future__ import annotations

import ast
import json
import os
import time
from dataclasses import dataclass, field, asdict
from typing import Any, Callable, Dict, Iterable, List, Optional, Tuple

from .engine import AnalysisError, FunctionInfo, Program, src
from .cfg import CFG

VERIF = os.path.dirname(os.path.dirname(os.path.abspath(__file__)))
EVIDENCE_DIR = os.path.join(VERIF, "evidence")
KNOWN_FILE = os.path.join(VERIF, "known_findings.json")

OK, VIOLATION, OBSERVATION = "ok", "violation", "observation"


@dataclass
class Instance:
    rule: str  # rule family, e.g. R-NULL
    clause: str  # clause id within the property, e.g. C01.4
    module: str
    func: str  # qualified function/class name ("" for module level)
    construct: str  # stable label of the construct (never a line number)
    verdict: str  # ok | violation | observation
    detail: str = ""
    line: int = 0
    path: Optional[List[str]] = None  # for path rules

    def key(self) -> Tuple[str, str, str, str]:
        return (self.rule, self.module, self.func, self.construct)

    def where(self) -> str:
        return f"{self.module.replace('.', '/')}:{self.line} {self.func}"


class Ctx:
    """What a clause sees: the program, cached CFGs, the tier, an instance sink."""

    def __init__(self, program: Program, prop: str, tier: str):
        self.p = program
        self.prop = prop
        self.tier = tier
        self.instances: List[Instance] = []
        self._cfgs: Dict[str, CFG] = {}
        self.notes: List[str] = []
        self.clause = ""
        self.floors: Dict[str, Tuple[int, int]] = {}  # label -> (found, floor)
        self.seen_through: set = set()  # private helpers whose bodies a rule examined itself (not opaque for the opacity gate)

    def cfg(self, f: FunctionInfo) -> CFG:
        if f.fq not in self._cfgs:
            self._cfgs[f.fq] = CFG(f.node)
        return self._cfgs[f.fq]

    # -- recording ---------------------------------------------------------
    def add(self, rule: str, f: Any, construct: str, ok: bool, detail: str = "", node: Optional[ast.AST] = None,
            path: Optional[List[str]] = None, observation: bool = False) -> Instance:
        if isinstance(f, FunctionInfo):
            module, func = f.module.name, f.qualname
        elif isinstance(f, tuple):
            module, func = f
        elif hasattr(f, "module") and hasattr(f, "name"):  # ClassInfo
            module, func = f.module.name, f.name
        else:
            module, func = str(f), ""
        verdict = OBSERVATION if observation else (OK if ok else VIOLATION)
        inst = Instance(rule, self.clause, module, func, construct, verdict, detail,
                        getattr(node, "lineno", 0) if node is not None else 0, path)
        self.instances.append(inst)
        return inst

    def ok(self, rule, f, construct, detail="", node=None):
        return self.add(rule, f, construct, True, detail, node)

    def bad(self, rule, f, construct, detail="", node=None, path=None):
        return self.add(rule, f, construct, False, detail, node, path)

    def observe(self, rule, f, construct, detail="", node=None):
        return self.add(rule, f, construct, True, detail, node, observation=True)

    def expect(self, rule, f, construct, cond: bool, detail_ok: str = "", detail_bad: str = "", node=None):
        return self.add(rule, f, construct, bool(cond), detail_ok if cond else (detail_bad or detail_ok), node)

    def floor(self, label: str, found: int, floor: int) -> None:
        """Fail closed when a rule matches fewer instances than confirmed by hand."""
        self.floors[f"{self.clause}:{label}"] = (found, floor)
        if found < floor:
            raise AnalysisError(
                f"{self.clause}: rule '{label}' matched {found} instance(s), fewer than the {floor} confirmed by hand "
                f"- the anchors moved or the recogniser no longer sees them"
            )


def load_known() -> Dict[str, Any]:
    if not os.path.exists(KNOWN_FILE):
        return {"known": [], "fixed": []}
    with open(KNOWN_FILE) as f:
        return json.load(f)


def known_match(inst: Instance, prop: str, known: Dict[str, Any]) -> Optional[Dict[str, Any]]:
    for k in known.get("known", []):
        if (k["property"] == prop and k["rule"] == inst.rule and k["module"] == inst.module
                and k["function"] == inst.func and k["construct"] == inst.construct):
            return k
    return None


def write_evidence(prop: str, tier: str, seed: int, ctx: Optional[Ctx], explanation: str, wall: float,
                   violations: List[Instance], known_hits: List[Tuple[Instance, Dict]], program: Optional[Program],
                   error: Optional[str] = None, extra: Optional[Dict[str, Any]] = None, assumptions: Optional[List[str]] = None) -> str:
    os.makedirs(EVIDENCE_DIR, exist_ok=True)
    insts = ctx.instances if ctx else []
    judged = [i for i in insts if i.verdict != OBSERVATION]
    oks = [i for i in judged if i.verdict == OK]
    distinct = {i.key() for i in judged}
    samples = []
    for i in insts[:400]:
        d = {"clause": i.clause, "rule": i.rule, "where": i.where(), "construct": i.construct, "verdict": i.verdict}
        if i.detail:
            d["detail"] = i.detail
        if i.path:
            d["path"] = i.path
        samples.append(d)
    cov: Dict[str, Any] = {
        "explanation": explanation,
        "obligations": len(judged),
        "discharged": len(oks) + len(known_hits),
        "evaluations": len(insts),
        "distinct_nontrivial": len(distinct),
        "rule": "one case = one rule instance (rule, module, function, construct); distinct = distinct keys; "
                "non-trivial = the instance carries an obligation that can fail (observations are not counted)",
        "samples": samples,
        "exhaustive": error is None,
        "observations": len([i for i in insts if i.verdict == OBSERVATION]),
        "known_findings_matched": [
            {"construct": i.construct, "where": i.where(), "what": k.get("what", "")} for i, k in known_hits
        ],
        "instance_floors": {k: {"found": v[0], "floor": v[1]} for k, v in (ctx.floors.items() if ctx else [])},
        "by_clause": _by_clause(insts),
    }
    if program is not None:
        nt = program.nontest_modules()
        cov["modules_analysed"] = len(program.modules)
        cov["nontest_modules"] = len(nt)
        cov["functions_analysed"] = len(program.nontest_functions())
        cov["classes_analysed"] = len(program.nontest_classes())
        cov["source_digest"] = program.digest
        cov["repo_root"] = program.root
    if ctx and ctx.notes:
        cov["notes"] = ctx.notes
    if error:
        cov["analysis_error"] = error
    if extra:
        cov.update(extra)
    ev = {
        "property_id": prop,
        "tier": tier,
        "seed": seed,
        "level": "other",
        "coverage": cov,
        "assumptions": assumptions or [],
        "wall_s": round(wall, 3),
        "violations": len(violations),
    }
    path = os.path.join(EVIDENCE_DIR, f"{prop}.json")
    tmp = path + ".tmp"
    with open(tmp, "w") as f:
        json.dump(ev, f, indent=1, default=str)
    os.replace(tmp, path)
    return path


def _by_clause(insts: List[Instance]) -> Dict[str, Dict[str, int]]:
    out: Dict[str, Dict[str, int]] = {}
    for i in insts:
        d = out.setdefault(i.clause, {"ok": 0, "violation": 0, "observation": 0})
        d[i.verdict] += 1
    return out


def write_replay(prop: str, n: int, inst: Instance, program: Program) -> str:
    d = os.path.join(EVIDENCE_DIR, "replay")
    os.makedirs(d, exist_ok=True)
    path = os.path.join(d, f"{prop}-{n}.json")
    with open(path, "w") as f:
        json.dump({"property": prop, "finding": asdict(inst), "repo_root": program.root, "source_digest": program.digest}, f, indent=1)
    return path
