"""
Residual opacity of a function after the load-time normal form.

The rules judge a function by what its (normalised) body does.  A body that still *mentions package-private code the
normaliser did not see through* - a private helper passed around as a value, a call through a table of callables, a private
method or class that was not dissolved - is not fully known to the rules: a mismatch found on such a body cannot be told
apart from an unfamiliar spelling of the right behaviour.  `residuals()` lists those constructs; the runner turns a
violation on a function with residuals into "unrecognised shape" (ANALYSIS-ERROR, exit 2) instead of a VIOLATION.

The pinned tree has no residuals in any function a rule is anchored on (confirmed by `tools/residuals.py`); the list of
accepted higher-order uses below is what the repository itself does.
"""
from __future__ import annotations

import ast
import os
from typing import Dict, List, Optional, Set

from .engine import FunctionInfo, Program
from .normalize import anchors

# callables that take a function value and are understood by the path-effect lowering when the value is a lambda or an anchored name
_KNOWN_HO = {"sorted", "min", "max", "map", "filter", "reduce", "groupby", "merge", "partial", "property", "defaultdict", "sort"}


def _private_functions(p: Program) -> Dict[str, Set[str]]:
    """module -> names of module-level functions / classes that count as private helpers (not anchored)."""
    cache = getattr(p, "_opaque_private", None)
    if cache is not None:
        return cache
    out: Dict[str, Set[str]] = {}
    anch = anchors()
    for name, m in p.modules.items():
        if m.is_test:
            continue
        priv_mod = "._private" in name or name.endswith("_private")
        s: Set[str] = set()
        for st in m.tree.body:
            if isinstance(st, (ast.FunctionDef, ast.ClassDef)) and st.name not in anch and not (st.name.startswith("__") and st.name.endswith("__")):
                if st.name.startswith("_") or (priv_mod and isinstance(st, ast.FunctionDef)):
                    s.add(st.name)
        out[name] = s
    p._opaque_private = out
    return out


def _private_variables(p: Program) -> Dict[str, Set[str]]:
    """module -> private module-level names bound by assignment to something that is not a plain literal (a computed table, an object): what
    is left of them after the constant / table passes is data the rules have not evaluated."""
    cache = getattr(p, "_opaque_privvars", None)
    if cache is not None:
        return cache
    out: Dict[str, Set[str]] = {}
    for name, m in p.modules.items():
        if m.is_test:
            continue
        s: Set[str] = set()
        for st in m.tree.body:
            tgt = val = None
            if isinstance(st, ast.Assign) and len(st.targets) == 1 and isinstance(st.targets[0], ast.Name):
                tgt, val = st.targets[0].id, st.value
            elif isinstance(st, ast.AnnAssign) and isinstance(st.target, ast.Name) and st.value is not None:
                tgt, val = st.target.id, st.value
            if isinstance(val, ast.Call) and isinstance(val.func, ast.Name) and val.func.id in ("TypeVar", "NewType"):
                continue
            # a table *computed* from other tables (comprehension, tuple arithmetic, zip): plain constructor calls (re.compile, frozenset, deque)
            # are ordinary objects the rules treat as such
            if tgt and tgt.startswith("_") and not tgt.startswith("__") and any(
                    isinstance(x, (ast.GeneratorExp, ast.ListComp, ast.DictComp, ast.SetComp)) or (isinstance(x, ast.BinOp) and any(isinstance(y, (ast.Tuple, ast.List)) for y in (x.left, x.right)))
                    or (isinstance(x, ast.Call) and isinstance(x.func, ast.Name) and (x.func.id == "zip" or (x.func.id.startswith("_") and not x.func.id.startswith("__")))) for x in ast.walk(val)):
                s.add(tgt)
        out[name] = s
    p._opaque_privvars = out
    return out


def _imported_private(p: Program, modname: str) -> Dict[str, str]:
    """local name -> "module:name" for private helpers imported into *modname* from other modules of the package."""
    m = p.modules[modname]
    priv = _private_functions(p)
    out: Dict[str, str] = {}
    for st in ast.walk(m.tree):
        if isinstance(st, ast.ImportFrom):
            try:
                src_mod = p._abs_import(m, st.level, st.module)
            except Exception:
                continue
            for a in st.names:
                for cand in (src_mod, f"{src_mod}.{a.name}"):
                    if cand in priv and a.name in priv[cand]:
                        out[a.asname or a.name] = f"{cand}:{a.name}"
    return out


def baseline_new_nested(p: Program, fi: FunctionInfo) -> Set[str]:
    """Names of the nested functions of *fi* that survive the normal form and are not anchors.  (On the pinned tree every such function is
    either an anchor the rules name or was inlined; what is left after a refactoring is code the rules have not looked into.)"""
    # only two-level nesting (a nested function that defines functions of its own) - the shape the inliner cannot dissolve; a plain closure
    # that stayed is readable for the rules (the grouping closures, a cache helper a change added)
    two_level = {n.name for n in ast.walk(fi.node) if isinstance(n, (ast.FunctionDef, ast.AsyncFunctionDef)) and n is not fi.node
                 and any(isinstance(m, (ast.FunctionDef, ast.AsyncFunctionDef)) and m is not n for m in ast.walk(n))}
    if os.environ.get("SFA_NESTED_NEW"):
        import json
        try:
            with open(os.path.join(os.path.dirname(os.path.abspath(__file__)), "nested_baseline.json")) as f:
                base = set(json.load(f).get(fi.module.name, []))
        except (OSError, ValueError):
            base = None
        if base is not None:
            two_level |= {n.name for n in ast.walk(fi.node) if isinstance(n, (ast.FunctionDef, ast.AsyncFunctionDef)) and n is not fi.node and n.name not in base}
    return two_level


def residuals(p: Program, fi: FunctionInfo) -> List[str]:
    """Constructs in the normalised body of *fi* (nested functions included) that the rules cannot see through."""
    cache = getattr(p, "_opaque_cache", None)
    if cache is None:
        cache = p._opaque_cache = {}
    if fi.fq in cache:
        return cache[fi.fq]
    priv_here = _private_functions(p).get(fi.module.name, set())
    imported = _imported_private(p, fi.module.name)
    anch = anchors()
    out: List[str] = []
    # private methods of the class hierarchy that still exist (were not inlined)
    priv_methods: Set[str] = set()
    if fi.cls is not None:
        for c in p.mro(fi.cls):
            for mname in getattr(c, "methods", {}) or {}:
                mn = mname.split("@")[0]
                if mn.startswith("_") and not mn.startswith("__") and mn not in anch:
                    priv_methods.add(mn)
    local_defs = {n.name for n in ast.walk(fi.node) if isinstance(n, (ast.FunctionDef, ast.AsyncFunctionDef)) and n is not fi.node}
    shadow = {a.arg for n in ast.walk(fi.node) if isinstance(n, (ast.FunctionDef, ast.Lambda)) for a in n.args.posonlyargs + n.args.args + n.args.kwonlyargs}
    shadow |= {n.id for n in ast.walk(fi.node) if isinstance(n, ast.Name) and isinstance(n.ctx, ast.Store)}
    parents: Dict[int, ast.AST] = {}
    for n in ast.walk(fi.node):
        for c in ast.iter_child_nodes(n):
            parents[id(c)] = n
    priv_vars = _private_variables(p).get(fi.module.name, set())
    # module aliases: `from ._private import extensions`, `import simfile._private.extensions as extensions`
    mod_aliases: Dict[str, str] = {}
    for st in fi.module.tree.body:
        if isinstance(st, ast.ImportFrom):
            try:
                src_mod = p._abs_import(fi.module, st.level, st.module)
            except Exception:
                continue
            for a in st.names:
                cand = f"{src_mod}.{a.name}" if src_mod else a.name
                if cand in p.modules:
                    mod_aliases[a.asname or a.name] = cand
    for n in ast.walk(fi.node):
        if isinstance(n, ast.Name) and isinstance(n.ctx, ast.Load) and n.id in priv_vars and n.id not in shadow:
            out.append(f"private module-level table {n.id} (computed, not resolved)")
        if isinstance(n, (ast.FunctionDef, ast.AsyncFunctionDef)) and n is not fi.node and n.name not in anch and n.name in baseline_new_nested(p, fi):
            out.append(f"nested function {n.name} (not inlined)")
        if isinstance(n, ast.Name) and isinstance(n.ctx, ast.Load) and n.id not in shadow:
            if n.id in priv_here or n.id in imported:
                out.append(f"private helper {n.id} (not inlined)")
            elif n.id in local_defs and n.id not in anch:
                par = parents.get(id(n))
                if not (isinstance(par, ast.Call) and par.func is n):
                    out.append(f"nested function {n.id} used as a value")
        elif isinstance(n, ast.Attribute) and isinstance(n.value, ast.Name) and isinstance(n.ctx, ast.Load) and n.value.id in mod_aliases \
                and n.attr in _private_functions(p).get(mod_aliases[n.value.id], set()):
            out.append(f"private helper {n.value.id}.{n.attr} (not inlined)")
        elif isinstance(n, ast.Call):
            f = n.func
            if not isinstance(f, (ast.Name, ast.Attribute)):
                out.append(f"call through a computed callable: {ast.unparse(f)[:60]}")
            elif isinstance(f, ast.Attribute) and isinstance(f.value, ast.Name) and f.value.id in ("self", "cls") and f.attr in priv_methods:
                out.append(f"private method {f.attr} (not inlined)")
        elif isinstance(n, ast.Attribute) and isinstance(n.value, ast.Name) and n.value.id in ("self", "cls") and n.attr in priv_methods:
            par = parents.get(id(n))
            if not (isinstance(par, ast.Call) and par.func is n) and isinstance(n.ctx, ast.Load):
                # a private *method* handed on as a value (data attributes are not in priv_methods)
                out.append(f"private method {n.attr} used as a value")
    out = sorted(set(out))
    cache[fi.fq] = out
    return out


def residuals_for(p: Program, module: str, qualname: str) -> List[str]:
    """Residuals of the function a finding is reported on, and of the functions it is nested in."""
    fq = f"{module}:{qualname}"
    fi: Optional[FunctionInfo] = p.functions.get(fq)
    if fi is None:
        # a class-level finding: every method of the class
        ci = p.classes.get(fq)
        if ci is None:
            return []
        out: List[str] = []
        for f2 in p.functions.values():
            if f2.cls is ci and f2.parent is None:
                out.extend(f"{f2.qualname}: {r}" for r in residuals(p, f2))
        return out
    while fi.parent is not None:
        fi = fi.parent
    return residuals(p, fi)
