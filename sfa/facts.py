"""
Facts about the dependency (msdparser, read from its *source*) and about the
standard library of the interpreter the repo runs on (introspection of the
stdlib, never of the repo).
"""
from __future__ import annotations

import ast
import functools
import importlib.util
import inspect
import os
from typing import Any, Dict, List

from .engine import AnalysisError

_cache: Dict[str, Any] = {}


def _msdparser_dir() -> str:
    spec = importlib.util.find_spec("msdparser")
    if spec is None or not spec.submodule_search_locations:
        raise AnalysisError("msdparser source not found (needed for the Optional[str] fact about MSDParameter.value)")
    return list(spec.submodule_search_locations)[0]


def msdparser_facts() -> Dict[str, Any]:
    """Return annotations of MSDParameter.key/.value/.components and parse_msd's keyword names."""
    if "msd" in _cache:
        return _cache["msd"]
    d = _msdparser_dir()
    out: Dict[str, Any] = {}
    with open(os.path.join(d, "parameter.py"), encoding="utf-8") as f:
        tree = ast.parse(f.read())
    for node in tree.body:
        if isinstance(node, ast.ClassDef) and node.name == "MSDParameter":
            for st in node.body:
                if isinstance(st, ast.FunctionDef) and st.name in ("key", "value") and st.returns is not None:
                    out[st.name] = ast.unparse(st.returns)
                if isinstance(st, ast.AnnAssign) and isinstance(st.target, ast.Name) and st.target.id == "components":
                    out["components"] = ast.unparse(st.annotation)
    with open(os.path.join(d, "parser.py"), encoding="utf-8") as f:
        tree = ast.parse(f.read())
    for node in tree.body:
        if isinstance(node, ast.FunctionDef) and node.name == "parse_msd":
            a = node.args
            out["parse_msd_params"] = [x.arg for x in a.posonlyargs + a.args + a.kwonlyargs]
    for k in ("key", "value", "components", "parse_msd_params"):
        if k not in out:
            raise AnalysisError(f"msdparser fact '{k}' could not be read from its source")
    _cache["msd"] = out
    return out


def value_is_optional() -> bool:
    return "Optional" in msdparser_facts()["value"] or "None" in msdparser_facts()["value"]


RICH = ("__lt__", "__le__", "__gt__", "__ge__")


def base_defines_rich(pytype: type) -> List[str]:
    """Rich comparison operators defined by *pytype* itself or a non-object base."""
    out = []
    for op in RICH:
        for k in pytype.__mro__:
            if k is object:
                continue
            if op in vars(k):
                out.append(op)
                break
    return out


def total_ordering_fills_only_missing() -> bool:
    """functools.total_ordering only adds operators whose implementation is object's:
    read from its source ('getattr(cls, op, None) is not getattr(object, op, None)')."""
    if "to" in _cache:
        return _cache["to"]
    try:
        s = inspect.getsource(functools.total_ordering)
    except (OSError, TypeError):
        raise AnalysisError("source of functools.total_ordering is not available")
    ok = "getattr(object, op, None)" in s and "if opname not in roots" in s
    _cache["to"] = ok
    return ok


def fraction_dunders() -> List[str]:
    import fractions
    names = []
    for n, v in vars(fractions.Fraction).items():
        if n.startswith("__") and n.endswith("__") and callable(v):
            names.append(n)
    return sorted(names)
