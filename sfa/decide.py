"""
Decision tables: enumerate the paths of a function together with a consistent
truth assignment of its guard atoms (canonicalised: locals inlined, negated
comparisons flipped, operands ordered) and compare "assignment -> outcome" with
a specification.  A De Morgan rewrite, an early return instead of an else, a
merged or split condition or a negated-and-swapped if all give the same table.
"""
from __future__ import annotations

import ast
import itertools
from dataclasses import dataclass, field
from typing import Any, Callable, Dict, Iterable, List, Optional, Sequence, Tuple

from .cfg import CFG, PathEnumerator
from .engine import AnalysisError, FunctionInfo, src
from .flow import inline
from .report import Ctx

IGNORE = object()

_FLIP = {ast.IsNot: ast.Is, ast.NotIn: ast.In, ast.NotEq: ast.Eq}
_SWAP = {ast.Gt: ast.Lt, ast.GtE: ast.LtE}


def canon_atom(fi: Optional[FunctionInfo], e: ast.AST, stop: Iterable[str] = ()) -> Tuple[str, bool]:
    """(canonical source text, flipped?) of a guard atom."""
    if fi is not None and isinstance(e, ast.expr):
        try:
            e = inline(e, fi, stop=stop)
        except Exception:
            pass
    from .peff import canon
    return canon(e)


def canon_key(text: str) -> Tuple[str, bool]:
    """(canonical key, flipped?) of an atom given as source text."""
    return canon_atom(None, ast.parse(text, mode="eval").body)


def key(text: str) -> str:
    """Canonical key of an atom given as source text (a specification may spell an atom either way: 'a <= b' is kept as 'not (b < a)')."""
    return canon_key(text)[0]


@dataclass
class Decision:
    assign: Dict[str, bool]
    nodes: List[int]
    end: int
    cfg: CFG

    def stmts(self) -> List[ast.AST]:
        return [self.cfg.nodes[n].ast for n in self.nodes if self.cfg.nodes[n].ast is not None]

    def terminal(self) -> Tuple[str, Optional[ast.AST]]:
        """("return", expr|None) / ("raise", expr) / ("fall", None)"""
        for n in reversed(self.nodes):
            node = self.cfg.nodes[n]
            if node.kind == "return":
                return "return", node.ast.value
            if node.kind == "raise_stmt":
                return "raise", node.ast.exc
            if node.ast is not None:
                break
        return "fall", None


def decisions(ctx: Ctx, fi: FunctionInfo, opaque: Optional[Callable[[ast.AST], bool]] = None, stop: Iterable[str] = (), nonempty=None, limit: int = 20000) -> List[Decision]:
    cfg = ctx.cfg(fi)
    stop = tuple(stop)
    pe = PathEnumerator(cfg, atoms=True, follow_exc=False, atom_canon=lambda e: canon_atom(fi, e, stop), opaque_ok=opaque, stop_at_raise=True, nonempty=nonempty, limit=limit)
    out = []
    for r in pe.paths():
        assign = {k[1:]: v for k, v in r.env.items() if k.startswith("#")}
        out.append(Decision(assign, r.nodes, r.end, cfg))
    return out


class OneOf:
    """An expected outcome with alternatives."""

    def __init__(self, *alts):
        self.alts = list(alts)

    def __eq__(self, other):
        return any(a == other for a in self.alts)

    def __ne__(self, other):
        return not self.__eq__(other)

    def __repr__(self):
        return " | ".join(repr(a) for a in self.alts)

    __hash__ = None


def check_table(decs: Sequence[Decision], atoms: Sequence[str], spec: Callable[[Dict[str, bool]], Any], outcome: Callable[[Decision], Any],
                dont_care: Iterable[str] = (), equiv: Optional[Dict[str, Tuple[str, bool]]] = None, strict_foreign: bool = False,
                assume: Optional[Dict[str, bool]] = None, constraint: Optional[Callable[[Dict[str, bool]], bool]] = None) -> Tuple[List[str], List[str]]:
    """Returns (violations, unknowns).  *atoms* are canonical keys; spec(total assignment) -> expected outcome or IGNORE.
    equiv: other spellings of a specification atom {text: (atom, same polarity?)} (library knowledge, e.g. 'len(p.components) > 1' == 'p.value is not None').
    strict_foreign: a path whose outcome differs from the specification is a violation even when it also tests conditions the specification does not know
    (they are treated as independent of the specification's atoms)."""
    asm = {}
    for k, v in (assume or {}).items():
        kk, flip = canon_key(k)
        asm[kk] = (v != flip)
    eq = {}
    for k, (a, pol) in (equiv or {}).items():
        kk, flip = canon_key(k)
        ka, fa = canon_key(a)
        eq[kk] = (ka, pol != (flip != fa))
    given = list(atoms)
    flips = {key(a): canon_key(a)[1] for a in atoms}
    atoms = [key(a) for a in atoms]
    back = dict(zip(atoms, given))
    _spec = spec

    def spec(total):  # the specification sees the atoms under the spelling (and polarity) it was given
        return _spec({back[k]: (v != flips[k]) for k, v in total.items()})

    dont_care = {key(a) for a in dont_care}
    violations: List[str] = []
    unknowns: List[str] = []
    covered = set()
    for d in decs:
        got = outcome(d)
        if got is IGNORE:
            continue
        assign = {}
        feasible = True
        for k, v in d.assign.items():
            if k in eq:
                k, v = eq[k][0], (v if eq[k][1] else not v)
            if k in assign and assign[k] != v:
                feasible = False
            assign.setdefault(k, v)
        if not feasible:
            continue
        if any(k in assign and assign[k] != v for k, v in asm.items()):
            continue  # the path needs a value the domain rules out (e.g. a note that is falsy)
        foreign = set(assign) - set(atoms) - dont_care - set(asm)
        part = {a: assign[a] for a in atoms if a in assign}
        missing = [a for a in atoms if a not in part]
        for bits in itertools.product([False, True], repeat=len(missing)):
            total = dict(part)
            total.update(dict(zip(missing, bits)))
            if constraint is not None:
                # everything this path knows (also about conditions outside the table) plus the completion, by canonical key
                full = dict(assign)
                full.update(total)
                if not constraint(full):
                    continue
            exp = spec(total)
            if exp is IGNORE:
                continue
            covered.add(tuple(sorted(total.items())))
            if got != exp:
                msg = f"under {_show(total)} the outcome is {got!r}, expected {exp!r}"
                # a condition that is a call of a private function the engine did not see through is not an independent condition but
                # unread code: the path is unrecognised, whatever the policy on foreign conditions
                unread = [k for k in foreign if _PRIVATE_CALL.match(k)]
                if unread:
                    unknowns.append(msg + f" (the path is decided by private code that was not resolved: {sorted(unread)})")
                elif foreign and strict_foreign:
                    msg += f" (the path also tests {sorted(foreign)}, which the specification does not make the outcome depend on)"
                    if msg not in violations:
                        violations.append(msg)
                elif foreign:
                    unknowns.append(msg + f" (path also depends on unrecognised conditions: {sorted(foreign)})")
                elif msg not in violations:
                    violations.append(msg)
    for bits in itertools.product([False, True], repeat=len(atoms)):
        total = dict(zip(atoms, bits))
        if spec(total) is IGNORE:
            continue
        if tuple(sorted(total.items())) not in covered:
            violations.append(f"no path handles {_show(total)} (expected {spec(total)!r})")
    return violations, unknowns


import re as _re
_PRIVATE_CALL = _re.compile(r"^_[A-Za-z0-9]\w*\(")


def _show(total: Dict[str, bool]) -> str:
    return " & ".join(("" if v else "not ") + f"({k})" for k, v in total.items())


def judge_table(ctx: Ctx, rule: str, fi: FunctionInfo, construct: str, decs, atoms, spec, outcome, dont_care=(), node=None, equiv=None, strict_foreign: bool = True) -> None:
    v, u = check_table(decs, atoms, spec, outcome, dont_care, equiv=equiv, strict_foreign=strict_foreign)
    if v:
        ctx.bad(rule, fi, construct, "; ".join(v[:3]), node=node or fi.node)
    elif u:
        raise AnalysisError(f"{fi.fq}: {construct}: " + u[0])
    else:
        ctx.ok(rule, fi, construct, f"{len(decs)} paths", node=node or fi.node)


def symbolic_return(d: Decision) -> Optional[ast.expr]:
    """The returned expression of a path with the straight-line assignments along the path substituted in
    (x = E; x += F; return x  ->  E + F)."""
    import copy
    env: Dict[str, ast.expr] = {}

    class S(ast.NodeTransformer):
        def visit_Name(self, n):
            if isinstance(n.ctx, ast.Load) and n.id in env:
                return copy.deepcopy(env[n.id])
            return n

        def visit_Lambda(self, n):
            return n

    def sub(e):
        return S().visit(copy.deepcopy(e))

    for n in d.nodes:
        node = d.cfg.nodes[n]
        st = node.ast
        if node.kind == "stmt":
            if isinstance(st, ast.Assign) and len(st.targets) == 1 and isinstance(st.targets[0], ast.Name):
                env[st.targets[0].id] = sub(st.value)
            elif isinstance(st, ast.AnnAssign) and isinstance(st.target, ast.Name) and st.value is not None:
                env[st.target.id] = sub(st.value)
            elif isinstance(st, ast.AugAssign) and isinstance(st.target, ast.Name):
                left = env.get(st.target.id, ast.Name(id=st.target.id, ctx=ast.Load()))
                env[st.target.id] = ast.BinOp(left=left, op=st.op, right=sub(st.value))
        elif node.kind == "return":
            return sub(st.value) if st.value is not None else None
    return None
