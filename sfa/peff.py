"""
Path effects: enumerate the abstract paths of one function while carrying a
*symbolic environment* (every local is replaced by the expression it holds on
this path, down to parameters, loop variables and opaque results), and record

  * the truth value each guard atom had (atoms in closed form, canonicalised)
  * the sequence of effects (stores, calls, yields, returns, raises ...) with
    their operands in closed form.

Two functions that differ by temporaries, by `x = a if c else b` versus an
if/else, by a default-then-override, by guard clauses versus nesting, by merged
or split conditions or by De Morgan rewrites have the same summaries.

Loops: body analysed for one general iteration (every local the body may rebind
is opaque at its entry) or skipped; after a loop the locals it rebinds are opaque.
"""
from __future__ import annotations

import ast
import copy
from dataclasses import dataclass, field
from typing import Any, Callable, Dict, Iterable, Iterator, List, Optional, Sequence, Set, Tuple

from .cfg import CFG, _assigned_in, _names
from .engine import AnalysisError, FunctionInfo

PURE_FUNCS = {"isinstance", "len", "type", "hasattr", "callable", "str", "int", "float", "bool", "tuple", "list", "set", "frozenset", "dict", "abs", "min", "max", "sorted", "any", "all", "sum",
              "repr", "iter", "zip", "enumerate", "range", "map", "filter", "Decimal", "Fraction", "getattr"}
PURE_METHODS = {"lower", "upper", "strip", "lstrip", "rstrip", "startswith", "endswith", "split", "rsplit", "splitlines", "join", "get", "items", "keys", "values", "index", "count", "casefold",
                "format", "replace", "find", "rfind", "isdigit", "copy", "partition", "rpartition", "encode", "decode", "match", "fullmatch", "search", "group", "groups", "title", "zfill",
                "splitext", "basename", "dirname", "normcase"}

MUTATING_METHODS = {"append", "add", "update", "clear", "pop", "popitem", "setdefault", "extend", "insert", "remove", "discard", "sort", "reverse", "appendleft", "popleft", "write", "seek", "advance"}

_FLIP = {ast.IsNot: ast.Is, ast.NotIn: ast.In, ast.NotEq: ast.Eq}
_SWAP = {ast.Gt: ast.Lt, ast.GtE: ast.LtE}


def is_pure(e: ast.AST) -> bool:
    for n in ast.walk(e):
        if isinstance(n, ast.Call):
            f = n.func
            if isinstance(f, ast.Name) and (f.id in PURE_FUNCS or f.id[:1].isupper()):
                continue
            if isinstance(f, ast.Attribute) and f.attr in PURE_METHODS:
                continue
            return False
        if isinstance(n, (ast.Await, ast.Yield, ast.YieldFrom, ast.NamedExpr)):
            return False
    return True


VALUE_METHODS = {"lower", "upper", "strip", "lstrip", "rstrip", "startswith", "endswith", "split", "rsplit", "splitlines", "join", "casefold", "format", "replace", "find", "rfind",
                 "isdigit", "partition", "rpartition", "encode", "decode", "title", "zfill", "splitext", "basename", "dirname", "normcase", "search", "fullmatch"}


def reads_state(e: ast.AST, value_calls: Iterable[str] = ()) -> bool:
    """The closed form contains a call whose result depends on the current state of a (possibly mutable) object: str(x), len(x), x.get(k) ..."""
    for n in ast.walk(e):
        if isinstance(n, ast.Call):
            f = n.func
            if isinstance(f, ast.Attribute) and f.attr in VALUE_METHODS:
                continue
            if isinstance(f, ast.Name) and f.id in ("Decimal", "Fraction", "int", "float", "bool", "abs") and all(isinstance(a, (ast.Constant, ast.Name, ast.Attribute)) for a in n.args):
                continue
            if isinstance(f, ast.Name) and f.id in ("isinstance", "type", "id") and n.args and isinstance(n.args[0], ast.Name):
                continue  # what class an object is (and which object it is) does not change with the object's state
            if (isinstance(f, ast.Name) and f.id in value_calls) or (isinstance(f, ast.Attribute) and ast.unparse(f) in value_calls):
                continue  # constructor of an immutable value from its arguments
            return True
    return False


SUBST_FUNCS = PURE_FUNCS - {"iter", "zip", "enumerate", "map", "filter", "getattr"}


def substitutable(e: ast.AST, extra: Iterable[str] = ()) -> bool:
    """The expression may be duplicated at its uses: value semantics, no effect, no fresh mutable object, no read of mutable state through a call."""
    extra = set(extra)
    for n in ast.walk(e):
        if isinstance(n, ast.Call):
            f = n.func
            if isinstance(f, ast.Name) and f.id in ("set", "list", "dict") and not n.args and not n.keywords:
                return False  # a fresh empty container: it is going to be filled, its identity matters
            if isinstance(f, ast.Name) and ((f.id in SUBST_FUNCS and not f.id[:1].isupper()) or f.id in extra or f.id in ("Decimal", "Fraction")):
                continue
            if isinstance(f, ast.Attribute) and f.attr in PURE_METHODS:
                continue
            if isinstance(f, ast.Attribute) and ast.unparse(f) in extra:
                continue
            return False
        if isinstance(n, (ast.Await, ast.Yield, ast.YieldFrom, ast.NamedExpr, ast.ListComp, ast.SetComp, ast.DictComp, ast.GeneratorExp, ast.Lambda)):
            return False
    if any(isinstance(n, (ast.List, ast.Dict, ast.Set)) for n in ast.walk(e)):
        return False  # a fresh mutable object: its identity matters
    return True


def never_none(e: ast.AST) -> bool:
    """The expression cannot evaluate to None: a constructor call, a display, an f-string, a non-None constant."""
    if isinstance(e, ast.Call):
        f = e.func
        nm = f.id if isinstance(f, ast.Name) else (f.attr if isinstance(f, ast.Attribute) else "")
        if nm[:1].isupper() or nm in ("list", "dict", "set", "tuple", "str", "int", "float", "frozenset", "sorted", "len", "iter", "zip", "map", "filter", "enumerate", "range", "repr", "bool"):
            return True
    if isinstance(e, (ast.List, ast.Tuple, ast.Dict, ast.Set, ast.JoinedStr, ast.ListComp, ast.SetComp, ast.DictComp, ast.GeneratorExp, ast.Lambda)):
        return True
    if isinstance(e, ast.Call) and isinstance(e.func, ast.Attribute) and e.func.attr in ("join", "lower", "upper", "strip", "lstrip", "rstrip", "split", "rsplit", "splitlines", "format", "replace",
                                                                                          "partition", "rpartition", "normpath", "casefold", "title", "encode", "decode", "getvalue"):
        return True
    return isinstance(e, ast.Constant) and e.value is not None


def canon(e: ast.AST) -> Tuple[str, bool]:
    """(canonical text, flipped?) of an atom in closed form."""
    flip = False
    while isinstance(e, ast.UnaryOp) and isinstance(e.op, ast.Not):
        e = e.operand
        flip = not flip
    # truthiness of d.values() / d.keys() / d.items() / len(d) / bool(d) is the truthiness of d
    changed = True
    while changed:
        changed = False
        if isinstance(e, ast.Call) and not e.keywords:
            if isinstance(e.func, ast.Attribute) and e.func.attr in ("values", "keys", "items") and not e.args:
                e, changed = e.func.value, True
            elif isinstance(e.func, ast.Name) and e.func.id in ("len", "bool") and len(e.args) == 1:
                e, changed = e.args[0], True
        elif isinstance(e, ast.Compare) and len(e.ops) == 1 and isinstance(e.left, ast.Call) and isinstance(e.left.func, ast.Name) and e.left.func.id == "len" and len(e.left.args) == 1 \
                and isinstance(e.comparators[0], ast.Constant) and e.comparators[0].value == 0 and isinstance(e.ops[0], (ast.Gt, ast.NotEq, ast.Eq)):
            if isinstance(e.ops[0], ast.Eq):
                flip = not flip
            e, changed = e.left.args[0], True
    if isinstance(e, ast.Compare) and len(e.ops) == 1:
        # s.find(x) compared with -1 / 0 is membership: find() != -1, find() >= 0, find() > -1  <=>  x in s
        def _neg1(x):
            return isinstance(x, ast.UnaryOp) and isinstance(x.op, ast.USub) and isinstance(x.operand, ast.Constant) and x.operand.value == 1
        def _find(x):
            return isinstance(x, ast.Call) and isinstance(x.func, ast.Attribute) and x.func.attr == "find" and len(x.args) == 1 and not x.keywords
        l0, r0, op0 = e.left, e.comparators[0], e.ops[0]
        if _find(r0) and not _find(l0):
            l0, r0 = r0, l0
            op0 = {ast.Lt: ast.Gt, ast.Gt: ast.Lt, ast.LtE: ast.GtE, ast.GtE: ast.LtE}.get(type(op0), type(op0))()
        if _find(l0):
            member = None
            if _neg1(r0) and isinstance(op0, (ast.NotEq, ast.Gt)):
                member = True
            elif _neg1(r0) and isinstance(op0, ast.Eq):
                member = False
            elif isinstance(r0, ast.Constant) and r0.value == 0 and isinstance(op0, ast.GtE):
                member = True
            elif isinstance(r0, ast.Constant) and r0.value == 0 and isinstance(op0, ast.Lt):
                member = False
            if member is not None:
                e = ast.Compare(left=l0.args[0], ops=[ast.In()], comparators=[l0.func.value])
                if not member:
                    flip = not flip
    if isinstance(e, ast.Compare) and len(e.ops) == 1:
        op, l, r = e.ops[0], e.left, e.comparators[0]
        if type(op) in _FLIP:
            op = _FLIP[type(op)]()
            flip = not flip
        if type(op) in _SWAP:
            op = _SWAP[type(op)]()
            l, r = r, l
        if isinstance(op, ast.LtE):
            # a <= b  ==  not (b < a)   (total orders; NaN is outside the domain of these guards)
            op = ast.Lt()
            l, r = r, l
            flip = not flip
        if isinstance(op, (ast.Eq, ast.Is)) and ast.unparse(l) > ast.unparse(r):
            l, r = r, l
        if isinstance(op, ast.In) and isinstance(r, (ast.Tuple, ast.List, ast.Set)) and all(isinstance(x, ast.Constant) for x in r.elts):
            try:
                r = ast.Tuple(elts=sorted(r.elts, key=lambda c: (type(c.value).__name__, c.value)), ctx=ast.Load())
            except TypeError:
                pass
        elif isinstance(op, ast.In) and isinstance(r, (ast.Tuple, ast.List, ast.Set)) and r.elts and all(isinstance(x, (ast.Constant, ast.Name, ast.Attribute)) for x in r.elts):
            # membership in a display of names / enum members: the order of the display does not matter
            r = ast.Tuple(elts=sorted(r.elts, key=lambda c: ast.unparse(c)), ctx=ast.Load())
        e = ast.Compare(left=l, ops=[op], comparators=[r])
    return ast.unparse(e), flip


def literal(v: Any) -> Optional[ast.expr]:
    """AST literal of a plain constant value (None when the value has no faithful literal)."""
    if v is None or isinstance(v, (str, int, float, bool)):
        return ast.Constant(value=v)
    if isinstance(v, (tuple, list)):
        elts = [literal(x) for x in v]
        if any(x is None for x in elts):
            return None
        return ast.Tuple(elts=elts, ctx=ast.Load()) if isinstance(v, tuple) else ast.List(elts=elts, ctx=ast.Load())
    if isinstance(v, (set, frozenset)):
        try:
            elts = [literal(x) for x in sorted(v)]
        except TypeError:
            return None
        if any(x is None for x in elts) or not elts:
            return None
        return ast.Tuple(elts=elts, ctx=ast.Load())
    return None


class _Fold(ast.NodeTransformer):
    def __init__(self, fold, bound: Set[str], records: Optional[Dict[str, List[str]]] = None):
        self.fold = fold
        self.bound = bound
        self.records = records or {}

    def _try(self, n):
        try:
            v = self.fold(n)
        except Exception:
            return None
        if v is None:
            return None
        return literal(v)

    def visit_Name(self, n: ast.Name):
        if isinstance(n.ctx, ast.Load) and n.id not in self.bound:
            l = self._try(n)
            if l is not None:
                return l
        return n

    def visit_ListComp(self, n: ast.ListComp):
        n = self.generic_visit(n)
        # [E for v in (c1, c2, ..)] over a display of constants is the display of its instances
        if len(n.generators) == 1 and not n.generators[0].ifs and not n.generators[0].is_async and isinstance(n.generators[0].target, ast.Name) \
                and isinstance(n.generators[0].iter, (ast.Tuple, ast.List)) and n.generators[0].iter.elts and all(isinstance(x, ast.Constant) for x in n.generators[0].iter.elts) \
                and len(n.generators[0].iter.elts) <= 16:
            v = n.generators[0].target.id
            out = []
            for c in n.generators[0].iter.elts:
                inst = subst(copy.deepcopy(n.elt), {v: c})
                out.append(self.visit(inst))
            return ast.List(elts=out, ctx=ast.Load())
        return n

    def _splice(self, n):
        n = self.generic_visit(n)
        if any(isinstance(e, ast.Starred) and isinstance(e.value, (ast.List, ast.Tuple)) for e in n.elts):
            elts = []
            for e in n.elts:
                if isinstance(e, ast.Starred) and isinstance(e.value, (ast.List, ast.Tuple)):
                    elts.extend(e.value.elts)  # *(a, b) inside a display is a, b
                else:
                    elts.append(e)
            n.elts = elts
        return n

    def visit_Tuple(self, n: ast.Tuple):
        return self._splice(n) if isinstance(n.ctx, ast.Load) else self.generic_visit(n)

    def visit_List(self, n: ast.List):
        return self._splice(n) if isinstance(n.ctx, ast.Load) else self.generic_visit(n)

    def visit_FormattedValue(self, n: ast.FormattedValue):
        n = self.generic_visit(n)
        if n.conversion == 114 and "repr" not in self.bound and n.format_spec is None:
            # f"{x!r}" is f"{repr(x)}"
            return ast.FormattedValue(value=ast.Call(func=ast.Name(id="repr", ctx=ast.Load()), args=[n.value], keywords=[]), conversion=-1, format_spec=None)
        if n.conversion == 115 and "str" not in self.bound and n.format_spec is None:
            return ast.FormattedValue(value=n.value, conversion=-1, format_spec=None)  # f"{x!s}" formats str(x), as f"{x}" does for every str()-able object whose __format__ is the default
        return n

    def visit_Attribute(self, n: ast.Attribute):
        v = n.value
        if isinstance(v, ast.Call) and isinstance(v.func, ast.Name) and v.func.id in self.records and isinstance(n.ctx, ast.Load):
            v = self.visit(v)  # keywords by field
            for k in getattr(v, "keywords", []):
                if k.arg == n.attr:
                    return self.visit(k.value) if not isinstance(k.value, ast.Constant) else k.value
            n.value = v
            return n
        root = n
        while isinstance(root, ast.Attribute):
            root = root.value
        if isinstance(n.ctx, ast.Load) and isinstance(root, ast.Name) and root.id not in self.bound:
            l = self._try(n)
            if l is not None:
                return l
        return self.generic_visit(n)

    def visit_Call(self, n: ast.Call):
        n = self.generic_visit(n)
        if isinstance(n.func, ast.Name) and n.func.id == "len" and len(n.args) == 1 and isinstance(n.args[0], (ast.Tuple, ast.List)) and not n.keywords:
            return ast.Constant(value=len(n.args[0].elts))
        if isinstance(n.func, ast.Name) and n.func.id == "list" and len(n.args) == 1 and not n.keywords and isinstance(n.args[0], ast.Call) and isinstance(n.args[0].func, ast.Name) \
                and n.args[0].func.id in ("filter", "map") and len(n.args[0].args) == 2 and isinstance(n.args[0].args[0], ast.Lambda) and len(n.args[0].args[0].args.args) == 1:
            # list(filter(lambda v: P, it)) == [v for v in it if P] ; list(map(lambda v: E, it)) == [E for v in it]
            lam, it = n.args[0].args
            v = lam.args.args[0].arg
            tgt = ast.Name(id=v, ctx=ast.Store())
            if n.args[0].func.id == "filter":
                return ast.ListComp(elt=ast.Name(id=v, ctx=ast.Load()), generators=[ast.comprehension(target=tgt, iter=it, ifs=[lam.body], is_async=0)])
            return ast.ListComp(elt=lam.body, generators=[ast.comprehension(target=tgt, iter=it, ifs=[], is_async=0)])
        if isinstance(n.func, ast.Name) and n.func.id in ("filter", "map", "groupby", "sorted", "min", "max") and n.func.id not in self.bound:
            # operator.attrgetter('a') as a function value is lambda x: x.a
            def _ag(x):
                if isinstance(x, ast.Call) and ast.unparse(x.func) in ("attrgetter", "operator.attrgetter") and len(x.args) == 1 and not x.keywords and isinstance(x.args[0], ast.Constant) \
                        and isinstance(x.args[0].value, str) and x.args[0].value.isidentifier():
                    return ast.Lambda(args=ast.arguments(posonlyargs=[], args=[ast.arg(arg="_ag")], kwonlyargs=[], kw_defaults=[], defaults=[]),
                                      body=ast.Attribute(value=ast.Name(id="_ag", ctx=ast.Load()), attr=x.args[0].value, ctx=ast.Load()))
                return x
            n.args = [_ag(a) for a in n.args]
            for k_ in n.keywords:
                k_.value = _ag(k_.value)
        if isinstance(n.func, ast.Name) and n.func.id == "getattr" and "getattr" not in self.bound and len(n.args) == 2 and not n.keywords and isinstance(n.args[1], ast.Constant) \
                and isinstance(n.args[1].value, str) and n.args[1].value.isidentifier():
            return ast.Attribute(value=n.args[0], attr=n.args[1].value, ctx=ast.Load())
        if isinstance(n.func, ast.Name) and n.func.id in ("filter", "map") and n.func.id not in self.bound and len(n.args) == 2 and not n.keywords and isinstance(n.args[0], ast.Lambda) \
                and len(n.args[0].args.args) == 1 and not n.args[0].args.defaults:
            # filter(lambda v: P, it) is the lazy (v for v in it if P) ; map(lambda v: E, it) is (E for v in it)
            lam, it = n.args
            v = lam.args.args[0].arg
            tgt = ast.Name(id=v, ctx=ast.Store())
            if n.func.id == "filter":
                return ast.GeneratorExp(elt=ast.Name(id=v, ctx=ast.Load()), generators=[ast.comprehension(target=tgt, iter=it, ifs=[lam.body], is_async=0)])
            return ast.GeneratorExp(elt=lam.body, generators=[ast.comprehension(target=tgt, iter=it, ifs=[], is_async=0)])
        if isinstance(n.func, ast.Name) and n.func.id == "list" and "list" not in self.bound and len(n.args) == 1 and not n.keywords and isinstance(n.args[0], ast.GeneratorExp):
            return ast.ListComp(elt=n.args[0].elt, generators=n.args[0].generators)
        if isinstance(n.func, ast.Name) and n.func.id in self.records and n.func.id not in self.bound and not any(isinstance(a, ast.Starred) for a in n.args) \
                and not any(k.arg is None for k in n.keywords):
            # record constructors: positional arguments named by field order, keywords in field order
            fields = self.records[n.func.id]
            if len(n.args) <= len(fields):
                kws = {f: a for f, a in zip(fields, n.args)}
                for k in n.keywords:
                    kws[k.arg] = k.value
                n.args = []
                n.keywords = [ast.keyword(arg=f, value=kws[f]) for f in fields if f in kws] + [ast.keyword(arg=f, value=v) for f, v in kws.items() if f not in fields]
        return n


# ---------------------------------------------------------------------------
# lowering of conditional expressions (on a private copy of the function)


def _is_boolish(e: ast.AST) -> bool:
    return isinstance(e, (ast.Compare, ast.BoolOp)) or (isinstance(e, ast.UnaryOp) and isinstance(e.op, ast.Not)) or \
        (isinstance(e, ast.Call) and isinstance(e.func, ast.Name) and e.func.id in ("isinstance", "bool", "any", "all", "callable", "hasattr")) or \
        (isinstance(e, ast.Constant) and isinstance(e.value, bool))


class _Lower(ast.NodeTransformer):
    """x = A if c else B  ->  if c: x = A else: x = B ; likewise return / expression statements / subscript stores."""

    def _split(self, st: ast.stmt) -> Optional[ast.stmt]:
        v = st.value
        if isinstance(v, ast.BoolOp) and isinstance(v.op, ast.Or) and all(substitutable(x) for x in v.values[:-1]) and not any(_is_boolish(x) for x in v.values):
            # x = A or B  ->  if A: x = A else: x = B   (A has value semantics: evaluating it for the test and for the value is the same)
            a, b = copy.deepcopy(st), copy.deepcopy(st)
            a.value = v.values[0]
            b.value = v.values[1] if len(v.values) == 2 else ast.BoolOp(op=ast.Or(), values=v.values[1:])
            new = ast.If(test=copy.deepcopy(v.values[0]), body=[self.visit(a)], orelse=[self.visit(b)])
            return ast.copy_location(new, st)
        if isinstance(v, ast.Call) and isinstance(v.func, ast.Attribute) and v.func.attr == "get" and isinstance(v.func.value, ast.Dict) and 1 <= len(v.args) <= 2 and not v.keywords \
                and v.func.value.keys and all(isinstance(k, ast.Constant) for k in v.func.value.keys) and substitutable(v.args[0]):
            # x = {k1: v1, k2: v2}.get(K, D)  ->  if K == k1: x = v1 elif K == k2: x = v2 else: x = D
            d = v.func.value
            default = v.args[1] if len(v.args) == 2 else ast.Constant(value=None)
            tail = copy.deepcopy(st)
            tail.value = default
            node: ast.stmt = self.visit(tail)
            for k, val in reversed(list(zip(d.keys, d.values))):
                arm = copy.deepcopy(st)
                arm.value = val
                test = ast.Compare(left=copy.deepcopy(v.args[0]), ops=[ast.Eq()], comparators=[k])
                node = ast.copy_location(ast.If(test=test, body=[self.visit(arm)], orelse=[node]), st)
            return node
        if isinstance(v, ast.IfExp):
            a, b = copy.deepcopy(st), copy.deepcopy(st)
            a.value, b.value = v.body, v.orelse
            new = ast.If(test=v.test, body=[self.visit(a)], orelse=[self.visit(b)])
            return ast.copy_location(new, st)
        return None

    _n = [0]

    def _hoist_nested(self, st: ast.stmt, holder: ast.AST, attr: str):
        """f(a, b=X if c else Y)  ->  t = X if c else Y; f(a, b=t)   when everything evaluated before the conditional is duplicable."""
        e = getattr(holder, attr)
        if e is None or isinstance(e, ast.IfExp):
            return None
        found = []

        def walk(x, before_ok):
            # returns False when an impure sub-expression is met before the first IfExp
            if isinstance(x, ast.IfExp):
                found.append(x)
                return False
            if isinstance(x, (ast.Lambda, ast.GeneratorExp, ast.ListComp, ast.SetComp, ast.DictComp, ast.BoolOp)):
                return substitutable(x)
            if isinstance(x, ast.Call):
                if not walk(x.func, True):
                    return False
                for a in list(x.args) + [k.value for k in x.keywords]:
                    if not walk(a, True):
                        return False
                return False  # the call itself happens after its arguments; nothing after it may be hoisted over it
            for c in ast.iter_child_nodes(x):
                if isinstance(c, ast.expr):
                    if not walk(c, True):
                        return False
            return True

        walk(e, True)
        if len(found) != 1:
            return None
        tgt = found[0]
        self._n[0] += 1
        nm = f"_c{self._n[0]}_"

        class Rep(ast.NodeTransformer):
            def visit_IfExp(self, n):
                if n is tgt:
                    return ast.copy_location(ast.Name(id=nm, ctx=ast.Load()), n)
                return self.generic_visit(n)

        setattr(holder, attr, Rep().visit(e))
        pre = ast.copy_location(ast.Assign(targets=[ast.Name(id=nm, ctx=ast.Store())], value=tgt), st)
        ast.fix_missing_locations(pre)
        return [self.visit(pre), st]

    def visit_Expr(self, st: ast.Expr):
        v = st.value
        if isinstance(v, ast.Yield) and v.value is not None:
            r = self._hoist_nested(st, v, "value")
            if r is not None:
                return r
        elif isinstance(v, ast.Call):
            r = self._hoist_nested(st, st, "value")
            if r is not None:
                return r
        return st

    def visit_Assign(self, st: ast.Assign):
        r = self._split(st)
        if r is None and isinstance(st.value, (ast.Call, ast.Subscript, ast.Attribute, ast.Tuple)):
            r = self._hoist_nested(st, st, "value")
        return r if r is not None else st

    def visit_AnnAssign(self, st: ast.AnnAssign):
        if st.value is None:
            return st
        plain = ast.copy_location(ast.Assign(targets=[st.target], value=st.value), st)
        r = self._split(plain)
        return r if r is not None else st

    def visit_Return(self, st: ast.Return):
        if st.value is None:
            return st
        r = self._split(st)
        if r is None and isinstance(st.value, (ast.Call, ast.Subscript, ast.Attribute, ast.Tuple)):
            r = self._hoist_nested(st, st, "value")
        return r if r is not None else st

    def visit_FunctionDef(self, node):
        return node

    def visit_Lambda(self, node):
        return node


def _bool_returns(fn: ast.FunctionDef) -> ast.FunctionDef:
    """return <boolean expression>  ->  if <expression>: return True else: return False  (the function is a predicate)."""
    new = copy.deepcopy(fn)
    # a local every assignment of which is a boolean expression is boolean where it is returned
    bool_locals: Set[str] = set()
    assigned: Dict[str, List[ast.AST]] = {}
    for n in ast.walk(new):
        if isinstance(n, ast.Assign) and len(n.targets) == 1 and isinstance(n.targets[0], ast.Name):
            assigned.setdefault(n.targets[0].id, []).append(n.value)
        elif isinstance(n, (ast.AugAssign, ast.AnnAssign, ast.For, ast.NamedExpr, ast.With)):
            for x in ast.walk(getattr(n, "target", n)):
                if isinstance(x, ast.Name) and isinstance(x.ctx, ast.Store):
                    assigned.setdefault(x.id, []).append(None)
    params = {a.arg for a in new.args.posonlyargs + new.args.args + new.args.kwonlyargs}
    for nm, vals in assigned.items():
        if nm not in params and all(v is not None and _is_boolish(v) and not isinstance(v, ast.Name) for v in vals):
            bool_locals.add(nm)

    class T(ast.NodeTransformer):
        def visit_Return(self, st: ast.Return):
            if isinstance(st.value, ast.Name) and st.value.id in bool_locals:
                return ast.copy_location(ast.If(test=st.value, body=[ast.copy_location(ast.Return(value=ast.Constant(value=True)), st)],
                                                orelse=[ast.copy_location(ast.Return(value=ast.Constant(value=False)), st)]), st)
            if st.value is not None and _is_boolish(st.value) and not isinstance(st.value, ast.Constant):
                return ast.copy_location(ast.If(test=st.value, body=[ast.copy_location(ast.Return(value=ast.Constant(value=True)), st)],
                                                orelse=[ast.copy_location(ast.Return(value=ast.Constant(value=False)), st)]), st)
            if isinstance(st.value, ast.Tuple):
                # return (x, <condition>)  ->  if <condition>: return (x, True) else: return (x, False)
                idx = [i for i, e in enumerate(st.value.elts) if _is_boolish(e) and not isinstance(e, ast.Constant)]
                if len(idx) == 1 and all(substitutable(e) for e in st.value.elts[:idx[0]]):
                    i = idx[0]

                    def with_(v):
                        t = copy.deepcopy(st.value)
                        t.elts[i] = ast.Constant(value=v)
                        return ast.copy_location(ast.Return(value=t), st)

                    return ast.copy_location(ast.If(test=st.value.elts[i], body=[with_(True)], orelse=[with_(False)]), st)
            return st

        def visit_FunctionDef(self, n):
            return n if n is not new else self.generic_visit(n)

        def visit_Lambda(self, n):
            return n

    T().visit(new)
    ast.fix_missing_locations(new)
    return new


def lowered(fn: ast.FunctionDef) -> ast.FunctionDef:
    new = copy.deepcopy(fn)
    body = []
    for st in new.body:
        r = _Lower().visit(st) if not isinstance(st, (ast.FunctionDef, ast.AsyncFunctionDef, ast.ClassDef)) else st
        body.extend(r if isinstance(r, list) else [r])
    new.body = body
    ast.fix_missing_locations(new)
    return new


# ---------------------------------------------------------------------------


@dataclass
class Eff:
    kind: str  # store | aug | bind | expr | yield | return | raise | break | continue | delete | with | assert
    target: Optional[ast.AST]  # closed-form target (store/aug/bind/delete) or context expression (with)
    value: Optional[ast.AST]  # closed-form value
    line: int
    loops: Tuple[int, ...] = ()  # line numbers of the loops the effect is inside
    raw: Optional[ast.AST] = None
    opaque: bool = False  # bind: the local is kept by name (its value is not substituted at its uses)
    opq: frozenset = frozenset()  # locals that stand for themselves in this effect's text (opaque at that point)

    @property
    def text(self) -> str:
        t = ast.unparse(self.target) if self.target is not None else ""
        v = ast.unparse(self.value) if self.value is not None else ""
        if self.kind == "store":
            return f"{t} = {v}"
        if self.kind == "aug":
            return f"{t} {v}"
        if self.kind == "bind":
            return f"{t} := {v}"
        if self.kind == "with":
            return f"with {t}" + (f" as {v}" if v else "")
        if self.kind in ("break", "continue"):
            return self.kind
        if self.kind == "expr":
            return v
        if self.kind == "delete":
            return f"delete {t}"
        return f"{self.kind} {v}".strip()

    def calls(self) -> List[ast.Call]:
        out = []
        for x in (self.target, self.value):
            if x is not None:
                out.extend(n for n in ast.walk(x) if isinstance(n, ast.Call))
        return out


@dataclass
class PathSummary:
    assign: Dict[str, bool]  # canonical atom -> truth (first time it was decided on this path)
    effects: List[Eff]
    end: str  # return | raise | fall
    env: Dict[str, ast.AST]
    where: Dict[str, Tuple[Tuple[int, ...], int]] = field(default_factory=dict)  # atom -> (loops it was decided in, number of effects before it)

    @staticmethod
    def plain(key: str) -> str:
        return key.rsplit("@", 1)[0] if "@" in key and key.rsplit("@", 1)[1].isdigit() else key

    def atoms_in(self, loop_line: int) -> Dict[str, bool]:
        """Atoms decided inside the loop at *loop_line* (version suffix removed; first decision wins)."""
        out: Dict[str, bool] = {}
        for k, v in self.assign.items():
            if loop_line in self.where[k][0]:
                out.setdefault(self.plain(k), v)
        return out

    def atoms_in_occ(self, loop_line: int) -> Dict[str, bool]:
        """Atoms decided inside the loop; the n-th decision of the same condition (n >= 2) is named occ<n>(<condition>)."""
        out: Dict[str, bool] = {}
        seen: Dict[str, int] = {}
        for k, v in self.assign.items():
            if loop_line in self.where[k][0]:
                pk = self.plain(k)
                seen[pk] = seen.get(pk, 0) + 1
                out[pk if seen[pk] == 1 else f"occ{seen[pk]}({pk})"] = v
        return out

    def atoms_between(self, lo: int, hi: int, outside: Optional[int] = None) -> Dict[str, bool]:
        """Atoms decided when between *lo* and *hi* effects had happened (not inside loop *outside*)."""
        out: Dict[str, bool] = {}
        for k, v in self.assign.items():
            ls, n = self.where[k]
            if lo <= n <= hi and (outside is None or outside not in ls):
                out.setdefault(self.plain(k), v)
        return out

    def plain_assign(self) -> Dict[str, bool]:
        out: Dict[str, bool] = {}
        for k, v in self.assign.items():
            out.setdefault(self.plain(k), v)
        return out

    def terminal(self) -> Tuple[str, Optional[ast.AST]]:
        for e in reversed(self.effects):
            if e.kind in ("return", "raise"):
                return e.kind, e.value
            break
        return "fall", None

    def resolve(self, name: str, before: int) -> Optional[Tuple[int, "Eff"]]:
        """The binding of local *name* in force at effect index *before* on this path."""
        for i in range(min(before, len(self.effects)) - 1, -1, -1):
            e = self.effects[i]
            if e.kind == "bind" and e.target is not None:
                if isinstance(e.target, ast.Name) and e.target.id == name:
                    return i, e
                if isinstance(e.target, (ast.Tuple, ast.List)) and any(isinstance(x, ast.Name) and x.id == name for x in e.target.elts):
                    return i, e
        return None

    def texts(self, kinds: Iterable[str] = ()) -> List[str]:
        kinds = set(kinds)
        return [e.text for e in self.effects if not kinds or e.kind in kinds]


class _Sub(ast.NodeTransformer):
    def __init__(self, env: Dict[str, ast.AST], shadow: Set[str] = frozenset()):
        self.env = env
        self.shadow = set(shadow)

    def visit_Name(self, n: ast.Name):
        if isinstance(n.ctx, ast.Load) and n.id in self.env and n.id not in self.shadow:
            v = self.env[n.id]
            if isinstance(v, ast.Name) and v.id == n.id:
                return n
            return copy.deepcopy(v)
        return n

    def visit_Lambda(self, n: ast.Lambda):
        a = n.args
        sh = {x.arg for x in a.posonlyargs + a.args + a.kwonlyargs} | ({a.vararg.arg} if a.vararg else set()) | ({a.kwarg.arg} if a.kwarg else set())
        n2 = copy.copy(n)
        n2.body = _Sub(self.env, self.shadow | sh).visit(copy.deepcopy(n.body))
        return n2

    def _comp(self, n):
        sh = set()
        for g in n.generators:
            sh |= set(_names(g.target))
        n2 = copy.deepcopy(n)
        sub = _Sub(self.env, self.shadow | sh)
        first = True
        for g in n2.generators:
            if first:
                g.iter = _Sub(self.env, self.shadow).visit(g.iter)
                first = False
            else:
                g.iter = sub.visit(g.iter)
            g.ifs = [sub.visit(i) for i in g.ifs]
        for f in ("elt", "key", "value"):
            if hasattr(n2, f):
                setattr(n2, f, sub.visit(getattr(n2, f)))
        return n2

    visit_ListComp = visit_SetComp = visit_DictComp = visit_GeneratorExp = _comp


def alpha(e: ast.AST) -> ast.AST:
    """Variables bound by comprehensions / lambdas get position names (_c0, _c1 ...): the spelling of a bound variable never matters."""
    counter = [0]

    class A(ast.NodeTransformer):
        def __init__(self, m):
            self.m = m

        def visit_Name(self, n):
            if n.id in self.m:
                return ast.copy_location(ast.Name(id=self.m[n.id], ctx=n.ctx), n)
            return n

        def _comp(self, n):
            m = dict(self.m)
            gens = []
            for g in n.generators:
                it = A(dict(m)).visit(g.iter)
                for nm in _names(g.target):
                    m[nm] = f"_c{counter[0]}"
                    counter[0] += 1
                sub_ = A(m)
                gens.append(ast.comprehension(target=sub_.visit(g.target), iter=it, ifs=[sub_.visit(i) for i in g.ifs], is_async=g.is_async))
            n2 = copy.copy(n)
            n2.generators = gens
            sub_ = A(m)
            for f in ("elt", "key", "value"):
                if hasattr(n2, f):
                    setattr(n2, f, sub_.visit(getattr(n2, f)))
            return n2

        visit_ListComp = visit_SetComp = visit_DictComp = visit_GeneratorExp = _comp

        def visit_Lambda(self, n):
            m = dict(self.m)
            n2 = copy.deepcopy(n)
            for a in n2.args.posonlyargs + n2.args.args + n2.args.kwonlyargs:
                m[a.arg] = f"_c{counter[0]}"
                counter[0] += 1
                a.arg = m[a.arg]
            n2.body = A(m).visit(n2.body)
            return n2

    if not any(isinstance(x, (ast.ListComp, ast.SetComp, ast.DictComp, ast.GeneratorExp, ast.Lambda)) for x in ast.walk(e)):
        return e
    return A({}).visit(copy.deepcopy(e))


def subst(e: Optional[ast.AST], env: Dict[str, ast.AST]) -> Optional[ast.AST]:
    if e is None:
        return None
    return _Sub(env).visit(copy.deepcopy(e))


def _simplify(e: ast.AST) -> ast.AST:
    """A few constant folds that matter for guards: `<Constructor>(...) is None`, `None is None`, not <const>, membership in an empty display."""
    if isinstance(e, ast.Compare) and len(e.ops) == 1 and isinstance(e.ops[0], (ast.In, ast.NotIn)) and isinstance(e.comparators[0], (ast.Tuple, ast.List, ast.Set, ast.Dict)) \
            and not (e.comparators[0].elts if not isinstance(e.comparators[0], ast.Dict) else e.comparators[0].keys):
        return ast.Constant(value=isinstance(e.ops[0], ast.NotIn))  # nothing is in an empty display
    if isinstance(e, ast.Compare) and len(e.ops) == 1 and isinstance(e.ops[0], (ast.Is, ast.IsNot)):
        l, r = e.left, e.comparators[0]
        if isinstance(l, ast.Name) and isinstance(r, ast.Name) and l.id == r.id:
            return ast.Constant(value=isinstance(e.ops[0], ast.Is))  # the same binding on this path
        if isinstance(r, ast.Constant) and r.value is None:
            pos = isinstance(e.ops[0], ast.Is)
            if isinstance(l, ast.Constant):
                return ast.Constant(value=(l.value is None) == pos)
            if isinstance(l, ast.Call) and isinstance(l.func, ast.Name) and l.func.id[:1].isupper():
                return ast.Constant(value=not pos)
            if isinstance(l, (ast.List, ast.Tuple, ast.Dict, ast.Set, ast.JoinedStr)) or never_none(l):
                return ast.Constant(value=not pos)
    return e


class Summariser:
    def __init__(self, fn: ast.FunctionDef, follow_exc: bool = False, nonempty: Optional[Callable[[ast.For, Dict[str, ast.AST]], bool]] = None, limit: int = 20000,
                 opaque: Optional[Callable[[ast.AST], bool]] = None, stop_at_raise: bool = True, keep: Iterable[str] = (), fold=None, pure_calls: Iterable[str] = (), records: Optional[Dict[str, List[str]]] = None, bool_returns: bool = False,
                 sentinels: Iterable[str] = ()):
        self.fn = lowered(_bool_returns(fn) if bool_returns else fn)
        self.sentinels = set(sentinels)  # module-private names bound to object(): nothing but the module itself can hold them
        self.cfg = CFG(self.fn)
        self.follow_exc = follow_exc
        self.nonempty = nonempty or (lambda f, env: False)
        self.limit = limit
        self.opaque = opaque
        self.stop_at_raise = stop_at_raise
        self.keep = set(keep)  # locals never substituted (kept by name)
        self.pure_calls = set(pure_calls)  # constructors of immutable values that may be substituted
        self.records = records or {}
        self.fold = fold  # expr -> constant value | None (module / class constants)
        self.bound = {a.arg for a in fn.args.posonlyargs + fn.args.args + fn.args.kwonlyargs} | {n.id for n in ast.walk(fn) if isinstance(n, ast.Name) and isinstance(n.ctx, ast.Store)}
        if fn.args.vararg:
            self.bound.add(fn.args.vararg.arg)
        if fn.args.kwarg:
            self.bound.add(fn.args.kwarg.arg)
        self.count = 0
        self._conds: Dict[str, ast.AST] = {}
        # names of this function that are only ever bound by a `for` (or are parameters): they hold elements / arguments, never a private sentinel
        stored_other = set()
        for_targets = set()
        for n in ast.walk(self.fn):
            if isinstance(n, (ast.For, ast.comprehension)):
                for_targets |= set(_names(n.target))
        for n in ast.walk(self.fn):
            if isinstance(n, (ast.Assign, ast.AnnAssign, ast.AugAssign, ast.NamedExpr, ast.withitem)):
                tg = n.targets if isinstance(n, ast.Assign) else ([n.optional_vars] if isinstance(n, ast.withitem) and n.optional_vars is not None else ([n.target] if not isinstance(n, ast.withitem) else []))
                for t in tg:
                    stored_other |= set(_names(t))
        self.element_names = (for_targets - stored_other) | {a.arg for a in fn.args.posonlyargs + fn.args.args + fn.args.kwonlyargs if a.arg not in stored_other and a.arg not in for_targets}

    # -- public --------------------------------------------------------------
    def paths(self) -> List[PathSummary]:
        out = list(self._walk(self.cfg.entry, {}, {}, {}, frozenset(), [], ()))
        return out

    def sub(self, e: Optional[ast.AST], env: Dict[str, ast.AST]) -> Optional[ast.AST]:
        r = subst(e, env)
        if r is not None and (self.fold is not None or self.records):
            r = _Fold(self.fold or (lambda e: None), self.bound, self.records).visit(r)
        if r is not None:
            r = alpha(r)
        return r

    # -- machinery -------------------------------------------------------------
    def _emit(self, truth_hist, effects, end, env) -> PathSummary:
        self.count += 1
        if self.count > self.limit:
            raise AnalysisError("path enumeration limit exceeded")
        return PathSummary({k: v[0] for k, v in truth_hist.items()}, list(effects), end, {k: v for k, v in env.items() if not k.startswith("%")},
                           {k: (v[1], v[2]) for k, v in truth_hist.items()})

    def _walk(self, n: int, env: Dict[str, ast.AST], truth: Dict[str, bool], hist: Dict[str, bool], loops_done: frozenset, effects: List[Eff], lstack: Tuple[int, ...]) -> Iterator[PathSummary]:
        cfg = self.cfg
        while True:
            node = cfg.nodes[n]
            if n == cfg.exit:
                last = effects[-1].kind if effects else ""
                yield self._emit(hist, effects, "return" if last == "return" else "fall", env)
                return
            if n == cfg.raise_exit:
                yield self._emit(hist, effects, "raise", env)
                return
            succ = [(s, lab) for s, lab in cfg.succ[n] if self.follow_exc or lab != "exc"]
            if node.kind == "stmt":
                env, effects = self._transfer(node.ast, env, effects, lstack)
                killed = env.pop("%killed", None)
                if killed:
                    truth = {k: v for k, v in truth.items() if not (self._mentions(k) & killed)}
                nn = env.pop("%facts", None)
                if nn:
                    truth = dict(truth)
                    for nm, isnone in nn.items():
                        truth[f"None is {nm}"] = isnone
            elif node.kind == "return":
                effects = effects + [Eff("return", None, self.sub(node.ast.value, env), node.line, lstack, node.ast, False,
                                         frozenset(nm for nm, v in env.items() if isinstance(v, ast.Name) and v.id == nm))]
            elif node.kind == "raise_stmt":
                effects = effects + [Eff("raise", None, self.sub(node.ast.exc, env), node.line, lstack, node.ast)]
                if self.stop_at_raise:
                    yield self._emit(hist, effects, "raise", env)
                    return
            elif node.kind in ("break", "continue"):
                if not getattr(node.ast, "_once_exit", False):  # leaving a synthetic Once block is not an effect of the program
                    effects = effects + [Eff(node.kind, None, None, node.line, lstack, node.ast)]
            elif node.kind == "with_enter":
                env = dict(env)
                for item in node.ast.items:
                    ce = self.sub(item.context_expr, env)
                    asn = None
                    if item.optional_vars is not None:
                        for nm in _names(item.optional_vars):
                            env[nm] = ast.Name(id=nm, ctx=ast.Load())
                        asn = item.optional_vars
                    effects = effects + [Eff("with", ce, asn, node.line, lstack, node.ast)]
                self._barrier(env)
            elif node.kind == "except":
                env = dict(env)
                if node.ast.name:
                    env[node.ast.name] = ast.Name(id=node.ast.name, ctx=ast.Load())
                effects = effects + [Eff("except", None, node.ast.type, node.line, lstack, node.ast)]
            if node.kind == "test":
                is_while = node.note == "while"
                again = is_while and n in loops_done
                ld = loops_done
                if is_while:
                    body_names = _assigned_in(node.stmt.body)
                    env = dict(env)
                    self._opaque(env, body_names)
                    truth = {k: v for k, v in truth.items() if not (self._mentions(k) & body_names)}
                    ld = loops_done | {n}
                t = self.sub(node.ast, env)
                self._conds = env.get("%cond", {})
                if again:
                    # the loop ends eventually: leave it, forgetting what its test said before the body ran
                    keys = set()
                    for a_ in ast.walk(t):
                        if isinstance(a_, ast.expr):
                            try:
                                keys.add(canon(a_)[0])
                            except Exception:
                                pass
                    tr2 = {k: v for k, v in truth.items() if PathSummary.plain(k) not in keys}
                    for s, lab in succ:
                        if lab == "F":
                            yield from self._walk(s, env, tr2, hist, ld, effects, tuple(x for x in lstack if x != node.line))
                    return
                for tr2, new_atoms, val in self._decide(t, truth, env.get('%epochs', {})):
                    if val is None:
                        outs = succ
                    else:
                        want = "T" if val else "F"
                        outs = [(s, lab) for s, lab in succ if lab == want or lab == "exc"]
                    if again:
                        outs = [(s, lab) for s, lab in outs if lab != "T"]
                    h2 = hist
                    if new_atoms:
                        h2 = dict(hist)
                        for k, v in new_atoms.items():
                            # the n-th time this path decides the same condition (after the objects it mentions were re-bound or changed): key@n
                            n_prev = sum(1 for hk in h2 if PathSummary.plain(hk) == k)
                            h2[k if n_prev == 0 else f"{k}@{n_prev + 1}"] = (v, lstack, len(effects))
                    for s, lab in outs:
                        ls2 = lstack
                        if is_while:
                            ls2 = tuple(x for x in lstack if x != node.line) + ((node.line,) if lab == "T" else ())
                        yield from self._walk(s, env, tr2, h2, ld, effects, ls2)
                return
            if node.kind == "for":
                first = n not in loops_done
                body_names = _assigned_in(node.ast.body) | set(_names(node.ast.target))
                if first:
                    it = self.sub(node.ast.iter, env)
                    eff_iter = effects + [Eff("for", node.ast.target, it, node.line, lstack, node.ast, False,
                                              frozenset(nm for nm, v in env.items() if isinstance(v, ast.Name) and v.id == nm))]
                    choices = [(s, lab) for s, lab in succ if lab == "iter"]
                    if isinstance(it, (ast.List, ast.Tuple, ast.Set)) and not it.elts:
                        choices = [(s, lab) for s, lab in succ if lab == "exhaust"]  # nothing to iterate
                    elif not self.nonempty(node.ast, env):
                        choices += [(s, lab) for s, lab in succ if lab == "exhaust"]
                    ld = loops_done | {n}
                    for s, lab in choices:
                        if lab == "iter":
                            e2 = dict(env)
                            guarded = _break_guarded(node.ast)
                            e2[f"%pre{n}"] = {nm: env[nm] for nm in guarded if nm in env}
                            self._opaque(e2, body_names)
                            t2 = {k: v for k, v in truth.items() if not (self._mentions(k) & body_names)}
                            # library fact: the elements of a directory listing, of a split string, of a range are never None
                            if isinstance(node.ast.target, ast.Name) and isinstance(it, ast.Call) and (
                                    (isinstance(it.func, ast.Attribute) and it.func.attr in ("listdir", "split", "rsplit", "splitlines")) or (isinstance(it.func, ast.Name) and it.func.id == "range")):
                                t2[f"None is {node.ast.target.id}"] = False
                            yield from self._walk(s, e2, t2, hist, ld, eff_iter, lstack + (node.line,))
                        else:
                            yield from self._walk(s, env, truth, hist, ld, effects, lstack)
                    return
                else:
                    env = dict(env)
                    self._opaque(env, body_names)
                    # a local whose every assignment in the body is followed by leaving the loop still has its pre-loop value here
                    for nm, v in env.pop(f"%pre{n}", {}).items():
                        env[nm] = v
                    truth = {k: v for k, v in truth.items() if not (self._mentions(k) & body_names)}
                    lstack = tuple(x for x in lstack if x != node.line)
                    succ = [(s, lab) for s, lab in succ if lab == "exhaust"]
            if not succ:
                return
            if len(succ) == 1:
                n = succ[0][0]
                continue
            for s, lab in succ:
                yield from self._walk(s, env, truth, hist, loops_done, effects, lstack)
            return

    def _barrier(self, env: Dict[str, Any]) -> None:
        """An effect happened: closed forms that read object state are no longer the value the local holds."""
        for nm, v in list(env.items()):
            if nm.startswith("%") or not isinstance(v, ast.AST) or (isinstance(v, ast.Name) and v.id == nm):
                continue
            if reads_state(v, self.pure_calls):
                env[nm] = ast.Name(id=nm, ctx=ast.Load())

    def _opaque(self, env: Dict[str, Any], names: Iterable[str]) -> None:
        ep = dict(env.get("%epochs", {}))
        for nm in names:
            env[nm] = ast.Name(id=nm, ctx=ast.Load())
            ep[nm] = ep.get(nm, 0) + 1
        env["%epochs"] = ep

    _mention_cache: Dict[str, Set[str]] = {}

    def _mentions(self, key: str) -> Set[str]:
        c = self._mention_cache.get(key)
        if c is None:
            try:
                c = {x.id for x in ast.walk(ast.parse(key.rsplit("@", 1)[0] if "@" in key and key.rsplit("@", 1)[1].isdigit() else key, mode="eval")) if isinstance(x, ast.Name)}
            except SyntaxError:
                c = set()
            self._mention_cache[key] = c
        return c

    def _decide(self, t: ast.AST, truth: Dict[str, bool], ep: Dict[str, int] = {}) -> Iterator[Tuple[Dict[str, bool], Dict[str, bool], Optional[bool]]]:
        """Short-circuit evaluation of a closed-form test: yields (truth', newly decided atoms, value|None)."""
        t = _simplify(t)
        if isinstance(t, ast.Compare) and len(t.ops) == 1 and isinstance(t.ops[0], (ast.Is, ast.IsNot)) and isinstance(t.left, ast.Name) and isinstance(t.comparators[0], ast.Name):
            a_, b_ = t.left.id, t.comparators[0].id
            if (a_ in self.sentinels and b_ in self.element_names) or (b_ in self.sentinels and a_ in self.element_names):
                t = ast.Constant(value=isinstance(t.ops[0], ast.IsNot))  # an element of a collection / an argument is not the module's private sentinel
        if isinstance(t, ast.Compare) and len(t.ops) == 1 and isinstance(t.ops[0], (ast.Is, ast.IsNot)):
            for s_side, o_side in ((t.left, t.comparators[0]), (t.comparators[0], t.left)):
                if isinstance(s_side, ast.Name) and s_side.id in self.sentinels and isinstance(o_side, ast.Call) and isinstance(o_side.func, ast.Attribute) \
                        and not any(isinstance(n_, ast.Name) and n_.id in self.sentinels for n_ in ast.walk(o_side)):
                    t = ast.Constant(value=isinstance(t.ops[0], ast.IsNot))  # what a method of another object returns is not this module's private sentinel
                    break
        if isinstance(t, ast.Constant):
            yield truth, {}, bool(t.value)
            return
        if isinstance(t, ast.Call) and isinstance(t.func, ast.Name) and t.func.id == "bool" and len(t.args) == 1 and not t.keywords:
            yield from self._decide(t.args[0], truth, ep)  # bool(x) is true exactly when x is
            return
        if isinstance(t, ast.UnaryOp) and isinstance(t.op, ast.Not):
            for tr, new, v in self._decide(t.operand, truth, ep):
                yield tr, new, (None if v is None else not v)
            return
        if isinstance(t, ast.BoolOp):
            is_and = isinstance(t.op, ast.And)

            def rec(i: int, tr, new) -> Iterator[Tuple[Dict[str, bool], Dict[str, bool], Optional[bool]]]:
                if i == len(t.values):
                    yield tr, new, is_and
                    return
                for tr2, new2, v in self._decide(t.values[i], tr, ep):
                    merged = dict(new)
                    merged.update(new2)
                    if v is None:
                        # undecidable operand: the rest may or may not run; give up on the value, keep what is known
                        yield tr2, merged, None
                    elif v == (not is_and):
                        yield tr2, merged, v
                    else:
                        yield from rec(i + 1, tr2, merged)

            yield from rec(0, truth, {})
            return
        if isinstance(t, ast.Compare) and len(t.ops) > 1:
            yield truth, {}, None
            return
        key, flip = canon(t)
        if key in truth:
            v = truth[key]
            yield truth, {}, (not v) if flip else v
            return
        if isinstance(t, ast.Compare) and len(t.ops) == 1 and isinstance(t.ops[0], (ast.Is, ast.IsNot)):
            # X is None, after isinstance(X, C) was found true on this path: an instance of a class is not None
            for s_side, o_side in ((t.left, t.comparators[0]), (t.comparators[0], t.left)):
                if isinstance(o_side, ast.Constant) and o_side.value is None and isinstance(s_side, (ast.Name, ast.Attribute)):
                    pre = f"isinstance({ast.unparse(s_side)}, "
                    if any(k_.split("@")[0].startswith(pre) and v_ is True for k_, v_ in truth.items()):
                        yield truth, {}, isinstance(t.ops[0], ast.IsNot)
                        return
        if isinstance(t, ast.Name) and t.id in self._conds:
            for tr2, new2, v in self._decide(self._conds[t.id], truth, ep):
                if v is not None:
                    tr2 = dict(tr2)
                    tr2[t.id] = v
                yield tr2, new2, v
            return
        cv = self._const(t)
        if cv is not None:
            yield truth, {}, cv
            return
        if is_pure(t) or (self.opaque is not None and self.opaque(t)):
            for b in (True, False):
                tr2 = dict(truth)
                tr2[key] = b
                yield tr2, {key: b}, (not b) if flip else b
            return
        yield truth, {}, None

    def _const(self, t: ast.AST) -> Optional[bool]:
        if isinstance(t, ast.Compare) and len(t.ops) == 1 and not (isinstance(t.left, ast.Constant) and isinstance(t.comparators[0], ast.Constant)):
            # signed number literals (-1 is a unary minus applied to 1)
            def lit(x):
                return ast.Constant(value=-x.operand.value) if isinstance(x, ast.UnaryOp) and isinstance(x.op, ast.USub) and isinstance(x.operand, ast.Constant) and isinstance(x.operand.value, (int, float)) else x
            l, r = lit(t.left), lit(t.comparators[0])
            if isinstance(l, ast.Constant) and isinstance(r, ast.Constant):
                t = ast.Compare(left=l, ops=t.ops, comparators=[r])
        try:
            if isinstance(t, ast.Compare) and len(t.ops) == 1 and isinstance(t.left, ast.Constant) and isinstance(t.comparators[0], ast.Constant):
                a, b, op = t.left.value, t.comparators[0].value, t.ops[0]
                if isinstance(op, ast.Eq):
                    return a == b
                if isinstance(op, ast.NotEq):
                    return a != b
                if isinstance(op, ast.Is):
                    return a is b
                if isinstance(op, ast.IsNot):
                    return a is not b
                if isinstance(op, ast.Lt):
                    return a < b
                if isinstance(op, ast.LtE):
                    return a <= b
                if isinstance(op, ast.Gt):
                    return a > b
                if isinstance(op, ast.GtE):
                    return a >= b
                if isinstance(op, ast.In):
                    return a in b
                if isinstance(op, ast.NotIn):
                    return a not in b
        except Exception:
            return None
        return None

    def _bind(self, env: Dict[str, ast.AST], name: str, value: ast.AST) -> bool:
        if name in self.keep or not substitutable(value, self.pure_calls):
            self._opaque(env, [name])
            conds = dict(env.get("%cond", {}))
            if _is_boolish(value) and name not in self.keep:
                conds[name] = value  # a named condition: testing the name is testing the expression it was bound to
            else:
                conds.pop(name, None)
            env["%cond"] = conds
            env["%killed"] = set(env.get("%killed", ())) | {name}
            if never_none(value):
                facts = dict(env.get("%facts", {}))
                facts[name] = False  # "name is None" is false
                env["%facts"] = facts
            return True
        env[name] = value
        return False

    def _transfer(self, st: ast.AST, env: Dict[str, ast.AST], effects: List[Eff], lstack) -> Tuple[Dict[str, ast.AST], List[Eff]]:
        n0 = len(effects)
        opq = frozenset(nm for nm, v in env.items() if isinstance(v, ast.Name) and v.id == nm)
        env, effects = self._transfer0(st, env, effects, lstack)
        for e in effects[n0:]:
            e.opq = opq
        # an object that is stored into or changed through a mutating method is no longer what earlier guards saw
        changed = set()
        for e in effects[n0:]:
            if e.kind in ("store", "aug", "delete") and e.target is not None:
                r_ = e.target
                while isinstance(r_, (ast.Attribute, ast.Subscript)):
                    r_ = r_.value
                if isinstance(r_, ast.Name):
                    changed.add(r_.id)
            for c in e.calls():
                if isinstance(c.func, ast.Attribute) and c.func.attr in MUTATING_METHODS:
                    r_ = c.func.value
                    while isinstance(r_, (ast.Attribute, ast.Subscript)):
                        r_ = r_.value
                    if isinstance(r_, ast.Name):
                        changed.add(r_.id)
        if changed:
            env["%killed"] = set(env.get("%killed", ())) | changed
        for e in effects[n0:]:
            if e.kind in ("store", "aug", "delete", "yield", "yieldfrom") or (e.kind in ("expr", "bind") and e.value is not None and not substitutable(e.value, self.pure_calls)):
                self._barrier(env)
                break
        return env, effects

    def _transfer0(self, st: ast.AST, env: Dict[str, ast.AST], effects: List[Eff], lstack) -> Tuple[Dict[str, ast.AST], List[Eff]]:
        env = dict(env)
        line = getattr(st, "lineno", 0)
        if isinstance(st, (ast.Assign, ast.AnnAssign)):
            if isinstance(st, ast.AnnAssign) and st.value is None:
                return env, effects
            v = self.sub(st.value, env)
            targets = st.targets if isinstance(st, ast.Assign) else [st.target]
            new_eff = []
            for t in targets:
                if isinstance(t, ast.Name):
                    new_eff.append(Eff("bind", ast.Name(id=t.id, ctx=ast.Load()), v, line, lstack, st, self._bind(env, t.id, v)))
                elif isinstance(t, (ast.Tuple, ast.List)) and all(isinstance(x, ast.Name) for x in t.elts):
                    if isinstance(v, (ast.Tuple, ast.List)) and len(v.elts) == len(t.elts) and not any(isinstance(y, ast.Starred) for y in v.elts):
                        # a, b = (x, y): every element was already closed under the bindings in force before the statement, so the
                        # pairwise bindings can be recorded one by one
                        for i, x in enumerate(t.elts):
                            new_eff.append(Eff("bind", ast.Name(id=x.id, ctx=ast.Load()), v.elts[i], line, lstack, st, self._bind(env, x.id, v.elts[i])))
                        continue
                    new_eff.append(Eff("bind", t, v, line, lstack, st))
                    for i, x in enumerate(t.elts):
                        if isinstance(v, (ast.Tuple, ast.List)) and len(v.elts) == len(t.elts) and not any(isinstance(y, ast.Starred) for y in v.elts):
                            self._bind(env, x.id, v.elts[i])
                        else:
                            self._bind(env, x.id, ast.Subscript(value=copy.deepcopy(v), slice=ast.Constant(value=i), ctx=ast.Load()))
                elif isinstance(t, (ast.Attribute, ast.Subscript)):
                    new_eff.append(Eff("store", self.sub(_as_load(t), env), v, line, lstack, st))
                else:
                    for nm in _names(t):
                        env[nm] = ast.Name(id=nm, ctx=ast.Load())
                    new_eff.append(Eff("bind", t, v, line, lstack, st))
            return env, effects + new_eff
        if isinstance(st, ast.AugAssign):
            v = self.sub(st.value, env)
            if isinstance(st.target, ast.Name):
                old = env.get(st.target.id, ast.Name(id=st.target.id, ctx=ast.Load()))
                nv = ast.BinOp(left=copy.deepcopy(old), op=st.op, right=v)
                op_ = self._bind(env, st.target.id, nv)
                return env, effects + [Eff("bind", ast.Name(id=st.target.id, ctx=ast.Load()), nv, line, lstack, st, op_)]
            tv = self.sub(_as_load(st.target), env)
            return env, effects + [Eff("aug", tv, ast.BinOp(left=copy.deepcopy(tv), op=st.op, right=v), line, lstack, st)]
        if isinstance(st, ast.Expr):
            v = st.value
            if isinstance(v, ast.Constant):
                return env, effects
            if isinstance(v, (ast.Yield, ast.YieldFrom)):
                return env, effects + [Eff("yield" if isinstance(v, ast.Yield) else "yieldfrom", None, self.sub(v.value, env), line, lstack, st)]
            sv = self.sub(v, env)
            if isinstance(sv, ast.Call) and isinstance(sv.func, ast.Name) and sv.func.id == "setattr" and "setattr" not in self.bound and len(sv.args) == 3 and not sv.keywords \
                    and isinstance(sv.args[1], ast.Constant) and isinstance(sv.args[1].value, str) and sv.args[1].value.isidentifier():
                # setattr(x, 'name', v) with a constant name is the store x.name = v
                return env, effects + [Eff("store", ast.Attribute(value=sv.args[0], attr=sv.args[1].value, ctx=ast.Load()), sv.args[2], line, lstack, st)]
            return env, effects + [Eff("expr", None, sv, line, lstack, st)]
        if isinstance(st, ast.Delete):
            return env, effects + [Eff("delete", self.sub(_as_load(t), env), None, line, lstack, st) for t in st.targets]
        if isinstance(st, ast.Assert):
            return env, effects + [Eff("assert", None, self.sub(st.test, env), line, lstack, st)]
        if isinstance(st, (ast.FunctionDef, ast.AsyncFunctionDef, ast.ClassDef)):
            env[st.name] = ast.Name(id=st.name, ctx=ast.Load())
            return env, effects
        if isinstance(st, (ast.Import, ast.ImportFrom, ast.Pass, ast.Global, ast.Nonlocal)):
            return env, effects
        return env, effects


def _break_guarded(loop: ast.AST) -> Set[str]:
    """Locals assigned in the loop body only in blocks that end by leaving the loop (break / return / raise)."""
    ok: Dict[str, bool] = {}

    def block(stmts: List[ast.stmt], leaves: bool, nested: bool) -> None:
        ends = bool(stmts) and isinstance(stmts[-1], (ast.Break, ast.Return, ast.Raise)) and not nested
        if bool(stmts) and isinstance(stmts[-1], (ast.Return, ast.Raise)):
            ends = True
        for i_, st in enumerate(stmts):
            names: Set[str] = set()
            if isinstance(st, ast.Assign):
                for t in st.targets:
                    names |= set(_names(t)) if isinstance(t, (ast.Name, ast.Tuple, ast.List)) else set()
            elif isinstance(st, (ast.AugAssign, ast.AnnAssign)) and isinstance(st.target, ast.Name):
                names.add(st.target.id)
            elif isinstance(st, (ast.For, ast.AsyncFor)):
                names |= set(_names(st.target))
            elif isinstance(st, (ast.With, ast.AsyncWith)):
                for i in st.items:
                    if i.optional_vars is not None:
                        names |= set(_names(i.optional_vars))
            for nm in names:
                ok[nm] = ok.get(nm, True) and (ends or leaves)
            if isinstance(st, (ast.FunctionDef, ast.AsyncFunctionDef, ast.ClassDef)):
                continue
            inner_nested = nested or isinstance(st, (ast.For, ast.AsyncFor, ast.While))
            if isinstance(st, (ast.For, ast.AsyncFor)) and len(st.orelse) == 1 and isinstance(st.orelse[0], ast.Continue) and i_ + 1 < len(stmts) and isinstance(stmts[i_ + 1], ast.Break) and not nested:
                # for ...: ... break ... else: continue ; break   -- leaving the inner loop leaves this one too
                block(st.body, False, False)
                continue
            for fld in ("body", "orelse", "finalbody"):
                sub = getattr(st, fld, None)
                if isinstance(sub, list) and sub and isinstance(sub[0], ast.stmt):
                    block(sub, (ends or leaves) and not isinstance(st, (ast.For, ast.AsyncFor, ast.While)), inner_nested)
            for h in getattr(st, "handlers", []):
                block(h.body, ends or leaves, inner_nested)

    block(loop.body, False, False)
    return {nm for nm, v in ok.items() if v}


def _as_load(t: ast.AST) -> ast.AST:
    t = copy.deepcopy(t)
    for n in ast.walk(t):
        if hasattr(n, "ctx"):
            n.ctx = ast.Load()
    return t


# ---------------------------------------------------------------------------
# convenience for rules


def summaries(ctx, fi: FunctionInfo, **kw) -> List[PathSummary]:
    cache = getattr(ctx, "_peff_cache", None)
    if cache is None:
        cache = ctx._peff_cache = {}
    k = (fi.fq, tuple(sorted((a, repr(b)) for a, b in kw.items() if not callable(b))), tuple(id(b) for b in kw.values() if callable(b)))
    if k not in cache:
        cache[k] = Summariser(fi.node, **kw).paths()
    return cache[k]


# ---------------------------------------------------------------------------
# lowering of reductions over iterables into loops (on the private copy)

_RED_FUNCS = {"sum", "any", "all", "next", "list", "len", "reduce", "set", "tuple_"}


def _is_bool_expr(e: ast.AST) -> bool:
    return isinstance(e, (ast.Compare, ast.BoolOp)) or (isinstance(e, ast.UnaryOp) and isinstance(e.op, ast.Not)) or \
        (isinstance(e, ast.Call) and isinstance(e.func, ast.Name) and e.func.id in ("isinstance", "bool", "any", "all", "callable", "hasattr"))


_DEFS: List[Dict[str, ast.AST]] = [{}]  # lazily-evaluated iterables bound once and used once (set by the _Reducer at work)


def _as_genexp(e: ast.AST) -> Optional[ast.GeneratorExp]:
    """A generator-like view of: genexp, list comprehension, filter(lambda, it), map(lambda, it), list(<those>)."""
    if isinstance(e, ast.Name) and e.id in _DEFS[0]:
        return _as_genexp(_DEFS[0][e.id])
    if isinstance(e, ast.GeneratorExp):
        return e
    if isinstance(e, ast.ListComp):
        return ast.GeneratorExp(elt=e.elt, generators=e.generators)
    if isinstance(e, ast.Call) and isinstance(e.func, ast.Name) and not e.keywords:
        if e.func.id in ("list", "iter", "tuple") and len(e.args) == 1:
            return _as_genexp(e.args[0])
        if e.func.id == "filter" and len(e.args) == 2 and isinstance(e.args[0], ast.Lambda) and len(e.args[0].args.args) == 1:
            v = e.args[0].args.args[0].arg
            inner = _as_genexp(e.args[1])
            if inner is not None and isinstance(inner.elt, ast.Name) and len(inner.generators) == 1 and isinstance(inner.generators[0].target, ast.Name) \
                    and inner.elt.id == inner.generators[0].target.id:
                # filter over a filter/plain generator of the elements themselves
                g = copy.deepcopy(inner.generators[0])
                cond = _rename(copy.deepcopy(e.args[0].body), {v: g.target.id})
                g.ifs = list(g.ifs) + [cond]
                return ast.GeneratorExp(elt=ast.Name(id=g.target.id, ctx=ast.Load()), generators=[g])
            if inner is None:
                return ast.GeneratorExp(elt=ast.Name(id=v, ctx=ast.Load()),
                                        generators=[ast.comprehension(target=ast.Name(id=v, ctx=ast.Store()), iter=e.args[1], ifs=[e.args[0].body], is_async=0)])
        if e.func.id in ("filter", "map") and len(e.args) == 2 and not isinstance(e.args[0], ast.Lambda) and not (isinstance(e.args[0], ast.Constant) and e.args[0].value is None) \
                and substitutable(e.args[0]) and _as_genexp(e.args[1]) is not None and len(_as_genexp(e.args[1]).generators) == 1 and substitutable(_as_genexp(e.args[1]).elt):
            # over a generator (E for v in IT if C): filter(f, ..) is (E for v in IT if C if f(E)), map(f, ..) is (f(E) for v in IT if C)
            inner = copy.deepcopy(_as_genexp(e.args[1]))
            call = ast.Call(func=copy.deepcopy(e.args[0]), args=[copy.deepcopy(inner.elt)], keywords=[])
            g = inner.generators[0]
            if e.func.id == "filter":
                g.ifs = list(g.ifs) + [call]
                return ast.GeneratorExp(elt=inner.elt, generators=[g])
            return ast.GeneratorExp(elt=call, generators=[g])
        if e.func.id in ("filter", "map") and len(e.args) == 2 and not isinstance(e.args[0], ast.Lambda) and not (isinstance(e.args[0], ast.Constant) and e.args[0].value is None) \
                and substitutable(e.args[0]) and _as_genexp(e.args[1]) is None:
            # filter(f, it) / map(f, it) with a function value that can be named again: (x for x in it if f(x)) / (f(x) for x in it)
            v = "_fx"
            call = ast.Call(func=copy.deepcopy(e.args[0]), args=[ast.Name(id=v, ctx=ast.Load())], keywords=[])
            comp = ast.comprehension(target=ast.Name(id=v, ctx=ast.Store()), iter=e.args[1], ifs=[call] if e.func.id == "filter" else [], is_async=0)
            return ast.GeneratorExp(elt=ast.Name(id=v, ctx=ast.Load()) if e.func.id == "filter" else call, generators=[comp])
        if e.func.id == "map" and len(e.args) == 2 and isinstance(e.args[0], ast.Lambda) and len(e.args[0].args.args) == 1:
            v = e.args[0].args.args[0].arg
            inner = _as_genexp(e.args[1])
            if inner is None:
                return ast.GeneratorExp(elt=e.args[0].body, generators=[ast.comprehension(target=ast.Name(id=v, ctx=ast.Store()), iter=e.args[1], ifs=[], is_async=0)])
            if isinstance(inner.elt, ast.Name) and len(inner.generators) == 1 and isinstance(inner.generators[0].target, ast.Name) and inner.elt.id == inner.generators[0].target.id:
                g = copy.deepcopy(inner.generators[0])
                return ast.GeneratorExp(elt=_rename(copy.deepcopy(e.args[0].body), {v: g.target.id}), generators=[g])
    return None


def _rename(e: ast.AST, m: Dict[str, str]) -> ast.AST:
    for n in ast.walk(e):
        if isinstance(n, ast.Name) and n.id in m:
            n.id = m[n.id]
    return e


def _reduction(e: ast.AST) -> Optional[Tuple[str, ast.GeneratorExp, Dict[str, Any]]]:
    """(kind, generator, extras) when *e* is a reduction over a generator-like expression."""
    if getattr(e, "_sfa_kept", False):
        return None
    if isinstance(e, (ast.ListComp,)):
        return "collect", _as_genexp(e), {}
    if isinstance(e, ast.SetComp):
        return "collect_set", ast.GeneratorExp(elt=e.elt, generators=e.generators), {}
    if not (isinstance(e, ast.Call) and isinstance(e.func, ast.Name)):
        return None
    f = e.func.id
    if f in ("sum", "any", "all") and len(e.args) == 1 and not e.keywords:
        g = _as_genexp(e.args[0])
        if g is not None:
            return f, g, {}
    if f == "next" and len(e.args) == 2 and not e.keywords:
        g = _as_genexp(e.args[0])
        if g is not None:
            return "first", g, {"default": e.args[1]}
    if f == "len" and len(e.args) == 1 and not e.keywords:
        g = _as_genexp(e.args[0])
        if g is not None and not isinstance(e.args[0], ast.GeneratorExp):
            return "count", g, {}
    if f == "list" and len(e.args) == 1 and not e.keywords:
        g = _as_genexp(e.args[0])
        if g is not None:
            return "collect", g, {}
    if f == "reduce" and len(e.args) == 3 and not e.keywords and isinstance(e.args[0], ast.Lambda) and len(e.args[0].args.args) == 2:
        g = _as_genexp(e.args[1])
        if g is None:
            v = e.args[0].args.args[1].arg
            g = ast.GeneratorExp(elt=ast.Name(id=v, ctx=ast.Load()), generators=[ast.comprehension(target=ast.Name(id=v, ctx=ast.Store()), iter=e.args[1], ifs=[], is_async=0)])
        return "fold", g, {"lambda": e.args[0], "init": e.args[2]}
    return None


class _Reducer:
    def __init__(self, fn: ast.FunctionDef):
        self.n = 0
        self.taken = {x.id for x in ast.walk(fn) if isinstance(x, ast.Name)} | {a.arg for a in ast.walk(fn) if isinstance(a, ast.arg)}
        stores: Dict[str, int] = {}
        loads: Dict[str, int] = {}
        vals: Dict[str, ast.AST] = {}
        for n in ast.walk(fn):
            if isinstance(n, ast.Name):
                d = stores if isinstance(n.ctx, (ast.Store, ast.Del)) else loads
                d[n.id] = d.get(n.id, 0) + 1
            if isinstance(n, ast.Assign) and len(n.targets) == 1 and isinstance(n.targets[0], ast.Name):
                vals[n.targets[0].id] = n.value
        # names bound by the function itself outside comprehensions (parameters, assignments, loop targets ...)
        self.outer_bound = {a.arg for a in ast.walk(fn.args) if isinstance(a, ast.arg)}
        def _outer(node):
            for ch in ast.iter_child_nodes(node):
                if isinstance(ch, (ast.ListComp, ast.SetComp, ast.DictComp, ast.GeneratorExp, ast.Lambda)):
                    continue
                if isinstance(ch, ast.Name) and isinstance(ch.ctx, (ast.Store, ast.Del)):
                    self.outer_bound.add(ch.id)
                _outer(ch)
        _outer(fn)
        self.once = {nm for nm in vals if stores.get(nm) == 1 and loads.get(nm) == 1}  # locals written once and read once
        self.const_tuples = {nm: v for nm, v in vals.items() if stores.get(nm) == 1 and isinstance(v, ast.Tuple) and v.elts and all(isinstance(x, ast.Constant) for x in v.elts)}
        self.defs = {}
        for nm, v in vals.items():
            if stores.get(nm) == 1 and loads.get(nm) == 1 and (isinstance(v, ast.GeneratorExp) or (isinstance(v, ast.Call) and isinstance(v.func, ast.Name) and v.func.id in ("map", "filter"))):
                self.defs[nm] = v

    def loop_line(self, at: ast.AST) -> int:
        """Generated loops get distinct pseudo line numbers (real line + 100000*k) so that rules can tell them apart."""
        self.k = getattr(self, "k", 0) + 1
        return getattr(at, "lineno", 0) % 100000 + 100000 * self.k

    def fresh(self, base: str) -> str:
        while True:
            self.n += 1
            nm = f"_{base}{self.n}"
            if nm not in self.taken:
                self.taken.add(nm)
                return nm

    # -- blocks --------------------------------------------------------------
    def block(self, stmts: List[ast.stmt]) -> List[ast.stmt]:
        out: List[ast.stmt] = []
        stmts = list(stmts)
        i = 0
        while i < len(stmts):
            st = stmts[i]
            nxt = stmts[i + 1] if i + 1 < len(stmts) else None
            if (isinstance(st, ast.Assign) and len(st.targets) == 1 and isinstance(st.targets[0], ast.Name) and st.targets[0].id in self.once and isinstance(nxt, ast.If)
                    and ((isinstance(nxt.test, ast.Name) and nxt.test.id == st.targets[0].id)
                         or (isinstance(nxt.test, ast.UnaryOp) and isinstance(nxt.test.op, ast.Not) and isinstance(nxt.test.operand, ast.Name) and nxt.test.operand.id == st.targets[0].id))):
                # c = <expr> ; if c: ...   (c is read nowhere else)  ->  if <expr>: ...
                nxt = copy.copy(nxt)
                nxt.test = st.value if isinstance(nxt.test, ast.Name) else ast.UnaryOp(op=ast.Not(), operand=st.value)
                ast.copy_location(nxt.test, st.value)
                stmts[i + 1] = nxt
                i += 1
                continue
            out.extend(self.stmt(st))
            i += 1
        return out

    def stmt(self, st: ast.stmt) -> List[ast.stmt]:
        if isinstance(st, (ast.FunctionDef, ast.AsyncFunctionDef, ast.ClassDef)):
            return [st]
        if isinstance(st, ast.If):
            sp = self._split_boolop_if(st)
            if sp is not None:
                return self.block(sp)
            pre, test = self._hoist(st.test, st)
            st.test = test
            st.body = self.block(st.body)
            st.orelse = self.block(st.orelse)
            return self.block(pre) + [st] if pre else [st]
        if isinstance(st, (ast.For, ast.AsyncFor)):
            lazy_name = isinstance(st.iter, ast.Name) and st.iter.id in _DEFS[0]
            g = _as_genexp(st.iter) if (not isinstance(st.iter, (ast.Name, ast.Attribute)) or lazy_name) else None
            if g is not None and not st.orelse and (lazy_name or isinstance(st.iter, (ast.GeneratorExp, ast.Call))) and not (isinstance(st.iter, ast.Call) and st.iter.func.id in ("list", "tuple")):
                # for t in (E for v in IT if C): body   ->   for v in IT: if C: t = E; body
                inner = [ast.copy_location(ast.Assign(targets=[st.target], value=g.elt), st)] + list(st.body)
                if isinstance(g.elt, ast.Name) and isinstance(st.target, ast.Name) and g.elt.id == st.target.id:
                    inner = list(st.body)
                return self.block(self._loops(g, inner, st))
            st.body = self.block(st.body)
            st.orelse = self.block(st.orelse)
            return [st]
        if isinstance(st, ast.While):
            st.body = self.block(st.body)
            st.orelse = self.block(st.orelse)
            return [st]
        if isinstance(st, (ast.With, ast.AsyncWith)):
            st.body = self.block(st.body)
            return [st]
        if isinstance(st, ast.Try):
            st.body = self.block(st.body)
            st.orelse = self.block(st.orelse)
            st.finalbody = self.block(st.finalbody)
            for h in st.handlers:
                h.body = self.block(h.body)
            return [st]
        if type(st).__name__ == "Once":
            st.body = self.block(st.body)
            return [st]
        if isinstance(st, ast.Expr) and isinstance(st.value, ast.YieldFrom):
            g = _as_genexp(st.value.value)
            if g is not None:
                y = ast.copy_location(ast.Expr(value=ast.Yield(value=g.elt)), st)
                return self.block(self._loops(g, [y], st))
            return [st]
        # n += <boolean expression>  /  n = n + <boolean expression>   ->   if <expression>: n += 1
        if isinstance(st, ast.AugAssign) and isinstance(st.op, ast.Add) and isinstance(st.target, ast.Name) and _is_bool_expr(st.value):
            inc = ast.copy_location(ast.AugAssign(target=st.target, op=ast.Add(), value=ast.Constant(value=1)), st)
            return self.block([ast.copy_location(ast.If(test=st.value, body=[inc], orelse=[]), st)])
        if isinstance(st, ast.Assign) and len(st.targets) == 1 and isinstance(st.targets[0], ast.Name) and isinstance(st.value, ast.BinOp) and isinstance(st.value.op, ast.Add):
            l, r = st.value.left, st.value.right
            other = r if (isinstance(l, ast.Name) and l.id == st.targets[0].id) else (l if (isinstance(r, ast.Name) and r.id == st.targets[0].id) else None)
            if other is not None and _is_bool_expr(other):
                inc = ast.copy_location(ast.AugAssign(target=ast.Name(id=st.targets[0].id, ctx=ast.Store()), op=ast.Add(), value=ast.Constant(value=1)), st)
                return self.block([ast.copy_location(ast.If(test=other, body=[inc], orelse=[]), st)])
        if isinstance(st, (ast.Assign, ast.AnnAssign, ast.AugAssign, ast.Return, ast.Expr)):
            v = getattr(st, "value", None)
            if v is None:
                return [st]
            red = _reduction(v)
            if red is not None and isinstance(st, ast.Assign) and len(st.targets) == 1 and isinstance(st.targets[0], ast.Name):
                return self.block(self._expand(st.targets[0].id, red, st))
            if red is not None and isinstance(st, ast.AnnAssign) and isinstance(st.target, ast.Name):
                return self.block(self._expand(st.target.id, red, st))
            if red is not None and isinstance(st, ast.Return) and not red[0].startswith("collect"):
                t = self.fresh("r")
                ret = ast.copy_location(ast.Return(value=ast.Name(id=t, ctx=ast.Load())), st)
                return self.block(self._expand(t, red, st)) + [ret]
            pre, nv = self._hoist(v, st)
            if pre:
                st.value = nv
                return self.block(pre) + [st]
            return [st]
        return [st]

    # -- pieces ----------------------------------------------------------------
    def _contains_reduction(self, e: ast.AST) -> bool:
        return any(_reduction(n) is not None for n in ast.walk(e))

    def _split_boolop_if(self, st: ast.If) -> Optional[List[ast.stmt]]:
        t = st.test
        if isinstance(t, ast.UnaryOp) and isinstance(t.op, ast.Not) and self._contains_reduction(t.operand) and st.orelse is not None:
            new = ast.copy_location(ast.If(test=t.operand, body=st.orelse or [ast.copy_location(ast.Pass(), st)], orelse=st.body), st)
            return [new]
        if isinstance(t, ast.BoolOp) and len(t.values) >= 2 and any(self._contains_reduction(v) for v in t.values[1:]):
            first = t.values[0]
            rest = t.values[1] if len(t.values) == 2 else ast.BoolOp(op=t.op, values=t.values[1:])
            if isinstance(t.op, ast.And):
                inner = ast.copy_location(ast.If(test=rest, body=st.body, orelse=copy.deepcopy(st.orelse)), st)
                return [ast.copy_location(ast.If(test=first, body=[inner], orelse=st.orelse), st)]
            inner = ast.copy_location(ast.If(test=rest, body=copy.deepcopy(st.body), orelse=st.orelse), st)
            return [ast.copy_location(ast.If(test=first, body=st.body, orelse=[inner]), st)]
        return None

    def _hoist(self, e: ast.AST, at: ast.stmt) -> Tuple[List[ast.stmt], ast.AST]:
        """The first-evaluated reduction inside *e* becomes a temporary assigned just before the statement."""
        from .normalize import _eval_order, _BLOCK
        if _reduction(e) is not None and _reduction(e)[0].startswith("collect"):
            return [], e  # a list built in place where it is used stays an expression
        if _reduction(e) is not None:
            t = self.fresh("t")
            pre = ast.copy_location(ast.Assign(targets=[ast.Name(id=t, ctx=ast.Store())], value=e), at)
            return [pre], ast.copy_location(ast.Name(id=t, ctx=ast.Load()), e)
        target = None
        for n in _eval_order(e):
            if n is _BLOCK:
                break
            if _reduction(n) is not None and not _reduction(n)[0].startswith("collect"):
                target = n
                break
            if isinstance(n, ast.Call) and not is_pure(n) and not any(_reduction(x) is not None for x in ast.walk(n)):
                break
        if target is None:
            # list comprehensions are not calls: look for one evaluated unconditionally at the top level of the expression
            for n in []:
                if isinstance(n, (ast.ListComp,)) and _reduction(n) is not None and not any(isinstance(p_, (ast.Lambda, ast.IfExp, ast.BoolOp, ast.GeneratorExp, ast.ListComp)) and n in ast.walk(p_) and p_ is not n for p_ in ast.walk(e)):
                    target = n
                    break
        if target is None:
            return [], e
        t = self.fresh("t")

        class Rep(ast.NodeTransformer):
            def visit(self, node):
                if node is target:
                    return ast.copy_location(ast.Name(id=t, ctx=ast.Load()), node)
                return super().visit(node)

        pre = ast.copy_location(ast.Assign(targets=[ast.Name(id=t, ctx=ast.Store())], value=target), at)
        return [pre], Rep().visit(e)

    def _expand_nested(self, name: str, kind: str, g: ast.GeneratorExp, extra, at: ast.stmt) -> List[ast.stmt]:
        """any / all / next over several generators: nested loops; leaving the innermost loop leaves them all
        (for ...: for ...: if hit: x = ...; break  else: continue  break)."""
        store = lambda: ast.Name(id=name, ctx=ast.Store())
        assign = lambda v: ast.copy_location(ast.Assign(targets=[store()], value=v), at)
        brk = lambda: ast.copy_location(ast.Break(), at)
        if kind == "first":
            init, hit_test, hit_val = extra["default"], None, g.elt
        elif kind == "any":
            init, hit_test, hit_val = ast.Constant(value=False), g.elt, ast.Constant(value=True)
        else:
            init, hit_test, hit_val = ast.Constant(value=True), ast.UnaryOp(op=ast.Not(), operand=g.elt), ast.Constant(value=False)
        body: List[ast.stmt] = [assign(hit_val), brk()]
        if hit_test is not None:
            body = [ast.copy_location(ast.If(test=hit_test, body=body, orelse=[]), at)]
        first = True
        for comp in reversed(g.generators):
            for c in reversed(comp.ifs):
                body = [ast.copy_location(ast.If(test=c, body=body, orelse=[]), at)]
            loop = ast.copy_location(ast.For(target=comp.target, iter=comp.iter, body=body, orelse=[], type_comment=None), at)
            loop.lineno = self.loop_line(at)
            if first:
                body = [loop]
                first = False
            else:
                body = [loop]
            # every loop but the outermost is followed by: else: continue / break   (added when wrapping it below)
            if comp is not g.generators[0]:
                loop.orelse = [ast.copy_location(ast.Continue(), at)]
                body = [loop, brk()]
        out = [assign(init)] + body
        for x in out:
            ast.fix_missing_locations(x)
        return out

    def _flatten(self, g: ast.GeneratorExp) -> ast.GeneratorExp:
        """Several generators as one: over chain(A, B) when the nest is 'for g in (A, B) for v in g' and only v is used, else over a generator of the bound variables."""
        gens = g.generators
        if len(gens) == 2 and isinstance(gens[0].target, ast.Name) and isinstance(gens[1].iter, ast.Name) and gens[1].iter.id == gens[0].target.id and not gens[0].ifs \
                and isinstance(gens[0].iter, (ast.Tuple, ast.List)) and not any(isinstance(n, ast.Name) and n.id == gens[0].target.id for x in [g.elt] + list(gens[1].ifs) for n in ast.walk(x)):
            it = ast.Call(func=ast.Name(id="chain", ctx=ast.Load()), args=list(gens[0].iter.elts), keywords=[])
            return ast.GeneratorExp(elt=g.elt, generators=[ast.comprehension(target=gens[1].target, iter=it, ifs=list(gens[1].ifs), is_async=0)])
        names = []
        for c in gens:
            for nm in _names(c.target):
                if nm not in names:
                    names.append(nm)
        tup_l = ast.Tuple(elts=[ast.Name(id=n, ctx=ast.Load()) for n in names], ctx=ast.Load())
        tup_s = ast.Tuple(elts=[ast.Name(id=n, ctx=ast.Store()) for n in names], ctx=ast.Store())
        inner = ast.GeneratorExp(elt=tup_l, generators=copy.deepcopy(gens))
        return ast.GeneratorExp(elt=g.elt, generators=[ast.comprehension(target=tup_s, iter=inner, ifs=[], is_async=0)])

    def _loops(self, g: ast.GeneratorExp, innermost: List[ast.stmt], at: ast.AST) -> List[ast.stmt]:
        """for/if nest of the generators around *innermost*."""
        body = innermost
        for comp in reversed(g.generators):
            for c in reversed(comp.ifs):
                body = [ast.copy_location(ast.If(test=c, body=body, orelse=[]), at)]
            body = [ast.copy_location(ast.For(target=comp.target, iter=comp.iter, body=body, orelse=[], type_comment=None), at)]
            body[0].lineno = self.loop_line(at)
        for x in body:
            ast.fix_missing_locations(x)
        return body

    def _expand(self, name: str, red, at: ast.stmt) -> List[ast.stmt]:
        kind, g, extra = red
        g = copy.deepcopy(g)
        # comprehension variables become real locals: keep them apart from the function's own
        ren = {}
        for comp in g.generators:
            for nm in _names(comp.target):
                if nm == name or nm in self.outer_bound:
                    ren[nm] = self.fresh(nm.strip("_") or "v")  # the comprehension's own variable: it must not overwrite the function's local of the same name
        if ren:
            # the first generator's iterable is evaluated in the enclosing scope; everything else sees the comprehension's variables
            first_iter = g.generators[0].iter
            for n_ in ast.walk(g):
                if isinstance(n_, ast.Name) and n_.id in ren and not any(n_ is x for x in ast.walk(first_iter)):
                    n_.id = ren[n_.id]
        load = lambda: ast.Name(id=name, ctx=ast.Load())
        store = lambda: ast.Name(id=name, ctx=ast.Store())

        def assign(v):
            return ast.copy_location(ast.Assign(targets=[store()], value=v), at)

        brk = ast.copy_location(ast.Break(), at)
        if len(g.generators) >= 2 and kind in ("any", "all", "first"):
            return self._expand_nested(name, kind, g, extra, at)
        single = len(g.generators) == 1
        if kind == "sum":
            if _is_bool_expr(g.elt) or (isinstance(g.elt, ast.Constant) and g.elt.value == 1):
                inc = ast.copy_location(ast.AugAssign(target=store(), op=ast.Add(), value=ast.Constant(value=1)), at)
                inner = [inc] if isinstance(g.elt, ast.Constant) else [ast.copy_location(ast.If(test=g.elt, body=[inc], orelse=[]), at)]
            else:
                inner = [ast.copy_location(ast.AugAssign(target=store(), op=ast.Add(), value=g.elt), at)]
            return [assign(ast.Constant(value=0))] + self._loops(g, inner, at)
        if kind == "count":
            inc = ast.copy_location(ast.AugAssign(target=store(), op=ast.Add(), value=ast.Constant(value=1)), at)
            return [assign(ast.Constant(value=0))] + self._loops(g, [inc], at)
        if kind in ("any", "all") and single:
            hit = ast.Constant(value=(kind == "any"))
            test = g.elt if kind == "any" else ast.UnaryOp(op=ast.Not(), operand=g.elt)
            inner = [ast.copy_location(ast.If(test=test, body=[assign(hit), brk], orelse=[]), at)]
            return [assign(ast.Constant(value=(kind != "any")))] + self._loops(g, inner, at)
        if kind == "first" and single:
            return [assign(extra["default"])] + self._loops(g, [assign(g.elt), brk], at)
        if kind == "collect" and single and not g.generators[0].ifs and isinstance(g.generators[0].target, ast.Name):
            it = g.generators[0].iter
            if isinstance(it, ast.Name) and it.id in self.const_tuples:
                it = self.const_tuples[it.id]
            if isinstance(it, (ast.Tuple, ast.List)) and it.elts and len(it.elts) <= 16 and all(isinstance(x, ast.Constant) for x in it.elts):
                # [E for v in (c1, c2, ..)]: the display of E's instances
                v = g.generators[0].target.id
                return [assign(ast.List(elts=[_Sub({v: c}).visit(copy.deepcopy(g.elt)) for c in it.elts], ctx=ast.Load()))]
        if kind == "collect" and single and not g.generators[0].ifs and not any(isinstance(n_, (ast.IfExp, ast.BoolOp)) for n_ in ast.walk(g.elt)):
            # a plain map over one iterable decides nothing: it stays the comprehension it is (resolvable as a closed form)
            v = ast.ListComp(elt=g.elt, generators=g.generators)
            v._sfa_kept = True
            return [assign(ast.copy_location(v, at))]
        if kind == "collect":
            app = ast.copy_location(ast.Expr(value=ast.Call(func=ast.Attribute(value=load(), attr="append", ctx=ast.Load()), args=[g.elt], keywords=[])), at)
            return [assign(ast.List(elts=[], ctx=ast.Load()))] + self._loops(g, [app], at)
        if kind == "collect_set":
            app = ast.copy_location(ast.Expr(value=ast.Call(func=ast.Attribute(value=load(), attr="add", ctx=ast.Load()), args=[g.elt], keywords=[])), at)
            return [assign(ast.Call(func=ast.Name(id="set", ctx=ast.Load()), args=[], keywords=[]))] + self._loops(g, [app], at)
        if kind == "fold" and single:
            lam = extra["lambda"]
            a, b = lam.args.args[0].arg, lam.args.args[1].arg
            pre = []
            if not (isinstance(g.elt, ast.Name) and g.elt.id == b):
                pre = [ast.copy_location(ast.Assign(targets=[ast.Name(id=b, ctx=ast.Store())], value=g.elt), at)]
            step = _Sub({a: load()}).visit(copy.deepcopy(lam.body))
            return [assign(extra["init"])] + self._loops(g, pre + [assign(step)], at)
        # not lowered: keep as an ordinary assignment (marked, so that it is not looked at again)
        v = at.value
        v._sfa_kept = True
        return [assign(v)]


_lowered_plain = lowered


def lowered(fn: ast.FunctionDef) -> ast.FunctionDef:  # noqa: F811  (conditional expressions, then reductions)
    new = _lowered_plain(fn)
    r = _Reducer(new)
    _DEFS[0] = r.defs
    try:
        new.body = r.block(new.body)
    finally:
        _DEFS[0] = {}
    # conditional expressions uncovered by the hoisting
    body = []
    for st in new.body:
        x = _Lower().visit(st) if not isinstance(st, (ast.FunctionDef, ast.AsyncFunctionDef, ast.ClassDef)) else st
        body.extend(x if isinstance(x, list) else [x])
    new.body = body
    ast.fix_missing_locations(new)
    return new
