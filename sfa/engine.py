"""
Engine core: loader, resolver, class table (C3 MRO into the stdlib), constant
evaluator, descriptor table, record table, lightweight types, call resolution.

Pure stdlib ``ast``.  Nothing of the analysed repository is imported or run.
"""
from __future__ import annotations

import ast
import hashlib
import os
from dataclasses import dataclass, field
from typing import Any, Dict, Iterable, Iterator, List, Optional, Sequence, Tuple, Union

PKG = "simfile"


class RegexVal:
    """re.compile(<constant pattern>[, flags]) as a constant."""

    def __init__(self, pattern: str, flags: str = ""):
        self.pattern = pattern
        self.flags = flags

    def __eq__(self, other):
        return isinstance(other, RegexVal) and (self.pattern, self.flags) == (other.pattern, other.flags)

    def __hash__(self):
        return hash((self.pattern, self.flags))

    def __repr__(self):
        return f"re.compile({self.pattern!r}{', ' + self.flags if self.flags else ''})"


class AnalysisError(Exception):
    """An anchor vanished or a construct has a shape the recogniser does not know."""


class NotConst(Exception):
    pass


# ---------------------------------------------------------------------------
# values produced by the constant evaluator


@dataclass(frozen=True)
class EnumVal:
    cls: str  # qualified class name
    name: str
    value: Any

    def __repr__(self):
        return f"{self.cls.rsplit('.', 1)[-1]}.{self.name}"

    def __lt__(self, other):
        return self.value < other.value


@dataclass(frozen=True)
class ClassRef:
    qualname: str

    def __repr__(self):
        return f"<class {self.qualname}>"


@dataclass(frozen=True)
class Descriptor:
    key: str
    alias: Optional[str]
    owner: str = ""
    attr: str = ""

    def __repr__(self):
        return f"item_property({self.key!r}" + (f", alias={self.alias!r})" if self.alias else ")")


@dataclass(frozen=True)
class External:
    name: str  # dotted, e.g. "collections.OrderedDict"

    def __repr__(self):
        return f"<external {self.name}>"


class DefaultDictVal(dict):
    default: Any = None


@dataclass(frozen=True)
class RecordVal:
    cls: str
    fields: Tuple[Tuple[str, Any], ...]

    def get(self, k, d=None):
        return dict(self.fields).get(k, d)


# ---------------------------------------------------------------------------
# program model


@dataclass
class Module:
    name: str
    path: str
    relpath: str
    tree: ast.Module
    source: str
    is_test: bool
    is_pkg: bool
    imports: Dict[str, Tuple] = field(default_factory=dict)  # local name -> ("module", mod) | ("symbol", mod, sym)
    top: Dict[str, ast.AST] = field(default_factory=dict)  # top-level binding name -> defining node
    star_imports: List[str] = field(default_factory=list)

    def line(self, n: int) -> str:
        lines = self.source.splitlines()
        return lines[n - 1] if 0 < n <= len(lines) else ""


@dataclass
class FunctionInfo:
    module: Module
    qualname: str  # e.g. "NoteData.from_notes" or "NoteData.from_notes.push_row"
    node: Union[ast.FunctionDef, ast.AsyncFunctionDef]
    cls: Optional["ClassInfo"] = None
    parent: Optional["FunctionInfo"] = None
    nested: Dict[str, "FunctionInfo"] = field(default_factory=dict)

    @property
    def fq(self) -> str:
        return f"{self.module.name}:{self.qualname}"

    @property
    def name(self) -> str:
        return self.node.name

    def params(self) -> List[str]:
        a = self.node.args
        out = [x.arg for x in a.posonlyargs + a.args]
        if a.vararg:
            out.append("*" + a.vararg.arg)
        out += [x.arg for x in a.kwonlyargs]
        if a.kwarg:
            out.append("**" + a.kwarg.arg)
        return out

    def param_names(self) -> List[str]:
        return [p.lstrip("*") for p in self.params()]

    def has_kwargs(self) -> Optional[str]:
        return self.node.args.kwarg.arg if self.node.args.kwarg else None

    def decorators(self) -> List[str]:
        return [ast.unparse(d) for d in self.node.decorator_list]

    def defaults(self) -> Dict[str, ast.expr]:
        a = self.node.args
        pos = a.posonlyargs + a.args
        out = {}
        for arg, d in zip(pos[len(pos) - len(a.defaults):], a.defaults):
            out[arg.arg] = d
        for arg, d in zip(a.kwonlyargs, a.kw_defaults):
            if d is not None:
                out[arg.arg] = d
        return out

    def annotations(self) -> Dict[str, ast.expr]:
        a = self.node.args
        out = {}
        for arg in a.posonlyargs + a.args + a.kwonlyargs:
            if arg.annotation is not None:
                out[arg.arg] = arg.annotation
        return out


@dataclass
class ClassInfo:
    module: Module
    name: str
    node: ast.ClassDef
    bases: List[Union["ClassInfo", External]] = field(default_factory=list)
    methods: Dict[str, FunctionInfo] = field(default_factory=dict)
    assigns: Dict[str, ast.expr] = field(default_factory=dict)  # class-level name -> value expr
    annots: Dict[str, ast.expr] = field(default_factory=dict)  # class-level name -> annotation
    order: List[str] = field(default_factory=list)  # class-level names in body order

    @property
    def fq(self) -> str:
        return f"{self.module.name}.{self.name}"

    def decorators(self) -> List[str]:
        return [ast.unparse(d) for d in self.node.decorator_list]


# stdlib classes the repo subclasses: name -> real class (introspection of the
# *standard library*, never of the repo)
def _stdlib_classes() -> Dict[str, type]:
    import collections
    import enum
    import fractions
    import typing

    out = {
        "collections.OrderedDict": collections.OrderedDict,
        "collections.UserList": collections.UserList,
        "fractions.Fraction": fractions.Fraction,
        "enum.Enum": enum.Enum,
        "enum.IntEnum": enum.IntEnum,
        "builtins.float": float,
        "builtins.tuple": tuple,
        "builtins.Exception": Exception,
        "builtins.BaseException": BaseException,
        "builtins.object": object,
        "typing.NamedTuple": tuple,  # a NamedTuple class is a tuple subclass
    }
    return out


STDLIB = _stdlib_classes()
BUILTIN_NAMES = set(dir(__import__("builtins")))


class Program:
    """The parsed, resolved program."""

    def __init__(self, root: str):
        self.root = os.path.abspath(root)
        self.modules: Dict[str, Module] = {}
        self.functions: Dict[str, FunctionInfo] = {}  # fq -> info
        self.classes: Dict[str, ClassInfo] = {}  # fq -> info
        self._const_cache: Dict[Tuple[str, str], Any] = {}
        self._mro_cache: Dict[str, List[Union[ClassInfo, External]]] = {}
        self.digest = ""
        self._load()
        self._index()

    # -- loading ----------------------------------------------------------
    def _load(self) -> None:
        pkgdir = os.path.join(self.root, PKG)
        if not os.path.isdir(pkgdir):
            raise AnalysisError(f"package directory {pkgdir} not found")
        h = hashlib.sha256()
        for dirpath, dirnames, filenames in sorted(os.walk(pkgdir)):
            dirnames[:] = sorted(d for d in dirnames if d != "__pycache__")
            for fn in sorted(filenames):
                if not fn.endswith(".py"):
                    continue
                path = os.path.join(dirpath, fn)
                rel = os.path.relpath(path, self.root)
                parts = rel[:-3].split(os.sep)
                is_pkg = parts[-1] == "__init__"
                if is_pkg:
                    parts = parts[:-1]
                name = ".".join(parts)
                with open(path, encoding="utf-8") as f:
                    src = f.read()
                h.update(rel.encode())
                h.update(src.encode())
                try:
                    tree = ast.parse(src, filename=path)
                except SyntaxError as e:
                    raise AnalysisError(f"syntax error in {rel}: {e}")
                is_test = "tests" in parts
                self.modules[name] = Module(name, path, rel, tree, src, is_test, is_pkg)
        self.digest = h.hexdigest()
        from .normalize import normalise_program
        normalise_program({n: m.tree for n, m in self.modules.items()}, {n for n, m in self.modules.items() if m.is_pkg})

    def _abs_import(self, mod: Module, level: int, name: Optional[str]) -> str:
        if level == 0:
            return name or ""
        base = mod.name.split(".")
        if not mod.is_pkg:
            base = base[:-1]
        if level > 1:
            base = base[: len(base) - (level - 1)]
        return ".".join(base + ([name] if name else []))

    def _index(self) -> None:
        for mod in self.modules.values():
            for st in mod.tree.body:
                self._index_stmt(mod, st)
        # functions & classes
        for mod in self.modules.values():
            for st in mod.tree.body:
                if isinstance(st, (ast.FunctionDef, ast.AsyncFunctionDef)):
                    self._add_function(mod, st, None, None, st.name)
                elif isinstance(st, ast.ClassDef):
                    self._add_class(mod, st)
        # resolve bases
        for ci in self.classes.values():
            for b in ci.node.bases:
                ci.bases.append(self._resolve_base(ci.module, b))

    def _index_stmt(self, mod: Module, st: ast.stmt) -> None:
        if isinstance(st, ast.Import):
            for a in st.names:
                local = a.asname or a.name.split(".")[0]
                target = a.name if a.asname else a.name.split(".")[0]
                mod.imports[local] = ("module", target)
        elif isinstance(st, ast.ImportFrom):
            src = self._abs_import(mod, st.level, st.module)
            for a in st.names:
                if a.name == "*":
                    mod.star_imports.append(src)
                    continue
                local = a.asname or a.name
                # "from . import x" may import a submodule
                sub = f"{src}.{a.name}" if src else a.name
                if sub in self.modules:
                    mod.imports[local] = ("module", sub)
                else:
                    mod.imports[local] = ("symbol", src, a.name)
        elif isinstance(st, (ast.FunctionDef, ast.AsyncFunctionDef, ast.ClassDef)):
            mod.top[st.name] = st
        elif isinstance(st, ast.Assign):
            for t in st.targets:
                if isinstance(t, ast.Name):
                    mod.top[t.id] = st
        elif isinstance(st, ast.AnnAssign):
            if isinstance(st.target, ast.Name) and st.value is not None:
                mod.top[st.target.id] = st
        elif isinstance(st, (ast.If, ast.Try)):
            for sub in ast.iter_child_nodes(st):
                if isinstance(sub, ast.stmt):
                    self._index_stmt(mod, sub)

    def _add_function(self, mod, node, cls, parent, qualname) -> FunctionInfo:
        fi = FunctionInfo(mod, qualname, node, cls, parent)
        if parent is not None:
            # property accessors defined under one name inside a function: keep all three
            key = node.name
            for d in node.decorator_list:
                ds = ast.unparse(d)
                if ds.endswith(".setter"):
                    key = node.name + "@setter"
                elif ds.endswith(".deleter"):
                    key = node.name + "@deleter"
            if key != node.name:
                fi.qualname = qualname + key[len(node.name):]
            parent.nested[key] = fi
        self.functions[fi.fq] = fi
        for sub in self._direct_nested_defs(node):
            self._add_function(mod, sub, cls, fi, f"{qualname}.{sub.name}")
        return fi

    @staticmethod
    def _direct_nested_defs(node) -> Iterator[ast.FunctionDef]:
        """FunctionDefs nested anywhere in *node*'s body but not inside a deeper def/class."""
        stack = list(node.body)
        while stack:
            n = stack.pop(0)
            if isinstance(n, (ast.FunctionDef, ast.AsyncFunctionDef)):
                yield n
                continue
            if isinstance(n, (ast.ClassDef, ast.Lambda)):
                continue
            stack[0:0] = [c for c in ast.iter_child_nodes(n)]

    def _add_class(self, mod: Module, node: ast.ClassDef) -> None:
        ci = ClassInfo(mod, node.name, node)
        self.classes[ci.fq] = ci
        for st in node.body:
            if isinstance(st, (ast.FunctionDef, ast.AsyncFunctionDef)):
                fi = self._add_function(mod, st, ci, None, f"{node.name}.{st.name}")
                # property setter/deleter share the name: keep the getter under the
                # plain name and the others under name@setter
                decos = fi.decorators()
                key = st.name
                for d in decos:
                    if d.endswith(".setter"):
                        key = st.name + "@setter"
                    elif d.endswith(".deleter"):
                        key = st.name + "@deleter"
                if key != st.name:
                    del self.functions[fi.fq]
                    fi.qualname = f"{node.name}.{key}"
                    self.functions[fi.fq] = fi
                ci.methods[key] = fi
                ci.order.append(key)
            elif isinstance(st, ast.Assign):
                for t in st.targets:
                    if isinstance(t, ast.Name):
                        ci.assigns[t.id] = st.value
                        ci.order.append(t.id)
            elif isinstance(st, ast.AnnAssign) and isinstance(st.target, ast.Name):
                ci.annots[st.target.id] = st.annotation
                if st.value is not None:
                    ci.assigns[st.target.id] = st.value
                ci.order.append(st.target.id)

    # -- name resolution --------------------------------------------------
    def resolve_name(self, mod: Module, name: str, _seen=None) -> Any:
        """Resolve a module-level name to ClassInfo | FunctionInfo | ("const", mod, node)
        | ("module", name) | External | None."""
        _seen = _seen or set()
        if (mod.name, name) in _seen:
            return None
        _seen.add((mod.name, name))
        if name in mod.top:
            node = mod.top[name]
            if isinstance(node, ast.ClassDef):
                return self.classes.get(f"{mod.name}.{name}")
            if isinstance(node, (ast.FunctionDef, ast.AsyncFunctionDef)):
                return self.functions.get(f"{mod.name}:{name}")
            return ("const", mod, node)
        if name in mod.imports:
            imp = mod.imports[name]
            if imp[0] == "module":
                return ("module", imp[1])
            _, src, sym = imp
            if src in self.modules:
                return self.resolve_name(self.modules[src], sym, _seen)
            return External(f"{src}.{sym}")
        for src in mod.star_imports:
            if src in self.modules:
                m2 = self.modules[src]
                allnames = self.module_all(m2)
                if allnames is None or name in allnames:
                    r = self.resolve_name(m2, name, _seen)
                    if r is not None:
                        return r
        if name in BUILTIN_NAMES:
            return External(f"builtins.{name}")
        return None

    def module_all(self, mod: Module) -> Optional[List[str]]:
        node = mod.top.get("__all__")
        if node is None:
            return None
        try:
            return list(self.eval_const(mod, node.value))
        except NotConst:
            return None

    def resolve_expr(self, mod: Module, expr: ast.expr) -> Any:
        """Resolve Name / dotted Attribute to a program entity (module level only)."""
        if isinstance(expr, ast.Name):
            return self.resolve_name(mod, expr.id)
        if isinstance(expr, ast.Attribute):
            base = self.resolve_expr(mod, expr.value)
            if isinstance(base, tuple) and base[0] == "module":
                mname = base[1]
                sub = f"{mname}.{expr.attr}"
                if mname in self.modules:
                    r = self.resolve_name(self.modules[mname], expr.attr)
                    if r is not None:
                        return r
                    if sub in self.modules:
                        return ("module", sub)
                    return None
                if sub in self.modules:
                    return ("module", sub)
                return External(sub)
            if isinstance(base, ClassInfo):
                return ("classattr", base, expr.attr)
            if isinstance(base, External):
                return External(f"{base.name}.{expr.attr}")
        if isinstance(expr, ast.Constant) and isinstance(expr.value, str):
            # string annotation
            try:
                sub = ast.parse(expr.value, mode="eval").body
            except SyntaxError:
                return None
            return self.resolve_expr(mod, sub)
        return None

    def _resolve_base(self, mod: Module, b: ast.expr) -> Union[ClassInfo, External]:
        if isinstance(b, ast.Subscript):  # Generic[...] style
            b = b.value
        r = self.resolve_expr(mod, b)
        if isinstance(r, ClassInfo):
            return r
        if isinstance(r, External):
            return r
        return External("?" + ast.unparse(b))

    # -- MRO --------------------------------------------------------------
    def mro(self, ci: ClassInfo) -> List[Union[ClassInfo, External]]:
        if ci.fq in self._mro_cache:
            return self._mro_cache[ci.fq]

        def lin(c) -> List:
            if isinstance(c, External):
                return [c]
            seqs = [lin(b) for b in c.bases] + [list(c.bases)]
            res = [c]
            seqs = [list(s) for s in seqs if s]
            while seqs:
                for s in seqs:
                    cand = s[0]
                    if not any(_same(cand, x) for t in seqs for x in t[1:]):
                        break
                else:
                    raise AnalysisError(f"inconsistent MRO for {c.fq}")
                res.append(cand)
                seqs = [[x for x in s if not _same(x, cand)] for s in seqs]
                seqs = [s for s in seqs if s]
            return res

        def _same(a, b):
            if isinstance(a, External) and isinstance(b, External):
                return a.name == b.name
            return a is b

        out = lin(ci)
        self._mro_cache[ci.fq] = out
        return out

    def external_class(self, ext: External) -> Optional[type]:
        return STDLIB.get(ext.name)

    def lookup_member(self, ci: ClassInfo, name: str):
        """Find *name* along the MRO: ("method", FunctionInfo) | ("assign", ClassInfo, expr)
        | ("external", External, pytype) | None."""
        for c in self.mro(ci):
            if isinstance(c, ClassInfo):
                if name in c.methods:
                    return ("method", c.methods[name])
                if name in c.assigns:
                    return ("assign", c, c.assigns[name])
            else:
                t = self.external_class(c)
                if t is not None and any(name in vars(k) for k in t.__mro__ if k is not object):
                    return ("external", c, t)
        return None

    def is_subclass(self, ci: ClassInfo, base_fq_or_ext: str) -> bool:
        for c in self.mro(ci):
            if isinstance(c, ClassInfo) and c.fq == base_fq_or_ext:
                return True
            if isinstance(c, External) and c.name == base_fq_or_ext:
                return True
        return False

    def subclasses(self, base_fq: str) -> List[ClassInfo]:
        return [c for c in self.classes.values() if self.is_subclass(c, base_fq)]

    # -- constant evaluation ---------------------------------------------
    def eval_const(self, mod: Module, node: ast.AST, env: Optional[Dict[str, Any]] = None) -> Any:
        ev = lambda n: self.eval_const(mod, n, env)  # noqa: E731
        if isinstance(node, ast.Constant):
            return node.value
        if isinstance(node, ast.Tuple):
            return tuple(self._eval_seq(mod, node.elts, env))
        if isinstance(node, ast.List):
            return list(self._eval_seq(mod, node.elts, env))
        if isinstance(node, ast.Set):
            return frozenset(self._eval_seq(mod, node.elts, env))
        if isinstance(node, ast.Dict):
            out = {}
            for k, v in zip(node.keys, node.values):
                if k is None:
                    out.update(ev(v))
                else:
                    out[ev(k)] = ev(v)
            return out
        if isinstance(node, ast.Name):
            if env and node.id in env:
                return env[node.id]
            if node.id in ("True", "False", "None"):
                return {"True": True, "False": False, "None": None}[node.id]
            return self._eval_entity(self.resolve_name(mod, node.id), node)
        if isinstance(node, ast.Attribute):
            ent = self.resolve_expr(mod, node)
            if ent is not None:
                return self._eval_entity(ent, node)
            raise NotConst(ast.unparse(node))
        if isinstance(node, ast.UnaryOp):
            v = ev(node.operand)
            if isinstance(node.op, ast.USub):
                return -v
            if isinstance(node.op, ast.UAdd):
                return +v
            if isinstance(node.op, ast.Not):
                return not v
            raise NotConst(ast.unparse(node))
        if isinstance(node, ast.BinOp):
            l, r = ev(node.left), ev(node.right)
            ops = {
                ast.Add: lambda a, b: a + b,
                ast.Sub: lambda a, b: a - b,
                ast.Mult: lambda a, b: a * b,
                ast.FloorDiv: lambda a, b: a // b,
                ast.Div: lambda a, b: a / b,
                ast.Mod: lambda a, b: a % b,
                ast.Pow: lambda a, b: a ** b,
            }
            f = ops.get(type(node.op))
            if f is None or not isinstance(l, (int, float, str, tuple, list)) or not isinstance(r, (int, float, str, tuple, list)):
                raise NotConst(ast.unparse(node))
            try:
                return f(l, r)
            except Exception:
                raise NotConst(ast.unparse(node))
        if isinstance(node, ast.Call) and ast.unparse(node.func) == "re.compile" and 1 <= len(node.args) <= 2 and not node.keywords:
            # a compiled pattern is represented by its pattern text (flags are kept as text)
            pat = ev(node.args[0])
            if isinstance(pat, str):
                return RegexVal(pat, ast.unparse(node.args[1]) if len(node.args) == 2 else "")
        if isinstance(node, ast.Call):
            return self._eval_call(mod, node, env)
        if isinstance(node, ast.Subscript):
            base = ev(node.value)
            idx = node.slice
            if isinstance(idx, ast.Slice):
                lo = ev(idx.lower) if idx.lower else None
                hi = ev(idx.upper) if idx.upper else None
                st = ev(idx.step) if idx.step else None
                return base[lo:hi:st]
            try:
                return base[ev(idx)]
            except Exception:
                raise NotConst(ast.unparse(node))
        if isinstance(node, (ast.Assign, ast.AnnAssign)):
            return ev(node.value)
        raise NotConst(type(node).__name__ + ":" + ast.unparse(node)[:60])

    def _eval_seq(self, mod, elts, env):
        out = []
        for e in elts:
            if isinstance(e, ast.Starred):
                out.extend(self.eval_const(mod, e.value, env))
            else:
                out.append(self.eval_const(mod, e, env))
        return out

    def _eval_entity(self, ent: Any, node: ast.AST) -> Any:
        if ent is None:
            raise NotConst(ast.unparse(node))
        if isinstance(ent, ClassInfo):
            return ClassRef(ent.fq)
        if isinstance(ent, External):
            return ent
        if isinstance(ent, FunctionInfo):
            raise NotConst("function " + ent.fq)
        if ent[0] == "const":
            _, m, n = ent
            key = (m.name, id(n))
            if key in self._const_cache:
                v = self._const_cache[key]
                if v is _IN_PROGRESS:
                    raise NotConst("cyclic constant")
                return v
            self._const_cache[key] = _IN_PROGRESS
            try:
                v = self.eval_const(m, n.value)
            except NotConst:
                del self._const_cache[key]
                raise
            self._const_cache[key] = v
            return v
        if ent[0] == "classattr":
            _, ci, attr = ent
            return self.class_attr_value(ci, attr)
        if ent[0] == "module":
            raise NotConst("module " + ent[1])
        raise NotConst(ast.unparse(node))

    def class_attr_value(self, ci: ClassInfo, attr: str) -> Any:
        """Value of a class-level attribute: enum member, descriptor or constant."""
        if self.is_enum(ci) and attr in ci.assigns:
            return EnumVal(ci.fq, attr, self.eval_const(ci.module, ci.assigns[attr]))
        d = self.descriptors(ci).get(attr)
        if d is not None:
            return d
        m = self.lookup_member(ci, attr)
        if m and m[0] == "assign":
            return self.eval_const(m[1].module, m[2])
        raise NotConst(f"{ci.fq}.{attr}")

    def _eval_call(self, mod: Module, node: ast.Call, env) -> Any:
        ev = lambda n: self.eval_const(mod, n, env)  # noqa: E731
        fn = node.func
        ent = self.resolve_expr(mod, fn) if isinstance(fn, (ast.Name, ast.Attribute)) else None
        name = ent.name if isinstance(ent, External) else None
        if name in ("builtins.frozenset", "builtins.set") and not node.keywords:
            if not node.args:
                return frozenset()
            arg = ev(node.args[0])
            if isinstance(arg, ClassRef):  # frozenset(EnumClass)
                ci = self.classes[arg.qualname]
                if self.is_enum(ci):
                    return frozenset(self.enum_members(ci).values())
                raise NotConst(ast.unparse(node))
            return frozenset(arg)
        if name in ("builtins.tuple", "builtins.list") and not node.keywords and len(node.args) <= 1:
            seq = ev(node.args[0]) if node.args else ()
            return tuple(seq) if name.endswith("tuple") else list(seq)
        if name == "builtins.len" and len(node.args) == 1:
            return len(ev(node.args[0]))
        if name == "builtins.dict" and not node.args:
            return {k.arg: ev(k.value) for k in node.keywords}
        if name == "collections.defaultdict" and len(node.args) == 2 and isinstance(node.args[0], ast.Lambda):
            out = DefaultDictVal(ev(node.args[1]))
            out.default = ev(node.args[0].body)
            return out
        if isinstance(ent, ClassInfo) and ent.fq in self.records():
            fields = self.records()[ent.fq]
            vals: Dict[str, Any] = {}
            for (fname, default), a in zip(fields, node.args):
                vals[fname] = ev(a)
            for k in node.keywords:
                if k.arg is None:
                    raise NotConst(ast.unparse(node))
                vals[k.arg] = ev(k.value)
            for fname, default in fields:
                if fname not in vals:
                    if default is None:
                        raise NotConst(f"missing field {fname}")
                    vals[fname] = self.eval_const(ent.module, default)
            return RecordVal(ent.fq, tuple((f, vals[f]) for f, _ in fields))
        if isinstance(ent, FunctionInfo) and ent.fq.endswith("property:item_property"):
            return self._descriptor_from_call(node, mod)
        raise NotConst("call " + ast.unparse(node)[:60])

    # -- tables -----------------------------------------------------------
    def is_enum(self, ci: ClassInfo) -> bool:
        return any(isinstance(c, External) and c.name in ("enum.Enum", "enum.IntEnum") for c in self.mro(ci))

    def enum_members(self, ci: ClassInfo) -> Dict[str, EnumVal]:
        out = {}
        for name in ci.order:
            if name in ci.assigns and not name.startswith("_"):
                try:
                    out[name] = EnumVal(ci.fq, name, self.eval_const(ci.module, ci.assigns[name]))
                except NotConst:
                    raise AnalysisError(f"enum member {ci.fq}.{name} is not a constant")
        return out

    def _descriptor_from_call(self, call: ast.Call, mod: Module) -> Descriptor:
        args = [self.eval_const(mod, a) for a in call.args]
        kw = {k.arg: self.eval_const(mod, k.value) for k in call.keywords}
        key = args[0] if args else kw.get("name")
        alias = args[1] if len(args) > 1 else kw.get("alias")
        if not isinstance(key, str):
            raise NotConst("item_property key")
        return Descriptor(key, alias)

    def is_item_property_call(self, mod: Module, expr: ast.AST) -> bool:
        if not isinstance(expr, ast.Call):
            return False
        ent = self.resolve_expr(mod, expr.func) if isinstance(expr.func, (ast.Name, ast.Attribute)) else None
        return isinstance(ent, FunctionInfo) and ent.fq == f"{PKG}._private.property:item_property"

    def own_descriptors(self, ci: ClassInfo) -> Dict[str, Descriptor]:
        out = {}
        for attr, val in ci.assigns.items():
            if self.is_item_property_call(ci.module, val):
                try:
                    d = self._descriptor_from_call(val, ci.module)
                except NotConst as e:
                    raise AnalysisError(f"item_property declaration {ci.fq}.{attr} is not constant: {e}")
                out[attr] = Descriptor(d.key, d.alias, ci.fq, attr)
        return out

    def descriptors(self, ci: ClassInfo) -> Dict[str, Descriptor]:
        out: Dict[str, Descriptor] = {}
        for c in reversed(self.mro(ci)):
            if isinstance(c, ClassInfo):
                # any plain re-assignment of the attr in a subclass hides the descriptor
                for attr in c.assigns:
                    out.pop(attr, None)
                for attr in c.methods:
                    out.pop(attr.split("@")[0], None)
                out.update(self.own_descriptors(c))
        return out

    def records(self) -> Dict[str, List[Tuple[str, Optional[ast.expr]]]]:
        """NamedTuple classes: fq -> [(field, default expr or None)]."""
        if hasattr(self, "_records"):
            return self._records
        out = {}
        for ci in self.classes.values():
            if any(isinstance(b, External) and b.name == "typing.NamedTuple" for b in ci.bases):
                fields = []
                for st in ci.node.body:
                    if isinstance(st, ast.AnnAssign) and isinstance(st.target, ast.Name):
                        fields.append((st.target.id, st.value))
                out[ci.fq] = fields
        self._records = out
        return out

    # -- access helpers ----------------------------------------------------
    def module(self, name: str) -> Module:
        if name not in self.modules:
            raise AnalysisError(f"module {name} not found")
        return self.modules[name]

    def func(self, fq: str) -> FunctionInfo:
        if fq not in self.functions:
            raise AnalysisError(f"function {fq} not found (anchor vanished)")
        return self.functions[fq]

    def cls(self, fq: str) -> ClassInfo:
        if fq not in self.classes:
            raise AnalysisError(f"class {fq} not found (anchor vanished)")
        return self.classes[fq]

    def const(self, modname: str, name: str) -> Any:
        mod = self.module(modname)
        if name not in mod.top:
            raise AnalysisError(f"constant {modname}.{name} not found (anchor vanished)")
        try:
            return self.eval_const(mod, ast.Name(id=name, ctx=ast.Load()))
        except NotConst as e:
            raise AnalysisError(f"constant {modname}.{name} cannot be evaluated: {e}")

    def class_const(self, cls_fq: str, name: str) -> Any:
        ci = self.cls(cls_fq)
        try:
            return self.class_attr_value(ci, name)
        except NotConst as e:
            raise AnalysisError(f"class constant {cls_fq}.{name} cannot be evaluated: {e}")

    def nontest_modules(self) -> List[Module]:
        return [m for m in self.modules.values() if not m.is_test]

    def nontest_functions(self) -> List[FunctionInfo]:
        return [f for f in self.functions.values() if not f.module.is_test]

    def nontest_classes(self) -> List[ClassInfo]:
        return [c for c in self.classes.values() if not c.module.is_test]


_IN_PROGRESS = object()


def _canonicalise(tree: ast.Module) -> None:
    """Semantics-preserving normal form applied to every parsed module, so that the rules need not know both spellings:
       `tmp = E; return tmp` (tmp used nowhere else in the function)  ->  `return E`."""
    # isinstance(x, (A, B))  ->  isinstance(x, A) or isinstance(x, B)
    class _Iso(ast.NodeTransformer):
        def visit_Call(self, node: ast.Call):
            self.generic_visit(node)
            if (isinstance(node.func, ast.Name) and node.func.id == "isinstance" and len(node.args) == 2 and not node.keywords
                    and isinstance(node.args[1], ast.Tuple) and len(node.args[1].elts) >= 2 and isinstance(node.args[0], (ast.Name, ast.Attribute))):
                vals = []
                for e in node.args[1].elts:
                    c = ast.Call(func=ast.Name(id="isinstance", ctx=ast.Load()), args=[node.args[0], e], keywords=[])
                    ast.copy_location(c, node)
                    ast.fix_missing_locations(c)
                    vals.append(c)
                b = ast.BoolOp(op=ast.Or(), values=vals)
                ast.copy_location(b, node)
                return b
            return node

    _Iso().visit(tree)
    for fn in [n for n in ast.walk(tree) if isinstance(n, (ast.FunctionDef, ast.AsyncFunctionDef))]:
        counts: Dict[str, int] = {}
        for n in ast.walk(fn):
            if isinstance(n, ast.Name):
                counts[n.id] = counts.get(n.id, 0) + 1
        assigned: Dict[str, int] = {}
        for n in ast.walk(fn):
            if isinstance(n, ast.Name) and isinstance(n.ctx, ast.Store):
                assigned[n.id] = assigned.get(n.id, 0) + 1
        for holder in ast.walk(fn):
            for fld in ("body", "orelse", "finalbody"):
                body = getattr(holder, fld, None)
                if not (isinstance(body, list) and body and isinstance(body[0], ast.stmt)):
                    continue
                i = 0
                while i + 1 < len(body):
                    a, r = body[i], body[i + 1]
                    if (isinstance(a, ast.Assign) and len(a.targets) == 1 and isinstance(a.targets[0], ast.Name) and isinstance(r, ast.Return)
                            and isinstance(r.value, ast.Name) and r.value.id == a.targets[0].id):
                        t = a.targets[0].id
                        # every occurrence of the temporary is one of these store/load pairs
                        if counts.get(t, 0) == 2 * assigned.get(t, 0):
                            new = ast.Return(value=a.value)
                            ast.copy_location(new, a)
                            new.end_lineno = getattr(r, "end_lineno", None)
                            body[i:i + 2] = [new]
                            continue
                    i += 1


# ---------------------------------------------------------------------------
# small syntactic helpers shared by the rules


def attr_chain(node: ast.AST) -> Optional[List[str]]:
    """``a.b.c`` -> ["a", "b", "c"]; None when the base is not a plain name."""
    parts: List[str] = []
    while isinstance(node, ast.Attribute):
        parts.append(node.attr)
        node = node.value
    if isinstance(node, ast.Name):
        parts.append(node.id)
        return list(reversed(parts))
    return None


def walk_no_nested(node: ast.AST, include_lambdas: bool = True) -> Iterator[ast.AST]:
    """Walk *node* without descending into nested function/class definitions."""
    stack = [node]
    first = True
    while stack:
        n = stack.pop()
        if not first and isinstance(n, (ast.FunctionDef, ast.AsyncFunctionDef, ast.ClassDef)):
            continue
        if not first and not include_lambdas and isinstance(n, ast.Lambda):
            continue
        first = False
        yield n
        stack.extend(reversed(list(ast.iter_child_nodes(n))))


def body_walk(fn: Union[ast.FunctionDef, ast.AsyncFunctionDef]) -> Iterator[ast.AST]:
    for st in fn.body:
        yield from walk_no_nested(st) if not isinstance(st, (ast.FunctionDef, ast.AsyncFunctionDef, ast.ClassDef)) else ()


def calls_in(fn) -> List[ast.Call]:
    return [n for n in body_walk(fn) if isinstance(n, ast.Call)]


def src(node: ast.AST, limit: int = 120) -> str:
    try:
        s = ast.unparse(node)
    except Exception:
        s = type(node).__name__
    s = " ".join(s.split())
    return s if len(s) <= limit else s[: limit - 3] + "..."


def norm(node: ast.AST) -> str:
    """Position-free canonical dump (identity of an expression up to formatting)."""
    return ast.dump(node, annotate_fields=False, include_attributes=False)
