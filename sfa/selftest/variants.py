"""
Variants for the checker self-test.  Each edit is (file, old, new) and must
apply exactly once to the *current* /repo sources (otherwise the variant is
reported as stale, not as a failure).  Breaking variants still compile and are
meant to pass the repository's test suite (checked with --with-tests).
"""
from typing import Any, Dict, List, Optional

VARIANTS: List[Dict[str, Any]] = []

INIT = "simfile/__init__.py"
BASE = "simfile/base.py"
SM = "simfile/sm.py"
SSC = "simfile/ssc.py"
NOTES = "simfile/notes/__init__.py"
GROUP = "simfile/notes/group.py"
COUNT = "simfile/notes/count.py"
TIMED = "simfile/notes/timed.py"
TIMING = "simfile/timing/__init__.py"
ENGINE = "simfile/timing/engine.py"
DBPM = "simfile/timing/displaybpm.py"
TSRC = "simfile/timing/_private/timingsource.py"
CONV = "simfile/convert.py"
PROP = "simfile/_private/property.py"
DIR = "simfile/dir.py"
ASSETS = "simfile/assets.py"
EXT = "simfile/_private/extensions.py"


def B(id: str, props, file: str, old: str, new: str, expect: Optional[str] = None, more=()):
    VARIANTS.append({"id": id, "props": props if isinstance(props, list) else [props], "kind": "break", "edits": [(file, old, new)] + list(more), "expect": expect})


def P(id: str, props, edits):
    VARIANTS.append({"id": id, "props": props if isinstance(props, list) else [props], "kind": "preserve", "edits": edits})


ALL = [f"C{i:02d}" for i in range(1, 21)]

# --------------------------------------------------------------------------- C01 / C04
B("c01-swap-fields", ["C01", "C18"], SM, 'f"\\n     {self.description}",\n                f"\\n     {self.difficulty}",', 'f"\\n     {self.difficulty}",\n                f"\\n     {self.description}",', "written field order")
B("c01-nonblank-decoration", "C01", SM, 'f"\\n     {self.meter}"', 'f"\\n  -  {self.meter}"', "decoration")
B("c01-drop-strip", ["C01", "C03"], SM, "self[property] = value.strip()", "self[property] = value", "strip")
B("c01-extradata-offbyone", "C01", SM, "self.extradata = list(values[len(SM_CHART_PROPERTIES) :])", "self.extradata = list(values[len(SM_CHART_PROPERTIES) + 1 :])", "extradata")
B("c01-extradata-dropped", "C01", SM, "                *(self.extradata or []),\n", "", "extradata")
B("c01-split-maxsplit", ["C01", "C04"], BASE, 'param = MSDParameter((key, *value.split(":")))', 'param = MSDParameter((key, *value.split(":", 1)))', "every item is written")
B("c01-multi-table-writer-only", ["C01"], BASE, "            elif key in BaseSimfile.MULTI_VALUE_PROPERTIES:\n                param = MSDParameter((key, *value.split", '            elif key in ("ATTACKS",):\n                param = MSDParameter((key, *value.split', "every item is written")
B("c01-join-first-two", ["C01", "C03"], SM, 'self[key] = ":".join(param.components[1:])', 'self[key] = ":".join(param.components[1:3])', "components")
B("c01-join-sep", ["C01", "C03"], SM, 'self[key] = ":".join(param.components[1:])', 'self[key] = ";".join(param.components[1:])', "each parameter")
B("c01-none-guard-removed", ["C01", "C04"], BASE, "            if value is None:\n                param = MSDParameter((key,))\n            elif key in", "            if key in", "value")
B("c01-skip-empty-values", ["C01", "C04"], BASE, "        for (key, value) in self.items():\n            if value is None:", "        for (key, value) in self.items():\n            if value == \"\":\n                continue\n            if value is None:", "every item is written")
B("c01-no-blank-line", "C01", BASE, '        file.write("\\n")\n        self.charts.serialize(file)', "        self.charts.serialize(file)", "blank line")
B("c01-charts-reversed", "C01", BASE, "        for chart in self:\n            chart.serialize(file)", "        for chart in reversed(self):\n            chart.serialize(file)", "chart")
B("c01-raw-text-written", ["C01", "C04"], BASE, '            file.write(f"{param}\\n")', '            file.write(f"{param} \\\\\\n")', "parameters + whitespace")
B("c01-table-order", ["C01", "C18"], SM, '    "DIFFICULTY",\n    "METER",', '    "METER",\n    "DIFFICULTY",', "SM_CHART_PROPERTIES")
B("c01-valueerror-guard-weaker", ["C01", "C03"], SM, "if len(values) < len(SM_CHART_PROPERTIES):", "if len(values) < len(SM_CHART_PROPERTIES) - 1:", "ValueError")
B("c01-chart-from-all-components", ["C01", "C03"], SM, "self.charts.append(SMChart.from_msd(param.components[1:]))", "self.charts.append(SMChart.from_msd(param.components))", "components")

# --------------------------------------------------------------------------- C02
B("c02-identity-back", "C02", SSC, "            if key == notes_key:\n                continue", "            if value is self.notes:\n                continue", "identity")
B("c02-identity-equality", "C02", SSC, "            if key == notes_key:\n                continue", "            if value == self.notes:\n                continue", "recognised by its key")
B("c02-notes-alias-wrong", "C02", SSC, 'if "NOTES" not in self and "NOTES2" in self:', 'if "NOTES2" in self:', "notes item")
B("c02-notedata-after-loop", "C02", SSC, "        file.write(f\"{MSDParameter(('NOTEDATA', ''))}\\n\")\n        notes_key = \"NOTES\"", "        notes_key = \"NOTES\"", "NOTEDATA", more=[(SSC, '        file.write(f"{notes_param}\\n\\n")', '        file.write(f"{notes_param}\\n\\n")\n        file.write(f"{MSDParameter((\'NOTEDATA\', \'\'))}\\n")')])
B("c02-notes-written-only-if-nonempty", "C02", SSC, '        file.write(f"{notes_param}\\n\\n")', '        if notes:\n            file.write(f"{notes_param}\\n\\n")', "notes item last")
B("c02-chart-split-removed", ["C02", "C04"], SSC, "            elif key in BaseSimfile.MULTI_VALUE_PROPERTIES:\n                param = MSDParameter((key, *value.split(\":\")))\n            else:\n                param = MSDParameter((key, value))\n            file.write", "            else:\n                param = MSDParameter((key, value))\n            file.write", None)
B("c02-parse-leak-to-simfile", ["C02", "C03"], SSC, "            elif partial_chart is not None:\n                partial_chart[key] = value", "            elif partial_chart is not None and key != \"CREDIT\":\n                partial_chart[key] = value", "chart")
B("c02-last-chart-not-appended", ["C02", "C03"], SSC, "        if partial_chart is not None:\n            self.charts.append(partial_chart)\n\n    @property", "    @property", "last open chart")
B("c02-close-after-open", ["C02", "C03"], SSC, "                if partial_chart is not None:\n                    self.charts.append(partial_chart)\n                partial_chart = SSCChart()", "                old_chart = partial_chart\n                partial_chart = SSCChart()\n                if old_chart is not None:\n                    self.charts.append(partial_chart)", None)
B("c02-break-test-value", ["C02", "C03"], SSC, 'if key in ("NOTES", "NOTES2"):\n                break', 'if key in ("NOTES",):\n                break', "notes item")
B("c02-ssc-simfile-value-first-only", ["C02", "C03"], SSC, '                value: Optional[str] = ":".join(param.components[1:])', "                value: Optional[str] = param.value", None)

# --------------------------------------------------------------------------- C03
B("c03-key-not-upper-sm", ["C03", "C04"], SM, "            key = param.key.upper()\n            if key == \"NOTES\":", "            key = param.key\n            if key == \"NOTES\":", "upper")
B("c03-strict-dropped-loads", "C03", INIT, "return load(StringIO(string), strict=strict)", "return load(StringIO(string))", "strict")
B("c03-strict-dropped-open", ["C03", "C05"], INIT, "        try_encodings=try_encodings,\n        strict=strict,\n        filesystem=filesystem,\n        **kwargs\n    )[0]", "        try_encodings=try_encodings,\n        filesystem=filesystem,\n        **kwargs\n    )[0]", "strict")
B("c03-strict-inverted", "C03", BASE, "ignore_stray_text=not strict,", "ignore_stray_text=strict,", "ignore_stray_text")
B("c03-strict-constant-detect", "C03", INIT, "        parser = parse_msd(file=file, ignore_stray_text=not strict)", "        parser = parse_msd(file=file, ignore_stray_text=False)", "ignore_stray_text")
B("c03-rewind-removed", "C03", INIT, "    if isinstance(file, TextIOWrapper) or isinstance(file, TextIO):\n        file.seek(0)\n", "", "seek")
B("c03-rewind-narrow", "C03", INIT, "    if isinstance(file, TextIOWrapper) or isinstance(file, TextIO):\n        file.seek(0)\n", "    if isinstance(file, TextIO):\n        file.seek(0)\n", "seek")
B("c03-suffix-not-lowered", "C03", INIT, "_, _, suffix = file.name.lower().rpartition(\".\")", "_, _, suffix = file.name.rpartition(\".\")", "suffix")
B("c03-suffix-swapped", "C03", INIT, "            if suffix == \"ssc\":\n                return (file, True)\n            elif suffix == \"sm\":\n                return (file, False)", "            if suffix == \"ssc\":\n                return (file, False)\n            elif suffix == \"sm\":\n                return (file, True)", "suffix dispatch")
B("c03-version-case", "C03", INIT, "first_param.key.upper() == \"VERSION\"", "first_param.key == \"VERSION\"", "VERSION")
B("c03-load-classes-swapped", "C03", INIT, "    if is_ssc:\n        return SSCSimfile(file=file, strict=strict)\n    else:\n        return SMSimfile(file=file, strict=strict)", "    if not is_ssc:\n        return SSCSimfile(file=file, strict=strict)\n    else:\n        return SMSimfile(file=file, strict=strict)", "is_ssc")
B("c03-parse-skipped-for-empty-string", "C03", BASE, "        if file is not None or string is not None:", "        if file or string:", "whenever file or string is given")
B("c03-second-tokenizer", "C03", SM, "    def _from_str(self, string: str) -> None:\n        self._from_msd(string.split(\":\"))", "    def _from_str(self, string: str) -> None:\n        from msdparser import parse_msd\n        list(parse_msd(string=string))\n        self._from_msd(string.split(\":\"))", "parse_msd")
B("c03-first-param-second", "C03", INIT, "        first_param = next(parser)\n", "        next(parser)\n        first_param = next(parser)\n", "first parameter")

# --------------------------------------------------------------------------- C05 / C06
B("c05-encodings-order", "C05", INIT, 'ENCODINGS = ["utf-8", "cp1252", "cp932", "cp949"]', 'ENCODINGS = ["utf-8", "cp932", "cp1252", "cp949"]', "ENCODINGS")
B("c05-sorted-encodings", "C05", INIT, "    for encoding in try_encodings:", "    for encoding in sorted(try_encodings):", None)
B("c05-return-first-encoding", "C05", INIT, "                return (load(file, strict=strict), encoding)", "                return (load(file, strict=strict), try_encodings[0])", "returns")
B("c05-backup-default-encoding", "C05", INIT, "                backup_filename, \"w\", encoding=encoding, **kwargs", "                backup_filename, \"w\", **kwargs", "encoding")
B("c05-output-utf8", "C05", INIT, "            output_filename or input_filename, \"w\", encoding=encoding, **kwargs", "            output_filename or input_filename, \"w\", encoding=\"utf-8\", **kwargs", "encoding")
B("c05-catch-all-decode", "C05", INIT, "        except UnicodeDecodeError as e:", "        except (UnicodeDecodeError, ValueError) as e:", "UnicodeDecodeError")
B("c05-name-check-after-load", "C05", INIT, "    if backup_filename:\n        if backup_filename in (input_filename, output_filename):\n            raise ValueError(\n                \"backup_filename must be distinct from input/output filenames\"\n            )\n\n    simfile, encoding", "    simfile, encoding", "name check", more=[(INIT, "    # Preserve the original simfile contents if a backup file was requested\n", "    if backup_filename:\n        if backup_filename in (input_filename, output_filename):\n            raise ValueError(\"backup_filename must be distinct\")\n")])
B("c05-name-check-input-only", "C05", INIT, "        if backup_filename in (input_filename, output_filename):", "        if backup_filename in (input_filename,):", "name check")
B("c05-backup-after-yield", ["C05", "C06"], INIT, "    backup_data = str(simfile) if backup_filename else \"\"\n\n    try:\n        yield simfile", "    try:\n        yield simfile", "backup", more=[(INIT, "        output_data = str(simfile)\n", "        output_data = str(simfile)\n        backup_data = str(simfile) if backup_filename else \"\"\n")])
B("c05-output-target-swapped", "C05", INIT, "            output_filename or input_filename, \"w\"", "            input_filename or output_filename, \"w\"", "output goes to")
B("c05-extra-write-dir", "C05", DIR, "        self._ignore_duplicate = ignore_duplicate\n\n        for simfile_item", "        self._ignore_duplicate = ignore_duplicate\n        with self.filesystem.open(self._path.join(simfile_dir, \".scanned\"), \"w\") as marker:\n            marker.write(\"1\")\n\n        for simfile_item", "write effect")
B("c05-os-remove", "C05", ASSETS, "    def _get_case_insensitive_path(self, path: str) -> Optional[str]:\n", "    def _get_case_insensitive_path(self, path: str) -> Optional[str]:\n        if path.endswith(\".tmp\"):\n            os.remove(path)\n", "write effect")
B("c05-open-explicit-encoding-ignored", "C05", INIT, "        try_encodings = [kwargs.pop(\"encoding\")]", "        try_encodings = ENCODINGS + [kwargs.pop(\"encoding\")]", "tried encodings")
B("c05-read-mode-plus", "C05", INIT, "with filesystem.open(filename, \"r\", encoding=encoding, **kwargs) as file:", "with filesystem.open(filename, \"r+\", encoding=encoding, **kwargs) as file:", None)
B("c06-swallow-exception", "C06", INIT, "    except:\n        raise\n    else:", "    except Exception:\n        return\n    else:", "re-raises")
B("c06-cancel-falls-through-to-write", "C06", INIT, "    except CancelMutation:\n        return  # Don't re-raise\n    except:\n        raise\n    else:\n        # No exception was caught, so write the output file(s)\n", "    except CancelMutation:\n        pass\n    except:\n        raise\n    if True:\n        # No exception was caught, so write the output file(s)\n", None)
B("c06-serialize-in-with", "C06", INIT, "            writer.write(output_data)", "            simfile.serialize(writer)", "write-mode block")
B("c06-no-encode-check", "C06", INIT, "        output_data.encode(encoding, kwargs.get(\"errors\") or \"strict\")\n", "", "encoded")
B("c06-output-before-backup", ["C05", "C06"], INIT, "        # Write backup file if requested\n        if backup_filename:\n            with filesystem.open(\n                backup_filename, \"w\", encoding=encoding, **kwargs\n            ) as writer:\n                writer.write(backup_data)\n\n", "", "backup", more=[(INIT, "            writer.write(output_data)\n", "            writer.write(output_data)\n        if backup_filename:\n            with filesystem.open(\n                backup_filename, \"w\", encoding=encoding, **kwargs\n            ) as writer:\n                writer.write(backup_data)\n")])
B("c06-cancel-is-exception", "C06", INIT, "class CancelMutation(BaseException):", "class CancelMutation(Exception):", "CancelMutation")
B("c06-finally-writes", "C06", INIT, "    except:\n        raise\n    else:", "    except:\n        raise\n    finally:\n        filesystem.open(input_filename + \".lock\", \"w\").close()\n    if True:", None)
B("c06-raise-other", "C06", INIT, "    except:\n        raise\n    else:", "    except Exception as e:\n        raise RuntimeError(\"mutate failed\") from e\n    else:", "re-raises")

# --------------------------------------------------------------------------- C07
B("c07-lt-only", ["C07", "C10"], NOTES, "    def __le__(self, other) -> bool:\n        return bool(self._comparable() <= other._comparable())\n\n", "", "__le__")
B("c07-key-order", ["C07", "C10"], NOTES, "        return (self.player, self.beat, self.column)\n\n    def __lt__", "        return (self.beat, self.player, self.column)\n\n    def __lt__", "position key")
B("c07-ge-wrong-op", ["C07", "C10"], NOTES, "return bool(self._comparable() >= other._comparable())", "return bool(self._comparable() > other._comparable())", "__ge__")
B("c07-beat-l-not-scaled", "C07", NOTES, "beat=Beat(m * 4 * subdivision + l * 4, subdivision),", "beat=Beat(m * 4 * subdivision + l, subdivision),", "beat ==")
B("c07-beat-measure-3", "C07", NOTES, "beat=Beat(m * 4 * subdivision + l * 4, subdivision),", "beat=Beat(m * 3 * subdivision + l * 4, subdivision),", "beat ==")
B("c07-enumerate-start", "C07", NOTES, "        for l, line in enumerate(lines):", "        for l, line in enumerate(lines, 1):", None)
B("c07-player-dropped", "C07", NOTES, "                        player=p,\n", "", "player")
B("c07-keysound-dropped", "C07", NOTES, "                        keysound_index=keysound_indices[c],\n", "", "keysound")
B("c07-skip-mines", "C07", NOTES, "                if column != \"0\":", "                if column != \"0\" and column != \"M\":", "cells other than")
B("c07-measure-lstrip", "C07", NOTES, "                yield from self._iter_measure(p, m, measure.strip())", "                yield from self._iter_measure(p, m, measure.lstrip())", "stripped")
B("c07-notedata-stripped", "C07", NOTES, "            self._notedata = source\n", "            self._notedata = source.strip()\n", "verbatim")
B("c07-notetype-value", "C07", NOTES, '    LIFT = "L"', '    LIFT = "l"', "NoteType")
B("c07-split-semicolon", ["C07", "C08"], NOTES, "for m, measure in enumerate(notedata.split(\",\")):", "for m, measure in enumerate(notedata.split(\";\")):", "split")

# --------------------------------------------------------------------------- C08
B("c08-fallback-in-loop", "C08", NOTES, "        # if there were no notes at all, write a blank measure\n        if last_player == -1:\n            push_measure()\n", "", "every exit")
B("c08-rows-2q", "C08", NOTES, "            for _ in range(last_row + 1, q * 4):", "            for _ in range(last_row + 1, q * 2):", "4*q")
B("c08-fill-from-last", "C08", NOTES, "                for _ in range(last_measure + 1, m):", "                for _ in range(last_measure, m):", "per measure group")
B("c08-last-measure-not-updated", "C08", NOTES, "                push_measure(list(measure))\n                last_measure = m\n", "                push_measure(list(measure))\n", "per measure group")
B("c08-row-key-no-q", "C08", NOTES, "lambda note: int(note.beat % 4 * q)", "lambda note: int(note.beat % 4 * 4)", "row index")
B("c08-lcm-product", "C08", NOTES, "q = reduce(lambda a, b: a * b // gcd(a, b), quantizations, 1)", "q = reduce(lambda a, b: max(a, b), quantizations, 1)", "least common multiple")
B("c08-separator-mismatch", "C08", NOTES, '                    notedata.write(",\\n")\n                # account for any skipped measures', '                    notedata.write(";\\n")\n                # account for any skipped measures', "per measure group")
B("c08-cell-type-only", "C08", NOTES, "                note_strings[note.column] = str(note)", "                note_strings[note.column] = str(note.note_type)", "column")
B("c08-keysound-always", "C08", NOTES, "        if self.keysound_index is not None:\n            note_string +=", "        if self.keysound_index:\n            note_string +=", "keysound")
B("c08-player-fill-missing-sep", "C08", NOTES, "                for _ in range(last_player + 1, p):\n                    push_measure()\n                    notedata.write(\"&\\n\")", "                for _ in range(last_player + 1, p):\n                    push_measure()", "per player group")

# --------------------------------------------------------------------------- C09
B("c09-jumps-3", "C09", COUNT, "        same_beat_notes=same_beat_notes,\n        same_beat_minimum=2,", "        same_beat_notes=same_beat_notes,\n        same_beat_minimum=3,", "count_jumps")
B("c09-hands-default", "C09", COUNT, "    same_beat_minimum: int = 3,", "    same_beat_minimum: int = 4,", "count_hands")
B("c09-gt-instead-of-ge", "C09", COUNT, "return sum(len(gn) >= same_beat_minimum for gn in grouped_notes_iterator)", "return sum(len(gn) > same_beat_minimum for gn in grouped_notes_iterator)", ">=")
B("c09-default-types-mine", "C09", COUNT, "        NoteType.ROLL_HEAD,\n        NoteType.LIFT,\n    )\n)", "        NoteType.ROLL_HEAD,\n        NoteType.LIFT,\n        NoteType.MINE,\n    )\n)", "DEFAULT_NOTE_TYPES")
B("c09-rolls-count-holds", "C09", COUNT, "        notes,\n        NoteType.ROLL_HEAD,", "        notes,\n        NoteType.HOLD_HEAD,", "ROLL_HEAD")
B("c09-orphaned-tail-not-forwarded", "C09", COUNT, "            orphaned_head=orphaned_head,\n            orphaned_tail=orphaned_tail,\n        ),\n    )", "            orphaned_head=orphaned_head,\n        ),\n    )", "orphaned_tail")
B("c09-orphan-heads-swapped", "C09", COUNT, "        NoteType.HOLD_HEAD,\n        orphaned_head=orphaned_head,\n        orphaned_tail=orphaned_tail,", "        NoteType.HOLD_HEAD,\n        orphaned_head=orphaned_tail,\n        orphaned_tail=orphaned_head,", "orphaned")
B("c09-no-join", "C09", COUNT, "            join_heads_to_tails=True,\n", "", "joining")
B("c09-mines-fake", "C09", COUNT, "return sum(note.note_type == NoteType.MINE for note in notes)", "return sum(note.note_type in (NoteType.MINE, NoteType.FAKE) for note in notes)", "MINE")
B("c09-enum-drop-missing", "C09", GROUP, "            elif orphaned_tail == OrphanedNotes.KEEP_ORPHAN:\n                if maybe_tail:\n                    buffer.append(maybe_tail)\n            elif orphaned_tail == OrphanedNotes.DROP_ORPHAN:\n                pass  # Do nothing and the tail won't be emitted", "            elif orphaned_tail != OrphanedNotes.DROP_ORPHAN:\n                if maybe_tail:\n                    buffer.append(maybe_tail)", None)
B("c09-no-final-flush", "C09", GROUP, "            join_head_to_tail(head, None)\n\n        yield from flush()", "            join_head_to_tail(head, None)", "flushed")
B("c09-no-orphan-cleanup", "C09", GROUP, "        # Clean up orphaned heads\n        for head in held_columns.values():\n            join_head_to_tail(head, None)\n", "", "unclosed heads")
B("c09-filter-only-when-joining", "C09", GROUP, "    notes = filter(\n        lambda note: note.note_type in include_note_types,\n        notes,\n    )\n\n    notes_maybe_with_tails: Iterator[_NoteMaybeWithTail]\n    if join_heads_to_tails:\n        notes_maybe_with_tails = join_heads_to_tails_(notes)", "    notes_maybe_with_tails: Iterator[_NoteMaybeWithTail]\n    if join_heads_to_tails:\n        notes = filter(\n            lambda note: note.note_type in include_note_types,\n            notes,\n        )\n        notes_maybe_with_tails = join_heads_to_tails_(notes)", "included note types")
B("c09-attach-tail-player", "C09", GROUP, "            tail_beat=tail.beat,\n            player=head.player,", "            tail_beat=tail.beat,", "per note")
B("c09-attach-tail-beat", "C09", GROUP, "            tail_beat=tail.beat,", "            tail_beat=head.beat,", "per note")
B("c09-join-all-as-separate", "C09", GROUP, "        elif same_beat_notes == SameBeatNotes.JOIN_ALL:\n            yield row\n", "", "JOIN_ALL")

# --------------------------------------------------------------------------- C10
B("c10-tail-keysound-back", "C10", GROUP, "                        note_type=NoteType.TAIL,\n                        player=note.player,\n                    ),", "                        note_type=NoteType.TAIL,\n                        player=note.player,\n                        keysound_index=note.keysound_index,\n                    ),", "keysound_index")
B("c10-tail-player-lost", "C10", GROUP, "                        note_type=NoteType.TAIL,\n                        player=note.player,\n                    ),", "                        note_type=NoteType.TAIL,\n                    ),", "player")
B("c10-head-keysound-lost", "C10", GROUP, "                        note_type=note.note_type,\n                        player=note.player,\n                        keysound_index=note.keysound_index,\n                    )\n                )", "                        note_type=note.note_type,\n                        player=note.player,\n                    )\n                )", "keysound_index")
B("c10-no-drain", "C10", GROUP, "    # Yield any remaining pending tails\n    while pending_tails:\n        yield heappop(pending_tails)\n", "", "drained")
B("c10-release-le", "C10", GROUP, "            while pending_tails and pending_tails[0] < note:", "            while pending_tails and pending_tails[0].beat < note.beat:", "released")
B("c10-tail-beat-head", "C10", GROUP, "                        beat=note.tail_beat,", "                        beat=note.beat,", "beat")
B("c10-enum-keep-missing", "C10", GROUP, "            elif orphaned_notes == OrphanedNotes.KEEP_ORPHAN:\n                pass  # Let the splitting note be yielded below\n            elif orphaned_notes == OrphanedNotes.DROP_ORPHAN:\n                return  # Don't yield the splitting note", "            elif orphaned_notes == OrphanedNotes.DROP_ORPHAN:\n                return  # Don't yield the splitting note", None)

# --------------------------------------------------------------------------- C11 / C12 / C13
B("c11-tag-order", ["C11", "C12"], ENGINE, "    DELAY = 3\n    DELAY_END = 4\n    STOP = 5\n    STOP_END = 6", "    STOP = 3\n    STOP_END = 4\n    DELAY = 5\n    DELAY_END = 6", "EventTag order")
B("c11-default-tag", "C11", ENGINE, "def time_at(self, beat: Beat, event_tag: EventTag = EventTag.STOP) -> SongTime:", "def time_at(self, beat: Beat, event_tag: EventTag = EventTag.STOP_END) -> SongTime:", "default tag")
B("c11-stops-paired-delay-end", "C11", ENGINE, "            (self.timing_data.stops, EventTag.STOP_END),", "            (self.timing_data.stops, EventTag.DELAY_END),", "paired")
B("c11-all-bpms", "C11", ENGINE, "(cast(BeatValues, self.timing_data.bpms[1:]), EventTag.BPM),", "(cast(BeatValues, self.timing_data.bpms), EventTag.BPM),", "paired")
B("c11-bpm-over-60", "C11", ENGINE, "time_until = float(beats_until) * 60 / float(self.bpm)", "time_until = float(beats_until) * float(self.bpm) / 60", "seconds")
B("c11-tagged-beats-from-time", "C11", ENGINE, "                lambda state: (state.event.beat, state.event.tag),", "                lambda state: (state.event.time, state.event.tag),", "bisect")
B("c11-pause-guard-stop-only", "C11", ENGINE, "        if self.event.tag in (EventTag.STOP, EventTag.DELAY) and event_tag in (", "        if self.event.tag in (EventTag.STOP,) and event_tag in (", "pause length")
B("c11-pause-any-query-tag", "C11", ENGINE, "        if self.event.tag in (EventTag.STOP, EventTag.DELAY) and event_tag in (\n            EventTag.STOP_END,\n            EventTag.DELAY_END,\n        ):", "        if self.event.tag in (EventTag.STOP, EventTag.DELAY):", "pause length")
B("c11-warp-time", "C11", ENGINE, "        if self.warp:\n            time_until = 0.0", "        if self.warp:\n            time_until = 0.001", "warp")
B("c11-bpm-on-any-event", "C11", ENGINE, "        if event.tag == EventTag.BPM:\n            bpm = event.value", "        if event.tag in (EventTag.BPM, EventTag.STOP):\n            bpm = event.value", "bpm becomes")
B("c11-warp-end-ignored", "C11", ENGINE, "        elif event.tag == EventTag.WARP_END:\n            warp = False\n", "", "warp")
B("c11-offset-sign", "C11", ENGINE, "time=SongTime(-self.timing_data.offset),", "time=SongTime(self.timing_data.offset),", "offset")
B("c11-coalesce-lt", "C11", ENGINE, "                if warp.beat <= last_warp_end:", "                if warp.beat < last_warp_end:", "union")
B("c11-warp-end-start", "C11", ENGINE, "            warp_end = warp.beat + Beat(warp.value)", "            warp_end = Beat(warp.value)", "overlapping or touching")
B("c11-merge-reverse", "C11", ENGINE, "        for tagged_event in chronological_events:\n            self._state_machine.advance(tagged_event)", "        for tagged_event in sorted(chronological_events, key=lambda e: e.tag):\n            self._state_machine.advance(tagged_event)", "merged by TaggedEvent order")
B("c11-lt-tag-first", "C11", ENGINE, "        if self.beat < other.beat:\n            return True\n        if self.beat == other.beat:\n            if self.tag < other.tag:\n                return True\n        return False", "        if self.tag < other.tag:\n            return True\n        if self.tag == other.tag:\n            if self.beat < other.beat:\n                return True\n        return False", "bisect")
B("c11-bisect-no-minus-1", "C11", ENGINE, "        prior_state_index = max(0, bisect(self._tagged_beats, tagged_beat) - 1)\n        prior_state: TimingState = self._state_machine[prior_state_index]\n\n        return SongTime(", "        prior_state_index = max(0, bisect(self._tagged_beats, tagged_beat))\n        prior_state: TimingState = self._state_machine[prior_state_index]\n\n        return SongTime(", "prior state index")
B("c11-time-from-event-beat", "C11", ENGINE, "            beats_until = beat - self.event.beat", "            beats_until = beat", "elapsed time")
B("c12-beats-until-60", "C12", ENGINE, "        beats_elapsed = time_elapsed / 60 * float(self.bpm)", "        beats_elapsed = time_elapsed * 60 / float(self.bpm)", "beats")
B("c12-no-tick-rounding", "C12", ENGINE, "        return Beat(beats_elapsed)", "        return Beat(Fraction(beats_elapsed))", None, more=[(ENGINE, "from bisect import bisect\n", "from bisect import bisect\nfrom fractions import Fraction\n")])
B("c12-pause-guard", "C12", ENGINE, "        if self.event.tag in (EventTag.STOP, EventTag.DELAY):\n            return Beat(0)", "        if self.event.tag in (EventTag.STOP,):\n            return Beat(0)", "STOP or DELAY")
B("c12-beat-at-default", "C12", ENGINE, "        self, time: SongTimeOrFloat, event_tag: EventTag = EventTag.STOP\n    ) -> Beat:", "        self, time: SongTimeOrFloat, event_tag: EventTag = EventTag.WARP\n    ) -> Beat:", "default tag")
B("c12-second-unsorted-list", "C12", ENGINE, "        prior_state_index = max(0, bisect(self._tagged_times, tagged_time) - 1)", "        prior_state_index = max(0, bisect(self._tagged_times, tagged_time) - 2)", "prior state index")
B("c13-fake-player-lost", "C13", TIMED, "                        player=note.player,\n", "", "player")
B("c13-fake-all-types", "C13", TIMED, "            if note.note_type == NoteType.TAP:\n", "            if note.note_type in (NoteType.TAP, NoteType.LIFT):\n", "TAP")
B("c13-fake-type-mine", "C13", TIMED, "                        note_type=NoteType.FAKE,", "                        note_type=NoteType.MINE,", "note_type")
B("c13-hittable-tag-stop", "C13", ENGINE, "        tagged_beat = (beat, EventTag.STOP_END)\n        prior_state_index = max(0, bisect(self._tagged_beats, tagged_beat) - 1)\n        prior_state: TimingState = self._state_machine[prior_state_index]\n\n        if not prior_state.warp:", "        tagged_beat = (beat, EventTag.STOP)\n        prior_state_index = max(0, bisect(self._tagged_beats, tagged_beat) - 1)\n        prior_state: TimingState = self._state_machine[prior_state_index]\n\n        if not prior_state.warp:", "whole beat")
B("c13-exception-stop-only", "C13", ENGINE, "            prior_state.event.tag in (EventTag.STOP_END, EventTag.DELAY_END)\n            and beat == prior_state.event.beat", "            prior_state.event.tag in (EventTag.STOP_END,)\n            and beat == prior_state.event.beat", "exception")
B("c13-exception-any-beat", "C13", ENGINE, "            prior_state.event.tag in (EventTag.STOP_END, EventTag.DELAY_END)\n            and beat == prior_state.event.beat\n        ):", "            prior_state.event.tag in (EventTag.STOP_END, EventTag.DELAY_END)\n        ):", "same beat")
B("c13-keep-note-drops", "C13", TIMED, "        if engine.hittable(note.beat) or unhittable_notes == UnhittableNotes.KEEP_NOTE:", "        if engine.hittable(note.beat):", None)
B("c13-time-with-tag", "C13", TIMED, "            yield TimedNote(time=engine.time_at(note.beat), note=note)", "            yield TimedNote(time=engine.time_at(note.beat, EventTag.STOP_END), note=note)", "time", more=[(TIMED, "from ..timing.engine import SongTime, TimingEngine", "from ..timing.engine import EventTag, SongTime, TimingEngine")])

# --------------------------------------------------------------------------- C14 / C15
B("c14-rsub-calls-sub", "C14", TIMING, "        return Beat(super().__rsub__(other))", "        return Beat(super().__sub__(other))", "__rsub__")
B("c14-mod-removed", "C14", TIMING, "    def __mod__(self, other):\n        return Beat(super().__mod__(other))\n\n", "", "__mod__")
B("c14-truediv-unwrapped", "C14", TIMING, "        return Beat(super().__truediv__(other))", "        return super().__truediv__(other)", "__truediv__")
B("c14-divmod-quotient-wrapped", "C14", TIMING, "        quotient, remainder = super().__divmod__(other)\n        return (quotient, Beat(remainder))", "        quotient, remainder = super().__divmod__(other)\n        return (quotient, remainder)", "__divmod__")
B("c14-always-round", "C14", TIMING, "        if denominator or isinstance(numerator, Rational):\n            return self", "        if denominator:\n            return self", "kept exactly")
B("c14-subdivision", "C14", TIMING, "MEASURE_SUBDIVISION = 192", "MEASURE_SUBDIVISION = 96", "BEAT_SUBDIVISION")
B("c14-str-1-decimal", "C14", TIMING, 'return f"{float(self):.3f}"', 'return f"{float(self):.1f}"', "injective")
B("c14-round-floor", "C14", TIMING, "return Beat(int(round(self * BEAT_SUBDIVISION)), BEAT_SUBDIVISION)", "return Beat(int(self * BEAT_SUBDIVISION), BEAT_SUBDIVISION)", "round_to_tick")
B("c14-value-float", "C14", TIMING, "instance.append(BeatValue(Beat.from_str(beat), Decimal(value)))", "instance.append(BeatValue(Beat.from_str(beat), Decimal(float(value))))", "Decimal")
B("c14-join-semicolon", "C14", TIMING, 'return ",\\n".join(f"{event.beat}={event.value}" for event in self)', 'return ";\\n".join(f"{event.beat}={event.value}" for event in self)', "rows are written")
B("c14-stops-from-delays", ["C14", "C15"], TIMING, "        self.stops = BeatValues.from_str(simfile_or_chart.stops)", "        self.stops = BeatValues.from_str(simfile_or_chart.delays)", "reach the engine")
B("c14-from-str-no-round", "C14", TIMING, "        return Beat(beat_str).round_to_tick()", "        return Beat(Fraction(beat_str))", "from_str")
B("c15-threshold", "C15", TSRC, "SSC_VERSION_SPLIT_TIMING = 0.7", "SSC_VERSION_SPLIT_TIMING = 0.8", "0.7")
B("c15-gt", "C15", TSRC, "and float(simfile.version or \"0\") >= SSC_VERSION_SPLIT_TIMING", "and float(simfile.version or \"0\") > SSC_VERSION_SPLIT_TIMING", "version test")
B("c15-missing-scrolls", "C15", TSRC, "    SSCChart.scrolls,\n", "", "eleven")
B("c15-all-instead-of-any", "C15", TSRC, "and any(timing_prop.__get__(chart) for timing_prop in CHART_TIMING_PROPERTIES)", "and all(timing_prop.__get__(chart) for timing_prop in CHART_TIMING_PROPERTIES)", "chart is the source")
B("c15-offset-from-simfile", "C15", TIMING, "        self.offset = Decimal(simfile_or_chart.offset or 0)", "        self.offset = Decimal(simfile.offset or 0)", "not read again")
B("c15-displaybpm-from-simfile", "C15", DBPM, '        displaybpm_value = properties["DISPLAYBPM"]', '        displaybpm_value = simfile["DISPLAYBPM"]', "not read again")
B("c15-range-swapped", "C15", DBPM, "return RangeDisplayBPM(min=Decimal(min_bpm), max=Decimal(max_bpm))", "return RangeDisplayBPM(min=Decimal(max_bpm), max=Decimal(min_bpm))", "range")
B("c15-catch-all", "C15", DBPM, "        except InvalidOperation:", "        except (InvalidOperation, KeyError):", "InvalidOperation")
B("c15-ignore-specified-inverted", "C15", DBPM, 'if "DISPLAYBPM" in properties and not ignore_specified:', 'if "DISPLAYBPM" in properties and ignore_specified:', None)
B("c15-min-max", "C15", DBPM, "return RangeDisplayBPM(min=min(bpms), max=max(bpms))", "return RangeDisplayBPM(min=bpms[0], max=bpms[-1])", "BPMS")

# --------------------------------------------------------------------------- C16 / C17
B("c16-bgchanges-alias-renamed", ["C16", "C18"], BASE, 'bgchanges = item_property("BGCHANGES", alias="ANIMATIONS")', 'bgchanges = item_property("BGCHANGES", alias="ANIMATION")', "alias")
B("c16-ssc-overrides-bgchanges", ["C16", "C18"], SSC, '    version = item_property("VERSION")\n', '    version = item_property("VERSION")\n    bgchanges = item_property("BGCHANGES")\n', "alias")
B("c16-no-deepcopy", ["C16", "C17"], CONV, "    output_simfile = deepcopy(simfile_template) or output_simfile_type.blank()", "    output_simfile = simfile_template or output_simfile_type.blank()", "deep copy")
B("c16-chart-template-shared", ["C16", "C17"], CONV, "    for _chart in simfile.charts:\n        chart: Chart = _chart  # typing workaround\n        output_chart = deepcopy(chart_template) or output_chart_type.blank()", "    output_chart = deepcopy(chart_template) or output_chart_type.blank()\n    for _chart in simfile.charts:\n        chart: Chart = _chart  # typing workaround", "every source chart")
B("c16-warps-after-copy", ["C16", "C17"], CONV, "    _convert_warps(source=simfile, output=output_simfile)\n\n    _copy_properties(\n        source=simfile,\n        output=output_simfile,\n        output_type=output_simfile_type,\n        invalid_property_behaviors=invalid_property_behaviors,\n    )\n", "    _copy_properties(\n        source=simfile,\n        output=output_simfile,\n        output_type=output_simfile_type,\n        invalid_property_behaviors=invalid_property_behaviors,\n    )\n    _convert_warps(source=simfile, output=output_simfile)\n", "before any property")
B("c16-stops-not-checked", "C16", CONV, "        for beat_values in (bpms, stops):", "        for beat_values in (bpms,):", "negative")
B("c16-skip-last-chart", ["C16", "C17"], CONV, "    for _chart in simfile.charts:", "    for _chart in simfile.charts[:-1]:", None)
B("c16-source-mutated", ["C16", "C17"], CONV, "            output[property] = value\n", "            output[property] = value\n            source.move_to_end(property)\n", "mutate")
B("c16-ssc-invalid-nonempty", "C16", CONV, "    SSCSimfile: {},", '    SSCSimfile: {PropertyType.METADATA: ["GENRE"]},', "empty")
B("c16-template-dropped", ["C16", "C17"], CONV, "        simfile_template=simfile_template,\n        chart_template=chart_template,\n        invalid_property_behaviors={},", "        simfile_template=simfile_template,\n        invalid_property_behaviors={},", "chart_template")
B("c16-chart-output-type", ["C16", "C17"], CONV, "            output=output_chart,\n            output_type=output_chart_type,", "            output=output_chart,\n            output_type=output_simfile_type,", "output type")
B("c17-credit-unlisted", "C17", CONV, '            "CHARTSTYLE",\n            "CREDIT",\n', '            "CHARTSTYLE",\n', "key=CREDIT")
B("c17-default-value-changed", "C17", CONV, '        "COMBOS": "0.000=1",', '        "COMBOS": "0.000=0",', "default of")
B("c17-default-behavior", "C17", CONV, "    PropertyType.FILE_PATH: InvalidPropertyBehavior.IGNORE,", "    PropertyType.FILE_PATH: InvalidPropertyBehavior.ERROR_UNLESS_DEFAULT,", "documented defaults")
B("c17-ignore-copies", "C17", CONV, "            if behavior == InvalidPropertyBehavior.IGNORE:\n                return False", "            if behavior == InvalidPropertyBehavior.IGNORE:\n                return True", "IGNORE")
B("c17-no-strip", "C17", CONV, "                if value.strip() == DEFAULT_PROPERTIES[property]:", "                if value == DEFAULT_PROPERTIES[property]:", "trimmed")
B("c17-valueerror", "C17", CONV, "            raise InvalidPropertyException(\n                f\"cannot convert", "            raise ValueError(\n                f\"cannot convert", "raise")
B("c17-fallback-dropped", "C17", CONV, "            behavior = (\n                invalid_property_behaviors.get(invalid_property)\n                or INVALID_PROPERTY_BEHAVIORS[invalid_property]\n            )", "            behavior = invalid_property_behaviors.get(invalid_property)", "default mapping")
B("c17-preview-unlisted", "C17", CONV, '            "DISCIMAGE",\n            "PREVIEW",\n', '            "DISCIMAGE",\n', "PREVIEW")
B("c17-policy-not-forwarded", "C17", CONV, "        chart_template=chart_template,\n        invalid_property_behaviors=invalid_property_behaviors,\n    )\n", "        chart_template=chart_template,\n    )\n", "invalid_property_behaviors")

# --------------------------------------------------------------------------- C18
B("c18-setter-always-name", "C18", PROP, "        self[_name_or_alias(self)] = value", "        self[name] = value", "assigning")
B("c18-deleter-alias-only", "C18", PROP, "        del self[_name_or_alias(self)]", "        del self[alias or name]", "deleting")
B("c18-alias-when-both", "C18", PROP, "        if name not in self and alias and alias in self:", "        if alias and alias in self:", "alias is chosen")
B("c18-getter-indexing", "C18", PROP, "        return self.get(_name_or_alias(self))", "        return self[_name_or_alias(self)]", "reading")
B("c18-attr-key-mismatch", "C18", BASE, '    subtitletranslit = item_property("SUBTITLETRANSLIT")', '    subtitletranslit = item_property("SUBTITLETRANSLATION")', "subtitletranslit")
B("c18-pop-allowed", "C18", SM, "    def pop(self, property, default=None):\n        \"\"\"Raises NotImplementedError.\"\"\"\n        raise NotImplementedError\n\n", "", "pop")
B("c18-setitem-any-key", "C18", SM, "        if property.upper() not in SM_CHART_PROPERTIES:\n            raise KeyError\n        else:\n            return super().__setitem__(property, value)", "        return super().__setitem__(property, value)", "for the six keys")
B("c18-eq-ignores-charts", "C18", BASE, "            and OrderedDict.__eq__(self, other)\n            and self.charts == other.charts", "            and OrderedDict.__eq__(self, other)", "equality")
B("c18-eq-unordered", "C18", BASE, "            and OrderedDict.__eq__(self, other)", "            and dict.__eq__(self, other)", "equality")
B("c18-smchart-eq-misses-meter", "C18", SM, "            and self.meter == other.meter\n", "", "six fields")
B("c18-freezes-alias-dropped", ["C18", "C16"], SM, '    stops = item_property("STOPS", alias="FREEZES")', '    stops = item_property("STOPS")', "alias table")

# --------------------------------------------------------------------------- C19
B("c19-openpack-kwargs", ["C19", "C03"], INIT, "            simfile_dir.open(**kwargs),", "            simfile_dir.open(),", "kwargs")
B("c19-opendir-kwargs", "C19", INIT, "    return (sd.open(**kwargs), cast(str, sd.ssc_path or sd.sm_path))", "    return (sd.open(), cast(str, sd.ssc_path or sd.sm_path))", "kwargs")
B("c19-pack-filesystem-dropped", "C19", INIT, "    sp = SimfilePack(pack_dir, filesystem=filesystem)", "    sp = SimfilePack(pack_dir)", "filesystem")
B("c19-dir-open-filesystem", "C19", DIR, "        return simfile.open(self.simfile_path, filesystem=self.filesystem, **kwargs)", "        return simfile.open(self.simfile_path, **kwargs)", "filesystem")
B("c19-ignore-duplicate-dropped", "C19", DIR, "            yield SimfileDirectory(simfile_path, filesystem=self.filesystem, ignore_duplicate=self._ignore_duplicate)", "            yield SimfileDirectory(simfile_path, filesystem=self.filesystem)", "ignore_duplicate")
B("c19-sm-preferred-opendir", "C19", INIT, "    return (sd.open(**kwargs), cast(str, sd.ssc_path or sd.sm_path))", "    return (sd.open(**kwargs), cast(str, sd.sm_path or sd.ssc_path))", "preferred")
B("c19-sm-preferred-property", "C19", DIR, "        return self.ssc_path or self.sm_path", "        return self.sm_path or self.ssc_path", "preferred")
B("c19-match-case-sensitive", ["C19", "C20"], EXT, "    lower_path = path.lower()\n", "    lower_path = path\n", "lower-cased")
B("c19-dup-ssc-only-raises", "C19", DIR, "                    if self.ssc_path:\n                        if self._ignore_duplicate:\n                            continue\n                        raise DuplicateSimfileError(", "                    if self.ssc_path:\n                        if not self._ignore_duplicate:\n                            continue\n                        raise DuplicateSimfileError(", "duplicate")
B("c19-dup-last-wins", "C19", DIR, "                    if self.sm_path:\n                        if self._ignore_duplicate:\n                            continue\n", "                    if self.sm_path:\n                        if self._ignore_duplicate:\n                            pass\n", None)
B("c19-isdir-dropped", "C19", DIR, "            if not self.filesystem.isdir(simfile_path):\n                continue\n", "", "only directories are listed")
B("c19-no-break", "C19", DIR, "                    yield simfile_path\n                    break", "                    yield simfile_path", "once")
B("c19-filenotfound-dropped", "C19", DIR, "        if not self.simfile_path:\n            raise FileNotFoundError(\"no simfile in directory\")\n\n", "", "FileNotFoundError")
B("c19-pack-recursive", "C19", DIR, "            if not self.filesystem.isdir(simfile_path):\n                continue\n", "            if not self.filesystem.isdir(simfile_path):\n                continue\n            for nested in SimfilePack(simfile_path, filesystem=self.filesystem)._find_simfile_paths():\n                yield nested\n", None)
B("c19-simfile-ext-sma", "C19", EXT, 'SIMFILE = (".ssc", ".sm")', 'SIMFILE = (".ssc", ".sm", ".sma")', "SIMFILE")
B("c19-flag-stored-late", "C19", DIR, "        self._ignore_duplicate = ignore_duplicate\n\n        for simfile_item in self._dirlist:", "        self._ignore_duplicate = False\n\n        for simfile_item in self._dirlist:", "ignore_duplicate")

# --------------------------------------------------------------------------- C20
B("c20-unlisted-path", "C20", ASSETS, "            case_insensitive_path = self._get_case_insensitive_path(full_path)\n            if case_insensitive_path:", "            case_insensitive_path = full_path\n            if case_insensitive_path:", "listing lookup")
B("c20-one-side-lower", "C20", ASSETS, "                if item.lower() == filename_lower:", "                if item == filename_lower:", "lower-cased")
B("c20-no-cache-on-none", "C20", ASSETS, "        return self._cache_path(prop, None)", "        return None", "kinds of answer")
B("c20-preset-bn-unanchored", "C20", ASSETS, '        presets=["banner", "bn$"],', '        presets=["banner", "bn"],', "BANNER")
B("c20-preset-jacket-anchor", "C20", ASSETS, '        presets=["^jk_", "jacket", "albumart"],', '        presets=["jk_", "jacket", "albumart"],', "JACKET")
B("c20-music-by-preset", "C20", ASSETS, "        extensions=extensions.AUDIO,\n        match_by_extension=True,", "        extensions=extensions.AUDIO,\n        presets=[\"music\"],", "MUSIC")
B("c20-stem-not-lowered", "C20", ASSETS, "        if any(re.search(preset, root.lower()) for preset in self.presets):", "        if any(re.search(preset, root) for preset in self.presets):", "lower-cased")
B("c20-image-order", "C20", EXT, 'IMAGE = (".png", ".jpg", ".jpeg", ".gif", ".bmp")', 'IMAGE = (".jpg", ".png", ".jpeg", ".gif", ".bmp")', "IMAGE")
B("c20-banner-no-exists", "C20", DIR, "            if self.filesystem.exists(parent_banner):\n                return parent_banner", "            return parent_banner", "exists")
B("c20-banner-stage-order", "C20", DIR, "        for image_type in extensions.IMAGE:\n            for pack_item in self.filesystem.listdir(self.pack_dir):\n                if extensions.match(pack_item, image_type):\n                    return self._path.join(self.pack_dir, pack_item)\n", "        for pack_item in self.filesystem.listdir(self.pack_dir):\n            for image_type in extensions.IMAGE:\n                if extensions.match(pack_item, image_type):\n                    return self._path.join(self.pack_dir, pack_item)\n", "priority")
B("c20-wrong-property-key", "C20", ASSETS, '        return self._asset_property("CDTITLE")', '        return self._asset_property("CDIMAGE")', "cdtitle")
B("c20-specified-after-pattern", "C20", ASSETS, "        specified_path = self.simfile.get(prop)\n        if specified_path:\n            full_path = self._path.join(self.simfile_dir, specified_path)\n            case_insensitive_path = self._get_case_insensitive_path(full_path)\n            if case_insensitive_path:\n                return self._cache_path(prop, case_insensitive_path, absolute=True)\n\n        asset_definition = ASSET_DEFINITIONS[prop]\n        for file_in_simfile_dir in self._dirlist:\n            if asset_definition.matches(file_in_simfile_dir):\n                return self._cache_path(prop, file_in_simfile_dir)\n", "        asset_definition = ASSET_DEFINITIONS[prop]\n        for file_in_simfile_dir in self._dirlist:\n            if asset_definition.matches(file_in_simfile_dir):\n                return self._cache_path(prop, file_in_simfile_dir)\n\n        specified_path = self.simfile.get(prop)\n        if specified_path:\n            full_path = self._path.join(self.simfile_dir, specified_path)\n            case_insensitive_path = self._get_case_insensitive_path(full_path)\n            if case_insensitive_path:\n                return self._cache_path(prop, case_insensitive_path, absolute=True)\n", "kinds of answer")
B("c20-isdir-guard-dropped", "C20", ASSETS, "        if self.filesystem.isdir(containing_dir):\n            for item in self.filesystem.listdir(containing_dir):\n                if item.lower() == filename_lower:\n                    return self._path.join(containing_dir, item)", "        for item in self.filesystem.listdir(containing_dir):\n            if item.lower() == filename_lower:\n                return self._path.join(containing_dir, item)", "directory")
B("c20-cache-not-stored", "C20", ASSETS, "            if absolute:\n                self._cache[key] = self._path.normpath(value)\n", "            if absolute:\n                return self._path.normpath(value)\n", "stored in the cache")

# --------------------------------------------------------------------------- behaviour-preserving variants (must stay silent)
P("p-rename-locals-serialize", ["C01", "C02", "C04"], [(BASE, "        for (key, value) in self.items():\n            if value is None:\n                param = MSDParameter((key,))\n            elif key in BaseSimfile.MULTI_VALUE_PROPERTIES:\n                param = MSDParameter((key, *value.split(\":\")))\n            else:\n                param = MSDParameter((key, value))\n            file.write(f\"{param}\\n\")",
   "        for (k, v) in self.items():\n            if v is None:\n                p = MSDParameter((k,))\n            elif k in BaseSimfile.MULTI_VALUE_PROPERTIES:\n                p = MSDParameter((k, *v.split(\":\")))\n            else:\n                p = MSDParameter((k, v))\n            file.write(f\"{p}\\n\")")])
P("p-none-test-reordered", ["C01", "C04"], [(BASE, "            if value is None:\n                param = MSDParameter((key,))\n            elif key in BaseSimfile.MULTI_VALUE_PROPERTIES:\n                param = MSDParameter((key, *value.split(\":\")))\n            else:\n                param = MSDParameter((key, value))",
   "            if value is not None and key in BaseSimfile.MULTI_VALUE_PROPERTIES:\n                param = MSDParameter((key, *value.split(\":\")))\n            elif value is not None:\n                param = MSDParameter((key, value))\n            else:\n                param = MSDParameter((key,))")])
P("p-not-in-table", ["C01", "C03", "C04"], [(SM, "            elif key in BaseSimfile.MULTI_VALUE_PROPERTIES and param.value is not None:\n                self[key] = \":\".join(param.components[1:])\n            else:\n                self[key] = param.value", "            elif key not in BaseSimfile.MULTI_VALUE_PROPERTIES or param.value is None:\n                self[key] = param.value\n            else:\n                self[key] = \":\".join(param.components[1:])")])
P("p-smchart-param-local", ["C01", "C04", "C18"], [(SM, "        file.write(str(param))", "        text = str(param)\n        file.write(text)")])
P("p-key-inline-upper", ["C03", "C04"], [(SSC, "            key = param.key.upper()\n            if key in BaseSimfile.MULTI_VALUE_PROPERTIES and param.value is not None:\n                self[key] = \":\".join(param.components[1:])\n            else:\n                self[key] = param.value\n            if key in (\"NOTES\", \"NOTES2\"):", "            upper_key = param.key.upper()\n            if upper_key in BaseSimfile.MULTI_VALUE_PROPERTIES and param.value is not None:\n                self[upper_key] = \":\".join(param.components[1:])\n            else:\n                self[upper_key] = param.value\n            if upper_key in (\"NOTES\", \"NOTES2\"):")])
P("p-isinstance-tuple", ["C03"], [(INIT, "    if isinstance(file, TextIOWrapper) or isinstance(file, TextIO):\n        if type(file.name) is str:", "    if isinstance(file, (TextIOWrapper, TextIO)):\n        if type(file.name) is str:"), (INIT, "    if isinstance(file, TextIOWrapper) or isinstance(file, TextIO):\n        file.seek(0)", "    if isinstance(file, (TextIOWrapper, TextIO)):\n        file.seek(0)")])
P("p-load-positional-strict", ["C03", "C05"], [(INIT, "                return (load(file, strict=strict), encoding)", "                return (load(file, strict), encoding)")])
P("p-mutate-renames", ["C05", "C06"], [(INIT, "        output_data = str(simfile)\n        output_data.encode(encoding, kwargs.get(\"errors\") or \"strict\")", "        text = str(simfile)\n        text.encode(encoding, kwargs.get(\"errors\") or \"strict\")"), (INIT, "            writer.write(output_data)", "            writer.write(text)")])
P("p-mutate-early-return-style", ["C05", "C06"], [(INIT, "    if backup_filename:\n        if backup_filename in (input_filename, output_filename):\n            raise ValueError(", "    if backup_filename and backup_filename in (input_filename, output_filename):\n        if True:\n            raise ValueError(")])
P("p-note-cmp-via-tuple-local", ["C07", "C10"], [(NOTES, "    def __le__(self, other) -> bool:\n        return bool(self._comparable() <= other._comparable())", "    def __le__(self, other) -> bool:\n        \"\"\"Position order.\"\"\"\n        return self._comparable() <= other._comparable()")])
P("p-beat-formula-refactored", ["C07"], [(NOTES, "beat=Beat(m * 4 * subdivision + l * 4, subdivision),", "beat=Beat(4 * (m * subdivision + l), subdivision),")])
P("p-beat-formula-names", ["C07"], [(NOTES, "        lines = measure.splitlines()\n        subdivision = len(lines)\n\n        for l, line in enumerate(lines):", "        rows = measure.splitlines()\n        subdivision = len(rows)\n\n        for l, line in enumerate(rows):")])
P("p-from-notes-comment-shuffle", ["C08"], [(NOTES, "            for _ in range(last_row + 1, q * 4):", "            for _ in range(1 + last_row, 4 * q):")])
P("p-count-positional", ["C09"], [(COUNT, "    return _count_holds_or_rolls(\n        notes,\n        NoteType.ROLL_HEAD,\n        orphaned_head=orphaned_head,\n        orphaned_tail=orphaned_tail,\n    )", "    return _count_holds_or_rolls(\n        notes,\n        NoteType.ROLL_HEAD,\n        orphaned_tail=orphaned_tail,\n        orphaned_head=orphaned_head,\n    )"), (COUNT, "    return _count_holds_or_rolls(\n        notes,\n        NoteType.HOLD_HEAD,\n        orphaned_head=orphaned_head,\n        orphaned_tail=orphaned_tail,\n    )", "    return _count_holds_or_rolls(\n        notes,\n        NoteType.HOLD_HEAD,\n        orphaned_tail=orphaned_tail,\n        orphaned_head=orphaned_head,\n    )")])
P("p-fake-via-replace", ["C13"], [(TIMED, "                    note=Note(\n                        beat=note.beat,\n                        column=note.column,\n                        note_type=NoteType.FAKE,\n                        player=note.player,\n                        keysound_index=note.keysound_index,\n                    ),", "                    note=note._replace(note_type=NoteType.FAKE),")])
P("p-tail-positional", ["C10"], [(GROUP, "                    Note(\n                        beat=note.tail_beat,\n                        column=note.column,\n                        note_type=NoteType.TAIL,\n                        player=note.player,\n                    ),", "                    Note(note.tail_beat, note.column, NoteType.TAIL, note.player),")])
P("p-engine-rename-local", ["C11", "C12", "C13"], [(ENGINE, "            beats_until = beat - self.event.beat\n            time_until = float(beats_until) * 60 / float(self.bpm)", "            delta = beat - self.event.beat\n            time_until = 60 * float(delta) / float(self.bpm)")])
P("p-taggedevent-tuple-lt", ["C11", "C12", "C13"], [(ENGINE, "        if self.beat < other.beat:\n            return True\n        if self.beat == other.beat:\n            if self.tag < other.tag:\n                return True\n        return False", "        return (self.beat, self.tag) < (other.beat, other.tag)")])
P("p-preset-Z-anchor", ["C20"], [(ASSETS, '        presets=["-cd$"],', '        presets=[r"-cd\\Z"],')])
P("p-dir-rename-local", ["C19"], [(DIR, "        for simfile_item in self._dirlist:\n            match = extensions.match(simfile_item, *extensions.SIMFILE)\n            if match:\n                simfile_path = self._path.join(simfile_dir, simfile_item)", "        for simfile_item in self._dirlist:\n            match = extensions.match(simfile_item, *extensions.SIMFILE)\n            if match:\n                simfile_path = self._path.join(simfile_dir, simfile_item)\n                del_me = None")])
P("p-convert-rename", ["C16", "C17"], [(CONV, "    for property, value in source.items():\n        if _should_copy_property(\n            property,\n            value,\n            invalid_properties,\n            invalid_property_behaviors,\n        ):\n            output[property] = value", "    for key, val in source.items():\n        if _should_copy_property(\n            key,\n            val,\n            invalid_properties,\n            invalid_property_behaviors,\n        ):\n            output[key] = val")])
P("p-docstrings", ALL, [(INIT, '    """\n    Load a string containing simfile data as a simfile.\n    """', '    """\n    Load a string containing simfile data as a simfile (reworded).\n    """'), (ENGINE, "        # Update song time\n", "        # Update the song time first\n")])

# whole-package AST-computed transforms (behaviour-preserving by construction; confirmed with --with-tests)
VARIANTS.append({"id": "g-rename-all-locals", "props": ALL, "kind": "preserve", "edits": [], "transform": "rename_locals"})
VARIANTS.append({"id": "g-reformat-all-modules", "props": ALL, "kind": "preserve", "edits": [], "transform": "reformat"})

# correct refactorings of code the seeded changes touched (must stay silent)
P("p-open-early-return-correct", ["C03", "C05", "C19"], [(INIT, '''    try_encodings = ENCODINGS
    if "encoding" in kwargs:
        try_encodings = [kwargs.pop("encoding")]

    return open_with_detected_encoding(
        filename,
        try_encodings=try_encodings,
        strict=strict,
        filesystem=filesystem,
        **kwargs
    )[0]''', '''    if "encoding" in kwargs:
        return open_with_detected_encoding(
            filename,
            try_encodings=[kwargs.pop("encoding")],
            strict=strict,
            filesystem=filesystem,
            **kwargs
        )[0]

    return open_with_detected_encoding(
        filename, strict=strict, filesystem=filesystem, **kwargs
    )[0]''')])
P("p-coalesce-cache-correct", ["C11", "C13"], [(ENGINE, '''            if warp_starts:
                last_warp_end: Beat = warp_ends[-1].beat
                if warp.beat <= last_warp_end:
                    if warp_end > last_warp_end:
                        warp_ends[-1] = BeatValue(
                            beat=warp_end,
                            value=Decimal(0),
                        )
                else:
                    warp_starts.append(BeatValue(beat=warp.beat, value=zero))
                    warp_ends.append(BeatValue(beat=warp_end, value=zero))
            else:
                warp_starts.append(BeatValue(beat=warp.beat, value=zero))
                warp_ends.append(BeatValue(beat=warp_end, value=zero))''', '''            if last_warp_end is not None and warp.beat <= last_warp_end:
                if warp_end > last_warp_end:
                    warp_ends[-1] = BeatValue(beat=warp_end, value=zero)
                    last_warp_end = warp_end
            else:
                warp_starts.append(BeatValue(beat=warp.beat, value=zero))
                warp_ends.append(BeatValue(beat=warp_end, value=zero))
                last_warp_end = warp_end'''), (ENGINE, "        warp_ends = BeatValues()\n        for warp_ in", "        warp_ends = BeatValues()\n        last_warp_end = None\n        for warp_ in")])
P("p-keysound-list-comprehension", ["C07", "C08"], [(NOTES, "            keysound_indices: List[Optional[int]] = [None] * self._columns\n", "            keysound_indices: List[Optional[int]] = [None] * max(self._columns, 1)\n")])

# variants for the clauses added after the first seeded batch
B("c01-str-stripped", ["C01", "C04", "C05"], "simfile/_private/serializable.py", "        return serialized.getvalue()", "        return serialized.getvalue().strip()", "str(x)")
B("c03-peek-first-line-only", "C03", INIT, '            string="".join(peek_file),', '            string=peek_file.readline(),', "complete text")
B("c03-copy-partial", "C03", INIT, 'file, peek_file = [StringIO("".join(f)) for f in tee(file)]', 'file, peek_file = [StringIO("".join(f).lstrip()) for f in tee(file)]', "complete text")
B("c07-columns-constant", "C07", NOTES, "        self._columns = NoteData._get_columns(self._notedata)", "        self._columns = 4 if not self._notedata else NoteData._get_columns(self._notedata)", "column count")
B("c09-close-needs-both", "C09", GROUP, "            if note.column in held_columns or note.note_type == NoteType.TAIL:", "            if note.column in held_columns and note.note_type == NoteType.TAIL:", "closed or interrupted")
B("c09-only-hold-heads-held", "C09", GROUP, "            if note.note_type in (NoteType.HOLD_HEAD, NoteType.ROLL_HEAD):\n                held_columns[note.column] = note", "            if note.note_type in (NoteType.HOLD_HEAD,):\n                held_columns[note.column] = note", "open a column")
B("c09-buffer-inverted", "C09", GROUP, "        if held_columns:\n            buffer.append(note)", "        if not held_columns:\n            buffer.append(note)", "buffered")
B("c09-mine-does-not-interrupt", "C09", GROUP, "        if not maybe_tail or maybe_tail.note_type != NoteType.TAIL:", "        if not maybe_tail or maybe_tail.note_type not in (NoteType.TAIL, NoteType.MINE):", None)
B("c09-join-extra-condition", "C09", GROUP, "    if join_heads_to_tails:\n        notes_maybe_with_tails = join_heads_to_tails_(notes)", "    if join_heads_to_tails and NoteType.TAIL in include_note_types:\n        notes_maybe_with_tails = join_heads_to_tails_(notes)", "exactly when join_heads_to_tails")
B("c07-keysound-list-hoisted", ["C07", "C08"], NOTES, "        for l, line in enumerate(lines):\n            line = line.strip()\n            keysound_indices: List[Optional[int]] = [None] * self._columns\n", "        keysound_indices: List[Optional[int]] = [None] * self._columns\n        for l, line in enumerate(lines):\n            line = line.strip()\n", "afresh")
B("c11-coalesce-stale-cache", ["C11", "C13"], ENGINE, "                last_warp_end: Beat = warp_ends[-1].beat\n", "                last_warp_end: Beat = warp_ends[0].beat\n", "boundary")

B("c03-keyonly-multi-joined", ["C01", "C03", "C04"], SM, "            elif key in BaseSimfile.MULTI_VALUE_PROPERTIES and param.value is not None:", "            elif key in BaseSimfile.MULTI_VALUE_PROPERTIES:", "each parameter")
P("p-keyonly-by-length", ["C01", "C03", "C04"], [(SM, "            elif key in BaseSimfile.MULTI_VALUE_PROPERTIES and param.value is not None:", "            elif key in BaseSimfile.MULTI_VALUE_PROPERTIES and len(param.components) > 1:")])
# a process-wide cache: accepted when its key covers everything the cached computation reads, reported otherwise
_CACHE_NEW = """        self.timing_data = timing_data
        td = timing_data
        key = (tuple(td.bpms), tuple(td.stops), tuple(td.delays), tuple(td.warps)%s)
        if key not in _timelines:
            self._retime_events()
            _timelines[key] = (self._state_machine, self._tagged_beats, self._tagged_times)
        self._state_machine, self._tagged_beats, self._tagged_times = _timelines[key]
"""
_CACHE_DECL = (ENGINE, "class TimingEngine:\n", "_timelines: dict = {}\n\n\nclass TimingEngine:\n")
P("p-timeline-cache-complete-key", ["C11", "C12", "C13"], [(ENGINE, "        self.timing_data = timing_data\n        self._retime_events()\n", _CACHE_NEW % ", td.offset"), _CACHE_DECL])
B("c11-timeline-cache-forgets-offset", ["C11", "C12", "C13"], ENGINE, "        self.timing_data = timing_data\n        self._retime_events()\n", _CACHE_NEW % "", "module-level state", more=[_CACHE_DECL])
VARIANTS.append({"id": "g-negate-every-if-else", "props": ALL, "kind": "preserve", "edits": [], "transform": "negate_if"})
VARIANTS.append({"id": "g-return-through-temp", "props": ALL, "kind": "preserve", "edits": [], "transform": "return_temp"})
