"""
Checker self-test: variants of the current /repo sources are written to a
scratch copy (mkdtemp, outside /repo and /verif), analysed and deleted.

  breaking variant   -> the property's check must exit 1 and (optionally) name the construct
  preserving variant -> every listed property's check must stay silent (exit 0)

The self-test is a development / evidence tool; it never changes a property verdict.
"""
from __future__ import annotations

import ast
import json
import os
import shutil
import subprocess
import sys
import tempfile
import time
from concurrent.futures import ProcessPoolExecutor
from typing import Any, Dict, List, Optional, Tuple

REPO = os.environ.get("SFA_REPO", "/repo")
HERE = os.path.dirname(os.path.abspath(__file__))
RESULT_FILE = os.path.join(HERE, "last_result.json")
FLAKY = "simfile/tests/test_assets.py::TestAssets::test_predefined_assets"


def _apply(root: str, edits: List[Tuple[str, str, str]]) -> Optional[str]:
    """Apply (file, old, new) edits; return an error text when an edit does not apply exactly once."""
    for rel, old, new in edits:
        path = os.path.join(root, rel)
        with open(path, encoding="utf-8") as f:
            s = f.read()
        if s.count(old) != 1:
            return f"stale variant: {rel}: pattern occurs {s.count(old)} times: {old[:60]!r}"
        s = s.replace(old, new)
        try:
            ast.parse(s)
        except SyntaxError as e:
            return f"variant does not compile: {rel}: {e}"
        with open(path, "w", encoding="utf-8") as f:
            f.write(s)
    return None


def run_variant(v: Dict[str, Any], with_tests: bool = False) -> Dict[str, Any]:
    from ..__main__ import run_check
    t0 = time.time()
    tmp = tempfile.mkdtemp(prefix="sfa-selftest-")
    out: Dict[str, Any] = {"id": v["id"], "kind": v["kind"], "props": v["props"]}
    try:
        if with_tests:
            for name in ("simfile", "testdata"):
                shutil.copytree(os.path.join(REPO, name), os.path.join(tmp, name), ignore=shutil.ignore_patterns("__pycache__"))
        else:
            shutil.copytree(os.path.join(REPO, "simfile"), os.path.join(tmp, "simfile"), ignore=shutil.ignore_patterns("__pycache__"))
        err = _apply(tmp, v["edits"])
        if not err and v.get("transform"):
            from .transforms import apply_transform
            apply_transform(tmp, v["transform"])
        if err:
            out["status"] = "stale"
            out["detail"] = err
            return out
        results = {}
        for prop in v["props"]:
            code, ctx, violations, known, error = run_check(prop, "quick", repo=tmp, quiet=True, write=False)
            results[prop] = {"exit": code, "violations": [f"{i.rule} {i.func} [{i.construct}]" for i in violations][:6], "error": error}
        out["results"] = results
        if v["kind"] == "break":
            hit = [p for p, r in results.items() if r["exit"] == 1]
            named = True
            if v.get("expect"):
                named = any(v["expect"] in s for p in hit for s in results[p]["violations"])
            out["status"] = "ok" if hit and named else ("detected-unnamed" if hit else ("analysis-error" if any(r["exit"] == 2 for r in results.values()) else "MISSED"))
        else:
            bad = [p for p, r in results.items() if r["exit"] != 0]
            out["status"] = "ok" if not bad else "FALSE-ALARM"
        if with_tests:
            r = subprocess.run([sys.executable, "-m", "pytest", "-q", "-x", "-p", "no:cacheprovider", "--deselect", FLAKY], cwd=tmp, capture_output=True, text=True, timeout=600)
            out["tests_pass"] = r.returncode == 0
            if r.returncode != 0:
                out["tests_tail"] = r.stdout.strip().splitlines()[-3:]
    except Exception as e:  # never propagate
        out["status"] = "runner-error"
        out["detail"] = f"{type(e).__name__}: {e}"
    finally:
        shutil.rmtree(tmp, ignore_errors=True)
    out["wall_s"] = round(time.time() - t0, 2)
    return out


def _run(args):
    return run_variant(*args)


def main(jobs: int = 16, only: Optional[str] = None, verbose: bool = False, with_tests: bool = False) -> int:
    from .variants import VARIANTS
    vs = [v for v in VARIANTS if only is None or only in v["id"] or only in v["props"]]
    t0 = time.time()
    with ProcessPoolExecutor(max_workers=jobs) as ex:
        results = list(ex.map(_run, [(v, with_tests) for v in vs]))
    summary: Dict[str, int] = {}
    for r in results:
        summary[r["status"]] = summary.get(r["status"], 0) + 1
    for r in results:
        if verbose or r["status"] != "ok" or (with_tests and r["kind"] == "break" and r.get("tests_pass") is False):
            extra = ""
            if "results" in r:
                extra = "; ".join(f"{p}:exit{x['exit']}" + (f" {x['violations'][:2]}" if x["violations"] else "") + (f" ERR {x['error'][:80]}" if x["error"] else "") for p, x in r["results"].items())
            print(f"{r['status']:16s} {r['kind']:8s} {r['id']:40s} {r.get('detail', '')} {extra}" + (f" tests_pass={r.get('tests_pass')}" if with_tests else ""))
    print(f"self-test: {len(results)} variants in {time.time() - t0:.1f}s: {summary}")
    with open(RESULT_FILE, "w") as f:
        json.dump({"at": time.strftime("%Y-%m-%dT%H:%M:%SZ", time.gmtime()), "summary": summary, "results": results}, f, indent=1)
    bad = sum(n for k, n in summary.items() if k not in ("ok",))
    return 0 if bad == 0 else 1


def _run_patch(args) -> Dict[str, Any]:
    """One stored patch (seeded defect or behaviour-preserving refactoring) against one property's check, on a scratch copy."""
    patch, prop = args
    from ..__main__ import run_check
    tmp = tempfile.mkdtemp(prefix="sfa-corpus-")
    try:
        shutil.copytree(os.path.join(REPO, "simfile"), os.path.join(tmp, "simfile"), ignore=shutil.ignore_patterns("__pycache__"))
        r = subprocess.run(["git", "apply", "--unsafe-paths", "--directory", tmp, patch], capture_output=True, text=True, cwd="/")
        if r.returncode != 0:
            return {"id": os.path.basename(os.path.dirname(patch)), "exit": None}
        code, ctx, violations, known, error = run_check(prop, "quick", repo=tmp, quiet=True, write=False)
        return {"id": os.path.basename(os.path.dirname(patch)), "exit": code}
    except Exception as e:  # never propagate
        return {"id": os.path.basename(os.path.dirname(patch)), "exit": None, "error": f"{type(e).__name__}: {e}"}
    finally:
        shutil.rmtree(tmp, ignore_errors=True)


def corpus_for_property(prop: str) -> Dict[str, Any]:
    """The stored corpus (/verif/seeded, /verif/refactors) against this property's check: its own seeded defects must make it exit 1,
    every stored behaviour-preserving refactoring must leave it silent. Patches that no longer apply to the current tree are counted as stale."""
    import glob
    root = os.path.dirname(os.path.dirname(HERE))
    seeds = sorted(glob.glob(os.path.join(root, "seeded", f"{prop}-*", "patch.diff")))
    refs = sorted(glob.glob(os.path.join(root, "refactors", "*", "patch.diff")))
    with ProcessPoolExecutor(max_workers=16) as ex:
        rs = list(ex.map(_run_patch, [(x, prop) for x in seeds]))
        rr = list(ex.map(_run_patch, [(x, prop) for x in refs]))
    return {
        "seeded_defects": len(rs), "seeded_detected": sum(1 for r in rs if r["exit"] == 1),
        "seeded_not_detected": [r["id"] + (":exit2" if r["exit"] == 2 else ":stale" if r["exit"] is None else ":silent") for r in rs if r["exit"] != 1],
        "refactorings": len(rr), "refactorings_silent": sum(1 for r in rr if r["exit"] == 0),
        "refactorings_not_silent": [r["id"] + (":exit2" if r["exit"] == 2 else ":stale" if r["exit"] is None else ":FALSE-ALARM") for r in rr if r["exit"] != 0],
    }


def record_for_property(prop: str) -> None:
    """Thorough tier: run this property's variants and add the outcome to the evidence file (never changes the verdict)."""
    from .variants import VARIANTS
    vs = [v for v in VARIANTS if prop in v["props"]]
    if not vs:
        return
    with ProcessPoolExecutor(max_workers=16) as ex:
        results = list(ex.map(_run, [(v, False) for v in vs]))
    ev_path = os.path.join(os.path.dirname(os.path.dirname(HERE)), "evidence", f"{prop}.json")
    with open(ev_path) as f:
        ev = json.load(f)
    ev["coverage"]["checker_selftest"] = {
        "variants": len(results),
        "breaking_detected": sum(1 for r in results if r["kind"] == "break" and r["status"] in ("ok", "detected-unnamed")),
        "breaking_total": sum(1 for r in results if r["kind"] == "break"),
        "preserving_silent": sum(1 for r in results if r["kind"] == "preserve" and r["status"] == "ok"),
        "preserving_total": sum(1 for r in results if r["kind"] == "preserve"),
        "not_ok": [{"id": r["id"], "status": r["status"]} for r in results if r["status"] != "ok"],
    }
    try:
        ev["coverage"]["stored_corpus"] = corpus_for_property(prop)
    except Exception as ex:
        ev["coverage"]["stored_corpus"] = {"skipped": f"{type(ex).__name__}: {ex}"}
    with open(ev_path, "w") as f:
        json.dump(ev, f, indent=1, default=str)
    print(f"self-test for {prop}: {ev['coverage']['checker_selftest']}")
    print(f"stored corpus for {prop}: {ev['coverage']['stored_corpus']}")


if __name__ == "__main__":
    import argparse
    ap = argparse.ArgumentParser()
    ap.add_argument("--jobs", type=int, default=16)
    ap.add_argument("--only", default=None)
    ap.add_argument("--verbose", action="store_true")
    ap.add_argument("--with-tests", action="store_true")
    a = ap.parse_args()
    sys.exit(main(a.jobs, a.only, a.verbose, a.with_tests))
