"""
AST-computed, behaviour-preserving whole-package transforms for the self-test:
  rename_locals  - every local variable (never a parameter, global or builtin) gets a new name
  reformat       - every module is re-emitted by ast.unparse (comments dropped, layout normalised)
"""
from __future__ import annotations

import ast
import builtins
import os
from typing import Dict, Set


def _bound_names(fn: ast.AST) -> Set[str]:
    out: Set[str] = set()
    for n in ast.walk(fn):
        if isinstance(n, ast.Name) and isinstance(n.ctx, (ast.Store, ast.Del)):
            out.add(n.id)
        elif isinstance(n, ast.ExceptHandler) and n.name:
            out.add(n.name)
    return out


def _params(fn: ast.AST) -> Set[str]:
    out: Set[str] = set()
    for n in ast.walk(fn):
        if isinstance(n, (ast.FunctionDef, ast.AsyncFunctionDef, ast.Lambda)):
            a = n.args
            for x in a.posonlyargs + a.args + a.kwonlyargs:
                out.add(x.arg)
            if a.vararg:
                out.add(a.vararg.arg)
            if a.kwarg:
                out.add(a.kwarg.arg)
        if isinstance(n, (ast.FunctionDef, ast.AsyncFunctionDef, ast.ClassDef)) and n is not fn:
            out.add(n.name)  # nested def names are referenced by callers: keep
        if isinstance(n, (ast.Global, ast.Nonlocal)):
            out.update(n.names)
    return out


def rename_locals_module(src: str) -> str:
    tree = ast.parse(src)
    module_names = {n.id for n in ast.walk(tree) if isinstance(n, ast.Name)} | set(dir(builtins))
    top_level: Set[str] = set()
    for st in tree.body:
        for n in ast.walk(st) if not isinstance(st, (ast.FunctionDef, ast.AsyncFunctionDef, ast.ClassDef)) else []:
            if isinstance(n, ast.Name) and isinstance(n.ctx, ast.Store):
                top_level.add(n.id)
        if isinstance(st, (ast.FunctionDef, ast.AsyncFunctionDef, ast.ClassDef)):
            top_level.add(st.name)
        if isinstance(st, (ast.Import, ast.ImportFrom)):
            for a in st.names:
                top_level.add((a.asname or a.name).split(".")[0])

    def do_function(fn: ast.AST) -> None:
        keep = _params(fn) | top_level | set(dir(builtins))
        imported = set()
        for n in ast.walk(fn):
            if isinstance(n, (ast.Import, ast.ImportFrom)):
                for a in n.names:
                    imported.add((a.asname or a.name).split(".")[0])
        local = {x for x in _bound_names(fn) if x not in keep and x not in imported and not x.startswith("__")}
        mapping: Dict[str, str] = {}
        for x in sorted(local):
            new = x + "_rn"
            while new in module_names:
                new += "_"
            mapping[x] = new
        for n in ast.walk(fn):
            if isinstance(n, ast.Name) and n.id in mapping:
                n.id = mapping[n.id]
            elif isinstance(n, ast.ExceptHandler) and n.name in mapping:
                n.name = mapping[n.name]

    def visit(body):
        for st in body:
            if isinstance(st, (ast.FunctionDef, ast.AsyncFunctionDef)):
                do_function(st)
            elif isinstance(st, ast.ClassDef):
                visit(st.body)

    visit(tree.body)
    return ast.unparse(tree) + "\n"


def reformat_module(src: str) -> str:
    return ast.unparse(ast.parse(src)) + "\n"


TRANSFORMS = {"rename_locals": rename_locals_module, "reformat": reformat_module}


def apply_transform(root: str, name: str) -> None:
    fn = TRANSFORMS[name]
    pkg = os.path.join(root, "simfile")
    for dirpath, dirnames, filenames in os.walk(pkg):
        if "tests" in dirpath.split(os.sep):
            continue
        for f in filenames:
            if f.endswith(".py"):
                p = os.path.join(dirpath, f)
                with open(p, encoding="utf-8") as fh:
                    s = fh.read()
                with open(p, "w", encoding="utf-8") as fh:
                    fh.write(fn(s))


class _NegateIf(ast.NodeTransformer):
    """if t: A else: B  ->  if not t: B else: A   (only plain if/else, never an elif chain)."""

    def visit_If(self, node: ast.If):
        self.generic_visit(node)
        if node.orelse and not (len(node.orelse) == 1 and isinstance(node.orelse[0], ast.If)):
            return ast.If(test=ast.UnaryOp(op=ast.Not(), operand=node.test), body=node.orelse, orelse=node.body)
        return node


def negate_if_module(src: str) -> str:
    tree = _NegateIf().visit(ast.parse(src))
    ast.fix_missing_locations(tree)
    return ast.unparse(tree) + "\n"


class _ReturnTemp(ast.NodeTransformer):
    """return <call>  ->  _rv_tmp = <call>; return _rv_tmp   (not inside generators' bare returns, not in lambdas)."""

    def visit_FunctionDef(self, node: ast.FunctionDef):
        self.generic_visit(node)
        node.body = self._rewrite(node.body)
        return node

    def _rewrite(self, body):
        out = []
        for st in body:
            for fld in ("body", "orelse", "finalbody"):
                sub = getattr(st, fld, None)
                if isinstance(sub, list) and sub and isinstance(sub[0], ast.stmt) and not isinstance(st, (ast.FunctionDef, ast.AsyncFunctionDef, ast.ClassDef)):
                    setattr(st, fld, self._rewrite(sub))
            for h in getattr(st, "handlers", []):
                h.body = self._rewrite(h.body)
            if isinstance(st, ast.Return) and isinstance(st.value, ast.Call):
                out.append(ast.Assign(targets=[ast.Name(id="_rv_tmp", ctx=ast.Store())], value=st.value))
                out.append(ast.Return(value=ast.Name(id="_rv_tmp", ctx=ast.Load())))
            else:
                out.append(st)
        return out


def return_temp_module(src: str) -> str:
    tree = _ReturnTemp().visit(ast.parse(src))
    ast.fix_missing_locations(tree)
    return ast.unparse(tree) + "\n"


TRANSFORMS["negate_if"] = negate_if_module
TRANSFORMS["return_temp"] = return_temp_module
