"""
R-FWD: documented options are passed on, unchanged, at every call whose
resolved callee accepts them; **kwargs documented as "passed down" are passed
down or explicitly rejected.
"""
from __future__ import annotations

import ast
from typing import Any, Dict, Iterable, List, Optional, Sequence, Tuple

from ..engine import AnalysisError, ClassInfo, External, FunctionInfo, body_walk, src
from ..flow import call_args, is_bound_call, locals_of
from ..report import Ctx
from .callgraph import callgraph
from .common import calls, facts, self_attr, typer, unparse_facts

OPTIONS = (
    "strict", "filesystem", "ignore_duplicate", "try_encodings", "include_note_types", "same_beat_notes",
    "same_beat_minimum", "orphaned_head", "orphaned_tail", "invalid_property_behaviors", "simfile_template",
    "chart_template",
)


def _stored_field(ctx: Ctx, ci: ClassInfo, option: str) -> Optional[str]:
    """self.<field> = <option> in the class's __init__ (along the MRO)."""
    m = ctx.p.lookup_member(ci, "__init__")
    if not m or m[0] != "method":
        return None
    init: FunctionInfo = m[1]
    if option not in init.param_names():
        return None
    sn = init.param_names()[0]
    for n in body_walk(init.node):
        if isinstance(n, ast.Assign) and isinstance(n.value, ast.Name) and n.value.id == option:
            for t in n.targets:
                a = self_attr(t, sn)
                if a:
                    return a
    return None


def fwd_options(ctx: Ctx, options: Sequence[str], floor: int, scope: Optional[Iterable[str]] = None, skip_callees: Iterable[str] = ()) -> None:
    p = ctx.p
    cg = callgraph(ctx)
    ty = typer(ctx)
    n = 0
    scope = set(scope) if scope is not None else None
    for f in p.nontest_functions():
        if scope is not None and f.fq not in scope:
            continue
        loc = locals_of(f)
        for opt in options:
            field = None
            if opt in f.param_names():
                mode = "param"
            elif f.cls is not None and f.parent is None and "staticmethod" not in f.decorators():
                field = _stored_field(ctx, f.cls, opt)
                if field is None:
                    continue
                mode = "field"
            else:
                continue
            sn = f.param_names()[0] if f.param_names() else None
            for call, g in cg.edges.get(f.fq, []):
                t = cg.target(g)
                if t is None or opt not in t.param_names() or t.fq in skip_callees:
                    continue
                bound = isinstance(g, ClassInfo) or is_bound_call(ty, f, call, t)
                args = call_args(call, t, bound=bound)
                arg = args.get(opt)
                n += 1
                label = f"{opt} -> {t.qualname}()"
                if arg is None:
                    if "**" in args and mode == "param":
                        # the option may travel inside **kwargs only if the caller itself does not bind it
                        pass
                    ctx.bad("R-FWD", f, label, f"{src(call, 70)} does not pass '{opt}': the callee's default replaces the caller's choice", node=call)
                    continue
                if mode == "param":
                    rebound_const = [b for b in loc.b.get(opt, []) if b.kind != "param" and isinstance(b.value, ast.Constant)]
                    good = isinstance(arg, ast.Name) and arg.id == opt and not rebound_const
                    want = opt
                else:
                    good = self_attr(arg, sn) == field
                    want = f"self.{field}"
                ctx.expect("R-FWD", f, label, good, f"{opt}={src(arg)}", f"{src(call, 70)} passes {opt}={src(arg)} instead of {want}", node=call)
    ctx.floor("option forwarding sites", n, floor)


def parse_msd_strictness(ctx: Ctx, floor: int = 4) -> None:
    """Every tokenizer call gets ignore_stray_text = not <the enclosing function's strict parameter>."""
    cg = callgraph(ctx)
    n = 0
    for f in ctx.p.nontest_functions():
        for call, name in cg.external_calls(f):
            if not name.endswith("parse_msd"):
                continue
            n += 1
            kw = {k.arg: k.value for k in call.keywords if k.arg}
            e = kw.get("ignore_stray_text")
            loc = locals_of(f)
            good = (e is not None and isinstance(e, ast.UnaryOp) and isinstance(e.op, ast.Not) and isinstance(e.operand, ast.Name)
                    and e.operand.id == "strict" and loc.only_param("strict"))
            ctx.expect("R-FWD", f, f"parse_msd call #{n}: ignore_stray_text = not strict", good, src(e) if e is not None else "absent",
                       f"{src(call, 80)}: ignore_stray_text is {src(e) if e is not None else 'not passed'}; the documented binding is 'not strict' "
                       f"of the entry point's own strict parameter", node=call)
    ctx.floor("parse_msd call sites", n, floor)


KW_WRAPPERS = {
    # PyFilesystem API wrappers: forward everything to io.open; the mode comes from the caller
    "simfile._private.nativeosfs:NativeOSFS.open": "forwarding wrapper of FS.open (io.open(*args, **kwargs))",
    "simfile._private.nativeosfs:NativeOSFS.openbin": "forwarding wrapper of FS.openbin (**options to io.open)",
    "simfile.sm:SMChart.update": "refuses unconditionally (raise NotImplementedError)",
}


def fwd_kwargs(ctx: Ctx, floor: int = 8, scope: Optional[Iterable[str]] = None) -> None:
    """A function with **kwargs documented as passed down: every call to a kwargs-accepting repo callee or to a
    filesystem open passes **kwargs, and at least one such call exists (otherwise the kwargs are dropped)."""
    p = ctx.p
    cg = callgraph(ctx)
    ty = typer(ctx)
    n = 0
    for f in p.nontest_functions():
        kw = f.has_kwargs()
        if not kw or f.parent is not None:
            continue
        if scope is not None and f.fq not in scope and f.fq not in KW_WRAPPERS:
            continue
        if f.fq in KW_WRAPPERS:
            ctx.observe("R-FWD", f, "**kwargs wrapper", KW_WRAPPERS[f.fq])
            continue
        n += 1
        sinks = []
        for call, g in cg.edges.get(f.fq, []):
            t = cg.target(g)
            takes = False
            if t is not None and t.has_kwargs() and t.fq not in ("simfile.sm:SMChart.update",):
                takes = True
            if isinstance(g, External) and (g.name.endswith(".open") and ("FS" in g.name or g.name.startswith("fs."))):
                takes = True
            if not takes:
                continue
            passes = any(k.arg is None and isinstance(k.value, ast.Name) and k.value.id == kw for k in call.keywords)
            sinks.append((call, passes))
            ctx.expect("R-FWD", f, f"**{kw} -> {src(call.func, 50)}()", passes, "",
                       f"{src(call, 70)} accepts keyword options but the caller's **{kw} are not passed", node=call)
        if not sinks:
            # explicit rejection is the only other accepted idiom
            rejected = False
            for node in body_walk(f.node):
                if isinstance(node, ast.Raise):
                    fs = facts(ctx, f, node)
                    if any(pol and isinstance(a, ast.Name) and a.id == kw for a, pol in fs):
                        rejected = True
            ctx.expect("R-FWD", f, f"**{kw} is forwarded or rejected", rejected, "rejected with an exception",
                       f"{f.qualname} accepts **{kw} and never passes it on: caller options (strict, encoding, ...) are silently dropped", node=f.node)
    ctx.floor("functions with **kwargs", n, floor)
