"""
Loader entry points: format detection, stream rewinding, the single funnel to
the tokenizer (property C03), and the encoding chain (C05).
"""
from __future__ import annotations

import ast
from typing import Any, Dict, List, Optional, Set, Tuple

from ..cfg import CFG, PathEnumerator
from ..engine import AnalysisError, ClassInfo, External, FunctionInfo, body_walk, norm, src, walk_no_nested
from ..flow import cfg_node_of, inline, locals_of
from ..report import Ctx
from ..decide import key as ckey
from .callgraph import callgraph
from .common import (callee, callee_name, calls, ev, fact_eq_const, facts, for_loops, method_calls, one, parent, require, self_attr,
                     try_ev, typer, unparse_facts)

DETECT = "simfile:_detect_ssc"
LOAD = "simfile:load"
ENTRY_POINTS = [
    "simfile:loads", "simfile:load", "simfile:open", "simfile:open_with_detected_encoding", "simfile:mutate", "simfile.ssc:SSCChart.from_str",
]
TOKENIZER_CALLERS = {"simfile.base:BaseSimfile.__init__", "simfile.ssc:SSCChart.from_str", DETECT}


def exhausted(s_) -> bool:
    """The path on which the token stream had no parameter at all: `x = next(it, <sentinel>)` answered the sentinel.  The load-time normal form
    turns `try: x = next(it) / except StopIteration:` into that shape with the sentinel __EXHAUSTED__; `next(it, None)` followed by `x is None`
    is the same test for a stream that never holds None (the tokenizer yields MSDParameter objects)."""
    from ..normalize import EXHAUSTED
    defaults = {}
    for e in s_.effects:
        if e.kind == "bind" and isinstance(e.target, ast.Name) and isinstance(e.value, ast.Call) and isinstance(e.value.func, ast.Name) and e.value.func.id == "next" and len(e.value.args) == 2:
            d = e.value.args[1]
            if isinstance(d, ast.Name) or (isinstance(d, ast.Constant) and d.value is None):
                defaults[e.target.id] = ast.unparse(d)  # a sentinel object (whatever its name), or None
    for k, v in s_.plain_assign().items():
        if v is not True:
            continue
        if EXHAUSTED in k:
            return True
        for x, d in defaults.items():
            if k in (f"{d} is {x}", f"{x} is {d}"):
                return True
    return False


def rewind(ctx: Ctx) -> None:
    """R-REWIND: a caller-owned stream that was handed to the tokenizer is rewound before it is returned (path effects: the stream is *owned*
    until the parameter is re-bound, *consumed* once parse_msd(file=<it>) ran, *rewound* by <it>.seek(0))."""
    from .tables import sums_of as tsums
    p = ctx.p
    fi = p.func(DETECT)
    sp = fi.param_names()[0]  # the stream parameter
    sums = tsums(ctx, fi)
    total = n_consume = exempt = 0
    bad = []
    for s_ in sums:
        if s_.end == "raise":
            continue
        total += 1
        owned, state = True, "fresh"
        for e in s_.effects:
            if e.kind in ("bind", "for", "with") and e.target is not None and any(isinstance(x, ast.Name) and x.id == sp for x in ast.walk(e.target if e.kind != "with" else (e.value or e.target))) and e.kind != "with":
                # the tokenizer call of this very statement still sees the old object
                if isinstance(e.value, ast.AST) and owned:
                    for c in [n for n in ast.walk(e.value) if isinstance(n, ast.Call)]:
                        if callee_name(ctx, fi, c).endswith("parse_msd") and any(k.arg == "file" and isinstance(k.value, ast.Name) and k.value.id == sp for k in c.keywords):
                            state = "consumed"
                owned = False
                continue
            for x in (e.value, e.target):
                if not isinstance(x, ast.AST):
                    continue
                for c in [n for n in ast.walk(x) if isinstance(n, ast.Call)]:
                    if owned and callee_name(ctx, fi, c).endswith("parse_msd") and any(k.arg == "file" and isinstance(k.value, ast.Name) and k.value.id == sp for k in c.keywords):
                        state = "consumed"
                        n_consume += 1
                    if owned and state == "consumed" and isinstance(c.func, ast.Attribute) and c.func.attr == "seek" and isinstance(c.func.value, ast.Name) and c.func.value.id == sp \
                            and len(c.args) == 1 and try_ev(ctx, fi, c.args[0]) == 0:
                        state = "rewound"
        k_, v_ = s_.terminal()
        returns_stream = k_ == "return" and v_ is not None and any(isinstance(x, ast.Name) and x.id == sp for x in ast.walk(v_))
        if owned and state == "consumed" and returns_stream:
            if exhausted(s_):
                exempt += 1  # no parameter at all: re-reading from any position yields none either
            else:
                bad.append(s_)
    ctx.floor("in-place peeks of the caller's stream (paths)", n_consume, 1)
    if bad:
        ctx.bad("R-REWIND", fi, f"stream '{sp}' consumed by the peek is returned without seek(0)",
                f"{len(bad)} of {total} paths hand the caller's stream on consumed: the simfile then loads empty; e.g. under {dict(bad[0].plain_assign())}", node=fi.node)
    else:
        ctx.ok("R-REWIND", fi, f"stream '{sp}' consumed by the peek is rewound on every path that returns it",
               f"{total} paths, {exempt} on which the stream held no parameter (exempt)", node=fi.node)
    ctx.floor("paths through _detect_ssc", total, 4)
    # the non-seekable branch works on a copy: the returned object is a fresh StringIO, never the consumed iterator
    tees = [c for c in calls(fi) if callee_name(ctx, fi, c).endswith("itertools.tee")]
    if tees:
        ctx.ok("R-REWIND", fi, "iterator input is duplicated with tee() before peeking", src(tees[0]), node=tees[0])


def dispatch(ctx: Ctx) -> None:
    """C03.6: suffix table, VERSION fallback, load's class choice."""
    p = ctx.p
    fi = p.func(DETECT)
    sp = fi.param_names()[0]
    from .tables import function_decs, judge as tjudge, sums_of as tsums, terminal_text
    from ..decide import IGNORE
    sums = tsums(ctx, fi, bool_returns=True)
    SUF = f"{sp}.name.lower().rpartition('.')[2]"
    T1, T2, NS = f"isinstance({sp}, TextIOWrapper)", f"isinstance({sp}, TextIO)", f"type({sp}.name) is str"
    S1, S2 = f"{SUF} == 'ssc'", f"{SUF} == 'sm'"

    def spec(a):
        if (a[T1] or a[T2]) and a[NS]:
            if a[S1]:
                return f"return ({sp}, True)"
            if a[S2]:
                return f"return ({sp}, False)"
        return IGNORE  # decided from the text (judged below)

    def out(s_):
        t = terminal_text(s_)
        return t if t in (f"return ({sp}, True)", f"return ({sp}, False)") and not any(e.kind in ("except",) or (e.kind == "bind" and e.opaque and "parse_msd" in e.text) for e in s_.effects) else "from the text"

    decs = function_decs(sums, out)
    eqv = {f"{sp}.name.lower().endswith('.ssc')": (S1, True), f"{sp}.name.lower().endswith('.sm')": (S2, True),
           f"{sp}.name.lower().rsplit('.', 1)[-1] == 'ssc'": (S1, True), f"{sp}.name.lower().rsplit('.', 1)[-1] == 'sm'": (S2, True),
           f"isinstance({sp}.name, str)": (NS, True)}
    IN2 = f"{SUF} in ('sm', 'ssc')"
    tjudge(ctx, "R-TABLE", fi, "suffix dispatch: a named text stream whose lower-cased name ends in .ssc is SSC, in .sm is SM (decided without reading it)", decs, [T1, T2, NS, S1, S2], spec, equiv=eqv,
           dont_care=[IN2], feasible=lambda full: full.get(ckey(IN2)) is None or full[ckey(IN2)] == bool(full.get(ckey(S1)) or full.get(ckey(S2))),
           why="documented: .ssc -> SSC, .sm -> SM, compared case-insensitively on the text after the last '.'")
    # a path that answers True/False without reading the text must be one of the two suffix answers
    early = [d for d in decs if d.outcome != "from the text"]
    ok_only = all(((d.assign.get(ckey(T1)) or d.assign.get(ckey(T2))) and d.assign.get(ckey(NS)) and (d.assign.get(ckey(S1)) or d.assign.get(ckey(S2)) or d.assign.get(ckey(IN2)))) for d in early)
    ctx.expect("R-TABLE", fi, "nothing but the two suffixes decides the format without reading the text", ok_only and len(early) >= 2, f"{len(early)} early answers",
               "an answer is given before the text is parsed under conditions other than the .ssc / .sm suffix", node=fi.node)
    _fallback(ctx, fi, function_decs(tsums(ctx, fi), out))
    # the peeked parameter is the FIRST one: next(parser) exactly once
    # counted along each path (the same tail may be written in two branches): every path that reads the text reads one parameter, no path more
    per_path = [sum(1 for e in s_.effects for c in ([e.value] if e.value is not None else []) for x in ast.walk(c) if isinstance(x, ast.Call) and isinstance(x.func, ast.Name) and x.func.id == "next")
                for s_ in tsums(ctx, fi)]
    nx_ok = bool(per_path) and max(per_path) == 1
    ctx.expect("R-TABLE", fi, "the peek reads exactly the first parameter", nx_ok, f"next() calls per path: at most {max(per_path) if per_path else 0}", f"next() calls per path: {sorted(set(per_path))}", node=fi.node)
    # empty stream -> SM
    ex = [s_ for s_ in tsums(ctx, fi) if exhausted(s_) and s_.end != "raise"]
    outs = set()
    for s_ in ex:
        k_, v_ = s_.terminal()
        outs.add(ast.unparse(v_.elts[1]) if k_ == "return" and isinstance(v_, ast.Tuple) and len(v_.elts) == 2 else f"{k_} {ast.unparse(v_) if v_ is not None else ''}")
    ctx.expect("R-TABLE", fi, "a text without parameters is SM", bool(ex) and outs == {"False"}, f"{len(ex)} paths", f"on the paths where the stream holds no parameter the answer is {sorted(outs)}", node=fi.node)
    # load: class choice from the detection result, parsing the stream the detection returned
    fl = p.func(LOAD)
    from .tables import function_decs as _fd, judge as _tj, sums_of as _ts, closed as _cl
    lsums = _ts(ctx, fl)
    pairs = set()
    for s_ in lsums:
        for e in s_.effects:
            if e.kind == "bind" and isinstance(e.target, (ast.Tuple, ast.List)) and len(e.target.elts) == 2 and all(isinstance(x, ast.Name) for x in e.target.elts) \
                    and isinstance(e.value, ast.Call) and ast.unparse(e.value.func) == "_detect_ssc":
                pairs.add((e.target.elts[0].id, e.target.elts[1].id))
    require(len(pairs) == 1, f"{LOAD}: the result of _detect_ssc is not unpacked into (stream, is_ssc): {sorted(pairs)}")
    fname, flag = next(iter(pairs))

    def lout(s_):
        k_, v_ = s_.terminal()
        return "return " + (ast.unparse(v_) if v_ is not None else "None") if k_ == "return" else k_

    _tj(ctx, "R-TABLE", fl, "load: is_ssc -> SSCSimfile, else SMSimfile, each parsing the stream returned by the detection (it may have been replaced by a re-readable copy) with the caller's strict",
        _fd(lsums, lout), [flag], lambda a: f"return SSCSimfile(file={fname}, strict=strict)" if a[flag] else f"return SMSimfile(file={fname}, strict=strict)")


def _fallback(ctx: Ctx, fi: FunctionInfo, decs) -> None:
    """fallback of the detection: the text is SSC exactly when its first key, upper-cased, is VERSION (whatever its value)."""
    good = True
    seen_fb = 0
    shown = ""
    extra = []
    for d in decs:
        if d.outcome != "from the text" or d.src.end == "raise":
            continue
        if not any(e.kind == "bind" and e.value is not None and "next(" in ast.unparse(e.value) for e in d.src.effects):
            k0, v0 = d.src.terminal()
            sp0 = fi.param_names()[0]
            reads_text = any(e.value is not None and any(w in ast.unparse(e.value) for w in (f".join({sp0})", f"{sp0}.read(", f"{sp0}.readline(", f"{sp0}.readlines(", f"list({sp0})", f"tee({sp0})"))
                             for e in d.src.effects)
            if k0 == "return" and isinstance(v0, ast.Tuple) and len(v0.elts) == 2 and not isinstance(v0.elts[1], ast.Constant) and reads_text \
                    and not any(e.kind == "for" for e in d.src.effects):
                # an answer computed from the text without asking the tokenizer for its first parameter (a pattern match on the raw text ..):
                # what counts as "the first key is VERSION" is then decided by something other than the parser that will read the file
                ctx.bad("R-TABLE", fi, "fallback: first key upper-cased == 'VERSION'", f"a path answers {ast.unparse(v0.elts[1])[:80]} without reading the first parameter from the tokenizer: a key-only "
                        "'#VERSION;', an escaped or commented first parameter are then judged differently from how they will be parsed", node=fi.node)
                seen_fb += 1
                good = False
            continue  # answered before the first parameter was read: not the fallback (judged by the suffix table)
        if exhausted(d.src):
            continue  # no parameter at all (judged by 'a text without parameters is SM')
        k_, v = d.src.terminal()
        seen_fb += 1
        shown = ast.unparse(v) if v is not None else "None"
        okp = False
        if isinstance(v, ast.Tuple) and len(v.elts) == 2:
            t = v.elts[1]
            def flat(e):
                if isinstance(e, ast.BoolOp) and isinstance(e.op, ast.And):
                    return [y for x in e.values for y in flat(x)]
                return [e]
            conj = flat(t)
            # '<p> is not None' for the local that holds next(<parser>, None): "there is a first parameter" - part of reading it, not a further condition
            next_none = {e.target.id for e in d.src.effects if e.kind == "bind" and isinstance(e.target, ast.Name) and isinstance(e.value, ast.Call) and isinstance(e.value.func, ast.Name)
                         and e.value.func.id == "next" and len(e.value.args) == 2 and isinstance(e.value.args[1], ast.Constant) and e.value.args[1].value is None}
            conj = [n for n in conj if not (isinstance(n, ast.Compare) and len(n.ops) == 1 and isinstance(n.ops[0], ast.IsNot) and isinstance(n.left, ast.Name) and n.left.id in next_none
                                            and isinstance(n.comparators[0], ast.Constant) and n.comparators[0].value is None)]
            for n in conj:
                hit = False
                if isinstance(n, ast.Compare) and len(n.ops) == 1 and isinstance(n.ops[0], ast.Eq):
                    l, rr = n.left, n.comparators[0]
                    for a_, b_ in ((l, rr), (rr, l)):
                        if (isinstance(a_, ast.Call) and isinstance(a_.func, ast.Attribute) and a_.func.attr == "upper" and isinstance(a_.func.value, ast.Attribute)
                                and a_.func.value.attr == "key" and isinstance(b_, ast.Constant) and b_.value == "VERSION"):
                            okp = hit = True
                if not hit:
                    # the only other accepted conjunct guards the .upper() call: '<param>.key is not None' / '<param>.key'
                    tx = ast.unparse(n)
                    if not (tx.endswith(".key is not None") or tx.endswith(".key")):
                        extra.append(tx)
        good = good and okp
    ctx.expect("R-TABLE", fi, "fallback: first key upper-cased == 'VERSION'", good and seen_fb > 0, shown, f"fallback answer is {shown}", node=fi.node)
    ctx.expect("R-TABLE", fi, "the fallback depends on the first key only", not extra, shown, f"the answer also depends on {sorted(set(extra))}: a text whose first key is VERSION must be detected as SSC whatever else the parameter holds "
               "(e.g. a key-only '#VERSION;')", node=fi.node)


def detection_fallback(ctx: Ctx) -> None:
    """C02: a serialized SSC simfile (VERSION first) is auto-detected as SSC."""
    fi = ctx.p.func(DETECT)
    sp = fi.param_names()[0]
    from .tables import function_decs, sums_of as tsums, terminal_text

    def out(s_):
        t = terminal_text(s_)
        return t if t in (f"return ({sp}, True)", f"return ({sp}, False)") and not any(e.kind in ("except",) or (e.kind == "bind" and e.opaque and "parse_msd" in e.text) for e in s_.effects) else "from the text"

    _fallback(ctx, fi, function_decs(tsums(ctx, fi), out))


def funnel(ctx: Ctx) -> None:
    """C03.7: who may call the tokenizer; every public loader reaches it only through the constructors."""
    p = ctx.p
    cg = callgraph(ctx)
    n = 0
    for f in p.nontest_functions():
        for call, name in cg.external_calls(f):
            if name.endswith("parse_msd"):
                n += 1
                ctx.expect("R-EFFECT", f, f"parse_msd call in {f.qualname}", f.fq in TOKENIZER_CALLERS, "",
                           f"{f.fq} tokenizes on its own: a second parsing path can diverge from the documented rules (allowed: {sorted(TOKENIZER_CALLERS)})", node=call)
    ctx.floor("tokenizer call sites", n, 4)
    base_init = "simfile.base:BaseSimfile.__init__"
    for ep in ENTRY_POINTS:
        f = p.func(ep)
        reach = cg.reach(f)
        target = base_init if ep != "simfile.ssc:SSCChart.from_str" else "simfile.ssc:SSCChart._parse"
        ctx.expect("R-FWD", f, f"{f.qualname} reaches {target.split(':')[1]}", target in reach, "",
                   f"{ep} no longer reaches {target} in the resolved call graph", node=f.node)
    constructor_funnel(ctx)


def constructor_funnel(ctx: Ctx) -> None:
    """BaseSimfile.__init__: parse exactly the tokenizer's output whenever file or string is given (also the empty string)."""
    p = ctx.p
    base_init = "simfile.base:BaseSimfile.__init__"
    # the constructors run the format's own _parse on the tokenizer's output: string verbatim, file either as is or re-read completely,
    # whenever a source was given (also an empty string)
    bi = p.func(base_init)
    sn = bi.param_names()[0]
    from .tables import Dec, closed_text, judge as tjudge, sums_of as tsums, touches
    from ..decide import IGNORE
    sums = tsums(ctx, bi)
    FN, SN, FT, TI = "file is None", "string is None", "file", "isinstance(file, TextIO)"
    decs = []
    for s_ in sums:
        eff = [e for e in s_.effects if e.kind == "expr" and touches(e, [sn]) and isinstance(e.value, ast.Call) and isinstance(e.value.func, ast.Attribute) and e.value.func.attr == "_parse"]
        decs.append(Dec(dict(s_.plain_assign()), tuple(closed_text(s_, e, keep=[sn]) for e in eff), s_))

    def spec(a):
        if a[FN] and a[FT]:
            return IGNORE
        if a[FN] and a[SN]:
            return ()
        src_ = "file" if (a[FT] and a[TI]) else ("StringIO(''.join(file))" if a[FT] else "None")
        return (f"{sn}._parse(parse_msd(file={src_}, string=string, ignore_stray_text=not strict))",)

    tjudge(ctx, "R-FWD", bi, "the constructor parses exactly the tokenizer's output, whenever file or string is given (is not None): string= unchanged, file= as the stream itself or its complete text",
           decs, [FN, SN, FT, TI], spec, why="a second parsing path or a partial re-read would diverge from the documented rules")


def peek_copy(ctx: Ctx) -> None:
    """The non-seekable branch of the detection peeks at a complete copy and hands a complete, re-readable copy on."""
    from ..pat import match
    p = ctx.p
    fi = p.func(DETECT)
    sp = fi.param_names()[0]
    rebinds = [b for b in locals_of(fi).b.get(sp, []) if b.kind != "param"]
    n = 0
    for b in rebinds:
        n += 1
        v = b.value
        good = False
        if isinstance(v, ast.ListComp) and len(v.generators) == 1 and not v.generators[0].ifs:
            g = v.generators[0]
            m = match("StringIO(''.join($x))", v.elt)
            good = m is not None and isinstance(g.target, ast.Name) and ast.unparse(m["x"]) == g.target.id and isinstance(g.iter, ast.Call) \
                and callee_name(ctx, fi, g.iter).endswith("itertools.tee") and len(g.iter.args) == 1 and ast.unparse(g.iter.args[0]) == sp
        else:
            m = match("StringIO(''.join($x))", v) if v is not None else None
            good = m is not None
        fs = facts(ctx, fi, b.node)
        ctx.expect("R-REWIND", fi, "an iterator input is replaced by a StringIO of its complete text", good, src(v) if v is not None else "", f"{sp} is rebound to {src(v) if v is not None else '?'}: the loader would see a partial or consumed stream", node=b.node)
    ctx.floor("rebindings of the stream in _detect_ssc", n, 1)
    for c in calls(fi):
        if callee_name(ctx, fi, c).endswith("parse_msd"):
            kw = {k.arg: k.value for k in c.keywords}
            if "string" in kw:
                m = match("''.join($x)", inline(kw["string"], fi)) or match("$x.getvalue()", inline(kw["string"], fi)) or match("$x.read()", inline(kw["string"], fi))
                okp = m is not None and isinstance(m["x"], ast.Name) and any(b.kind.startswith("unpack") or b.kind == "assign" for b in locals_of(fi).b.get(m["x"].id, []))
                ctx.expect("R-REWIND", fi, "the peek parses the complete text of the other copy", okp, src(kw["string"]), f"string={src(kw['string'])}", node=c)


def filename_entry(ctx: Ctx) -> None:
    """C03 (file name decides the format): the by-name loaders hand the *opened file object* - which carries the name - to load(), with the
    caller's strict flag, on every returning path; open() returns that result."""
    from .tables import closed, sums_of as tsums
    p = ctx.p
    fi = p.func("simfile:open_with_detected_encoding")
    n = 0
    for s_ in tsums(ctx, fi):
        if s_.end != "return":
            continue
        n += 1
        k_, v_ = s_.terminal()
        withs = {e.value.id: e.target for e in s_.effects if e.kind == "with" and isinstance(e.value, ast.Name)}
        first = v_.elts[0] if isinstance(v_, ast.Tuple) and v_.elts else v_
        first = closed(s_, first, opq=frozenset(withs)) if first is not None else None
        good = False
        detail = ast.unparse(first) if first is not None else "None"
        if isinstance(first, ast.Call) and callee_name(ctx, fi, first) == LOAD and first.args and isinstance(first.args[0], ast.Name) and first.args[0].id in withs and not any(k.arg is None for k in first.keywords):
            opened = withs[first.args[0].id]
            from ..flow import call_args as _ca
            am = _ca(first, p.func(LOAD))
            good = (isinstance(opened, ast.Call) and isinstance(opened.func, ast.Attribute) and opened.func.attr == "open" and opened.args and ast.unparse(opened.args[0]) == "filename"
                    and am.get("strict") is not None and ast.unparse(am["strict"]) == "strict")
            detail += f" with {first.args[0].id} = {ast.unparse(opened)}"
        ctx.expect("R-FWD", fi, "the by-name loader returns load(<the file object it opened under the caller's filename>, strict=strict)", good, detail,
                   f"the result is {detail}: the format of a file opened by name is decided by its name (.sm / .ssc), which only the opened file object carries - "
                   "loading its text (or another object) falls back to sniffing the first parameter", node=fi.node)
    ctx.floor("returning paths of open_with_detected_encoding", n, 1)


def text_entry_points(ctx: Ctx) -> None:
    """C03: the entry points that take a text hand exactly that text on - loads() to load(StringIO(string)), SSCChart.from_str to the tokenizer
    (string=string, with the caller's strictness), SMChart.from_str to _from_msd(string.split(':')) - on a new object that is returned; nothing is
    done to the text on the way (no trimming, dedenting, re-encoding)."""
    from .tables import closed, sums_of as tsums
    p = ctx.p
    want = {
        "simfile:loads": ("load(StringIO(string), strict=strict)", None),
        "simfile.ssc:SSCChart.from_str": ("OBJ", "OBJ._parse(parse_msd(string=string, ignore_stray_text=not strict))"),
        "simfile.sm:SMChart.from_str": ("OBJ", "OBJ._from_msd(string.split(':'))"),
        "simfile.sm:SMChart.from_msd": ("OBJ", "OBJ._from_msd(values)"),
    }
    for fq, (ret_w, call_w) in want.items():
        f = p.func(fq)
        seen = set()
        for s_ in tsums(ctx, f):
            k_, v_ = s_.terminal()
            obj = None
            for e in s_.effects:
                if e.kind == "bind" and isinstance(e.target, ast.Name) and isinstance(e.value, ast.Call) and not e.value.args and not e.value.keywords and isinstance(v_, ast.Name) and v_.id == e.target.id:
                    obj = e.target.id
            ret = "OBJ" if obj is not None else (ast.unparse(closed(s_, v_)) if v_ is not None else "None")
            if ret.startswith("load(") and "strict" not in ret:
                ret = ret
            calls_ = []
            for i, e in enumerate(s_.effects):
                if e.kind == "expr" and isinstance(e.value, ast.Call):
                    t = ast.unparse(closed(s_, e.value, i, keep=[obj] if obj else []))
                    if obj:
                        import re as _re
                        t = _re.sub(rf"\b{_re.escape(obj)}\b", "OBJ", t)
                    calls_.append(t)
            others = [e.text for e in s_.effects if e.kind in ("store", "aug", "delete", "raise")]
            conds = sorted(s_.plain_assign())
            seen.add((k_, ret, tuple(calls_), tuple(others), tuple(conds)))
        norm_ret = {(k, r.replace("strict=strict", "strict=strict"), c, o, cd) for k, r, c, o, cd in seen}
        good = norm_ret == {("return", ret_w, (call_w,) if call_w else (), (), ())} or (fq == "simfile:loads" and norm_ret == {("return", "load(StringIO(string), strict)", (), (), ())})
        ctx.expect("R-FWD", f, f"{f.qualname} hands the caller's text on unchanged" + (f": {call_w.replace('OBJ', 'new object')}" if call_w else f": {ret_w}"), good, str(sorted(seen))[:200],
                   f"{f.qualname} does {sorted(seen)}: a text that is cleaned up, cut or rebuilt before it is parsed is not the text the documented rules are applied to "
                   "(and differs from what the other entry points build from the same text)", node=f.node)
