"""
Loader entry points: format detection, stream rewinding, the single funnel to
the tokenizer (property C03), and the encoding chain (C05).
"""
from __future__ import annotations

import ast
from typing import Any, Dict, List, Optional, Set, Tuple

from ..cfg import CFG, PathEnumerator
from ..engine import AnalysisError, ClassInfo, External, FunctionInfo, body_walk, norm, src, walk_no_nested
from ..flow import cfg_node_of, inline, locals_of
from ..report import Ctx
from .callgraph import callgraph
from .common import (callee, callee_name, calls, ev, fact_eq_const, facts, for_loops, method_calls, one, parent, require, self_attr,
                     try_ev, typer, unparse_facts)

DETECT = "simfile:_detect_ssc"
LOAD = "simfile:load"
ENTRY_POINTS = [
    "simfile:loads", "simfile:load", "simfile:open", "simfile:open_with_detected_encoding", "simfile:mutate", "simfile.ssc:SSCChart.from_str",
]
TOKENIZER_CALLERS = {"simfile.base:BaseSimfile.__init__", "simfile.ssc:SSCChart.from_str", DETECT}


def rewind(ctx: Ctx) -> None:
    """R-REWIND: a caller-owned stream that was handed to the tokenizer is rewound before it is returned."""
    p = ctx.p
    fi = p.func(DETECT)
    cfg = ctx.cfg(fi)
    sp = fi.param_names()[0]  # the stream parameter
    consume_nodes: Set[int] = set()
    for c in calls(fi):
        if callee_name(ctx, fi, c).endswith("parse_msd"):
            for k in c.keywords:
                if k.arg == "file" and isinstance(k.value, ast.Name) and k.value.id == sp:
                    consume_nodes.add(cfg_node_of(cfg, fi, c))
    ctx.floor("in-place peeks of the caller's stream", len(consume_nodes), 1)
    seek_nodes: Set[int] = set()
    for c in method_calls(fi, "seek"):
        if isinstance(c.func.value, ast.Name) and c.func.value.id == sp and len(c.args) == 1 and try_ev(ctx, fi, c.args[0]) == 0:
            seek_nodes.add(cfg_node_of(cfg, fi, c))
    rebind_nodes: Set[int] = set()
    for b in locals_of(fi).b.get(sp, []):
        if b.kind != "param":
            rebind_nodes.add(cfg_node_of(cfg, fi, b.node))
    pe = PathEnumerator(cfg, atoms=True, follow_exc=True, limit=20000)
    total = 0
    bad_paths: List[List[int]] = []
    exempt = 0
    for r in pe.paths():
        if r.end != cfg.exit:
            continue
        total += 1
        state = "fresh"
        owned = True
        through_stop = False
        for n in r.nodes:
            node = cfg.nodes[n]
            if node.kind == "except":
                h = node.ast
                if isinstance(h, ast.ExceptHandler) and isinstance(h.type, ast.Name) and h.type.id == "StopIteration":
                    through_stop = True
            if n in rebind_nodes:
                owned = False
            if owned and n in consume_nodes:
                state = "consumed"
            if owned and n in seek_nodes and state == "consumed":
                state = "rewound"
        last = cfg.nodes[r.nodes[-2]] if len(r.nodes) >= 2 else None
        returns_stream = last is not None and isinstance(last.ast, ast.Return) and last.ast.value is not None and any(
            isinstance(x, ast.Name) and x.id == sp for x in ast.walk(last.ast.value))
        if owned and state == "consumed" and returns_stream:
            if through_stop:
                exempt += 1  # no parameter at all: re-reading from any position yields none either
            else:
                bad_paths.append(r.nodes)
    if bad_paths:
        path = bad_paths[0]
        assign = {k[1:]: v for k, v in {}.items()}
        ctx.bad("R-REWIND", fi, f"stream '{sp}' consumed by the peek is returned without seek(0)",
                f"{len(bad_paths)} of {total} enumerated paths hand the caller's stream on consumed: the simfile then loads empty",
                node=fi.node, path=cfg.describe_path(path))
    else:
        ctx.ok("R-REWIND", fi, f"stream '{sp}' consumed by the peek is rewound on every path that returns it",
               f"{total} paths (predicate atoms enumerated), {exempt} through the StopIteration exit (no parameter: exempt)", node=fi.node)
    ctx.floor("paths through _detect_ssc", total, 4)
    # the non-seekable branch works on a copy: the returned object is a fresh StringIO, never the consumed iterator
    tees = [c for c in calls(fi) if callee_name(ctx, fi, c).endswith("itertools.tee")]
    if tees:
        ctx.ok("R-REWIND", fi, "iterator input is duplicated with tee() before peeking", src(tees[0]), node=tees[0])


def dispatch(ctx: Ctx) -> None:
    """C03.6: suffix table, VERSION fallback, load's class choice."""
    p = ctx.p
    fi = p.func(DETECT)
    sp = fi.param_names()[0]
    found: Dict[str, Any] = {}
    for r in [n for n in body_walk(fi.node) if isinstance(n, ast.Return)]:
        fs = facts(ctx, fi, r)
        for atom, pol in fs:
            if pol and isinstance(atom, ast.Compare) and len(atom.ops) == 1 and isinstance(atom.ops[0], ast.Eq):
                c = try_ev(ctx, fi, atom.comparators[0])
                if isinstance(c, str) and isinstance(atom.left, ast.Name) and isinstance(r.value, ast.Tuple) and len(r.value.elts) == 2:
                    flag = try_ev(ctx, fi, r.value.elts[1])
                    found[c] = (flag, atom.left.id, r)
    ctx.expect("R-TABLE", fi, "suffix dispatch table == {ssc: SSC, sm: SM}", {k: v[0] for k, v in found.items()} == {"ssc": True, "sm": False},
               str({k: v[0] for k, v in found.items()}), f"suffix dispatch is {({k: v[0] for k, v in found.items()})}; documented: .ssc -> SSC, .sm -> SM", node=fi.node)
    for k, (flag, var, r) in found.items():
        e = inline(ast.Name(id=var, ctx=ast.Load()), fi)
        bs = locals_of(fi).b.get(var, [])
        srcs = [b.value for b in bs if b.value is not None]
        low = any(isinstance(n, ast.Call) and isinstance(n.func, ast.Attribute) and n.func.attr in ("lower", "casefold") for s in srcs for n in ast.walk(s))
        part = any(isinstance(n, ast.Call) and isinstance(n.func, ast.Attribute) and n.func.attr in ("rpartition", "rsplit", "splitext") for s in srcs for n in ast.walk(s))
        idx_ok = all((b.index is None) or b.index == (2,) or b.index == (1,) for b in bs)
        last = all(b.index == (2,) for b in bs if any(isinstance(n, ast.Call) and isinstance(n.func, ast.Attribute) and n.func.attr == "rpartition" for n in ast.walk(b.value)))
        ctx.expect("R-SYM", fi, f"suffix compared with '{k}' is lower-cased text after the last '.'", low and part and last, "",
                   f"suffix variable '{var}' is derived from {', '.join(src(s) for s in srcs)}", node=r)
    # fallback: first key upper-cased == VERSION
    rets = [n for n in body_walk(fi.node) if isinstance(n, ast.Return) and isinstance(n.value, ast.Tuple) and len(n.value.elts) == 2]
    fb = [r for r in rets if not isinstance(r.value.elts[1], ast.Constant)]
    r = one(fb, f"fallback return in {DETECT}")
    good = False
    for n in ast.walk(inline(r.value.elts[1], fi)):
        if isinstance(n, ast.Compare) and len(n.ops) == 1 and isinstance(n.ops[0], ast.Eq):
            l, rr = n.left, n.comparators[0]
            for a, b in ((l, rr), (rr, l)):
                if (isinstance(a, ast.Call) and isinstance(a.func, ast.Attribute) and a.func.attr == "upper" and isinstance(a.func.value, ast.Attribute)
                        and a.func.value.attr == "key" and try_ev(ctx, fi, b) == "VERSION"):
                    good = True
    ctx.expect("R-TABLE", fi, "fallback: first key upper-cased == 'VERSION'", good, src(r.value.elts[1]), f"fallback test is {src(r.value.elts[1])}", node=r)
    # the peeked parameter is the FIRST one: next(parser) exactly once
    nx = [c for c in calls(fi) if isinstance(c.func, ast.Name) and c.func.id == "next"]
    ctx.expect("R-TABLE", fi, "the peek reads exactly the first parameter", len(nx) == 1, f"{len(nx)} next() call(s)", f"{len(nx)} next() calls", node=fi.node)
    # empty stream -> SM
    for h in [n for n in body_walk(fi.node) if isinstance(n, ast.ExceptHandler)]:
        if isinstance(h.type, ast.Name) and h.type.id == "StopIteration":
            rr = [x for st in h.body for x in walk_no_nested(st) if isinstance(x, ast.Return)]
            ok = bool(rr) and isinstance(rr[0].value, ast.Tuple) and try_ev(ctx, fi, rr[0].value.elts[1]) is False
            ctx.expect("R-TABLE", fi, "a text without parameters is SM", ok, "", "", node=h)
    # load: class choice from the detection result
    fl = p.func(LOAD)
    loc = locals_of(fl)
    flag_names = [n for n, bs in loc.b.items() for b in bs if b.index == (1,) and isinstance(b.value, ast.Call) and callee_name(ctx, fl, b.value) == DETECT]
    file_names = [n for n, bs in loc.b.items() for b in bs if b.index == (0,) and isinstance(b.value, ast.Call) and callee_name(ctx, fl, b.value) == DETECT]
    flag = one(sorted(set(flag_names)), f"is_ssc flag unpacked from _detect_ssc in {LOAD}")
    choice = {}
    for r in [n for n in body_walk(fl.node) if isinstance(n, ast.Return)]:
        fs = facts(ctx, fl, r)
        pol = None
        for atom, po in fs:
            if isinstance(atom, ast.Name) and atom.id == flag:
                pol = po
        if isinstance(r.value, ast.Call):
            choice[pol] = (callee_name(ctx, fl, r.value), r)
    ctx.expect("R-TABLE", fl, "load: is_ssc -> SSCSimfile, else SMSimfile",
               {k: v[0] for k, v in choice.items()} == {True: "simfile.ssc.SSCSimfile", False: "simfile.sm.SMSimfile"},
               "", f"class choice is {({k: v[0] for k, v in choice.items()})}", node=fl.node)
    for pol, (name, r) in choice.items():
        kw = {k.arg: k.value for k in r.value.keywords}
        f_ok = "file" in kw and isinstance(kw["file"], ast.Name) and kw["file"].id in file_names
        ctx.expect("R-FWD", fl, f"{name.rsplit('.', 1)[-1]} parses the stream returned by the detection", f_ok, src(kw.get("file")) if "file" in kw else "",
                   f"file argument is {src(kw['file']) if 'file' in kw else 'absent'}; the detection may have replaced the stream by a re-readable copy", node=r)


def funnel(ctx: Ctx) -> None:
    """C03.7: who may call the tokenizer; every public loader reaches it only through the constructors."""
    p = ctx.p
    cg = callgraph(ctx)
    n = 0
    for f in p.nontest_functions():
        for call, name in cg.external_calls(f):
            if name.endswith("parse_msd"):
                n += 1
                ctx.expect("R-EFFECT", f, f"parse_msd call in {f.qualname}", f.fq in TOKENIZER_CALLERS, "",
                           f"{f.fq} tokenizes on its own: a second parsing path can diverge from the documented rules (allowed: {sorted(TOKENIZER_CALLERS)})", node=call)
    ctx.floor("tokenizer call sites", n, 4)
    base_init = "simfile.base:BaseSimfile.__init__"
    for ep in ENTRY_POINTS:
        f = p.func(ep)
        reach = cg.reach(f)
        target = base_init if ep != "simfile.ssc:SSCChart.from_str" else "simfile.ssc:SSCChart._parse"
        ctx.expect("R-FWD", f, f"{f.qualname} reaches {target.split(':')[1]}", target in reach, "",
                   f"{ep} no longer reaches {target} in the resolved call graph", node=f.node)
    # the constructors run the format's own _parse on the tokenizer's output
    bi = p.func(base_init)
    sn = bi.param_names()[0]
    pc = [c for c in method_calls(bi, "_parse") if isinstance(c.func.value, ast.Name) and c.func.value.id == sn]
    c = one(pc, "self._parse(...) call in BaseSimfile.__init__")
    a = inline(c.args[0], bi) if c.args else None
    ctx.expect("R-FWD", bi, "the constructor parses exactly the tokenizer's output", isinstance(a, ast.Call) and callee_name(ctx, bi, a).endswith("parse_msd"),
               src(a) if a is not None else "", "self._parse is not fed by parse_msd(...)", node=c)
    # file / string reach the tokenizer: string verbatim, file either as is or re-read completely
    for tc in [x for x in calls(bi) if callee_name(ctx, bi, x).endswith("parse_msd")]:
        kw = {k.arg: k.value for k in tc.keywords}
        ctx.expect("R-FWD", bi, "string= reaches the tokenizer unchanged", isinstance(kw.get("string"), ast.Name) and kw["string"].id == "string" and locals_of(bi).only_param("string"),
                   "", f"string argument is {src(kw['string']) if 'string' in kw else 'absent'}", node=tc)
        fv = kw.get("file")
        okf = False
        if isinstance(fv, ast.Name):
            vals = [b.value for b in locals_of(bi).b.get(fv.id, []) if b.kind == "assign"]
            okf = bool(vals)
            for v in vals:
                if isinstance(v, ast.Constant) and v.value is None:
                    continue
                if isinstance(v, ast.Name) and v.id == "file":
                    continue
                # StringIO("".join(file))
                if (isinstance(v, ast.Call) and callee_name(ctx, bi, v).endswith("StringIO") and len(v.args) == 1 and isinstance(v.args[0], ast.Call)
                        and isinstance(v.args[0].func, ast.Attribute) and v.args[0].func.attr == "join" and try_ev(ctx, bi, v.args[0].func.value) == ""
                        and len(v.args[0].args) == 1 and isinstance(v.args[0].args[0], ast.Name) and v.args[0].args[0].id == "file"):
                    continue
                okf = False
        ctx.expect("R-FWD", bi, "file= reaches the tokenizer as the stream itself or its complete text", okf, "", f"file argument is {src(fv) if fv is not None else 'absent'}", node=tc)
    # the parse happens whenever a source was given, also an empty string
    from ..decide import decisions, judge_table
    pset = {id(x) for x in pc}

    def outcome(d):
        for st in d.stmts():
            if any(id(n) in pset for n in ast.walk(st)):
                return "parse"
        return "skip"

    judge_table(ctx, "R-TABLE", bi, "parse runs iff file or string is given (is not None)", decisions(ctx, bi), ["file is None", "string is None"],
                lambda a: "skip" if (a["file is None"] and a["string is None"]) else "parse", outcome, dont_care=["file", "isinstance(file, TextIO)"])


def peek_copy(ctx: Ctx) -> None:
    """The non-seekable branch of the detection peeks at a complete copy and hands a complete, re-readable copy on."""
    from ..pat import match
    p = ctx.p
    fi = p.func(DETECT)
    sp = fi.param_names()[0]
    rebinds = [b for b in locals_of(fi).b.get(sp, []) if b.kind != "param"]
    n = 0
    for b in rebinds:
        n += 1
        v = b.value
        good = False
        if isinstance(v, ast.ListComp) and len(v.generators) == 1 and not v.generators[0].ifs:
            g = v.generators[0]
            m = match("StringIO(''.join($x))", v.elt)
            good = m is not None and isinstance(g.target, ast.Name) and ast.unparse(m["x"]) == g.target.id and isinstance(g.iter, ast.Call) \
                and callee_name(ctx, fi, g.iter).endswith("itertools.tee") and len(g.iter.args) == 1 and ast.unparse(g.iter.args[0]) == sp
        else:
            m = match("StringIO(''.join($x))", v) if v is not None else None
            good = m is not None
        fs = facts(ctx, fi, b.node)
        ctx.expect("R-REWIND", fi, "an iterator input is replaced by a StringIO of its complete text", good, src(v) if v is not None else "", f"{sp} is rebound to {src(v) if v is not None else '?'}: the loader would see a partial or consumed stream", node=b.node)
    ctx.floor("rebindings of the stream in _detect_ssc", n, 1)
    for c in calls(fi):
        if callee_name(ctx, fi, c).endswith("parse_msd"):
            kw = {k.arg: k.value for k in c.keywords}
            if "string" in kw:
                m = match("''.join($x)", inline(kw["string"], fi))
                okp = m is not None and isinstance(m["x"], ast.Name) and any(b.kind.startswith("unpack") or b.kind == "assign" for b in locals_of(fi).b.get(m["x"].id, []))
                ctx.expect("R-REWIND", fi, "the peek parses the complete text of the other copy", okp, src(kw["string"]), f"string={src(kw['string'])}", node=c)
