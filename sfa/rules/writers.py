"""
Writer rules on path effects (properties C01, C02, C04, C18): what BaseSimfile.serialize and SSCChart.serialize
write for one item, as decision tables over closed-form guards.  How the MSDParameter is assembled (directly,
through a components tuple, a helper, a conditional expression ...) does not matter; what reaches file.write does.
"""
from __future__ import annotations

import ast
from typing import Any, Dict, List, Optional, Sequence, Tuple

from ..decide import IGNORE, OneOf, key as ckey
from ..engine import AnalysisError, FunctionInfo
from ..peff import Eff, PathSummary
from ..report import Ctx
from .common import require, string_parts
from .tables import Dec, judge, root_name, sums_of, touches

BASE_SERIALIZE = "simfile.base:BaseSimfile.serialize"
SSCCHART_SERIALIZE = "simfile.ssc:SSCChart.serialize"


def _multi(ctx: Ctx) -> str:
    t = ctx.p.class_const("simfile.base.BaseSimfile", "MULTI_VALUE_PROPERTIES")
    return repr(tuple(sorted(t)))


def token(e: Eff, s: str, fp: str) -> Optional[str]:
    """What an effect contributes to the written text: 'param <components>' / 'blank' / 'charts' / 'raw <text>' / None (not a write)."""
    if e.kind != "expr" or not isinstance(e.value, ast.Call):
        if e.kind in ("break", "return", "raise"):
            return e.kind
        return None
    c = e.value
    f = c.func
    if isinstance(f, ast.Attribute) and f.attr == "write" and isinstance(f.value, ast.Name) and f.value.id == fp and len(c.args) == 1 and not c.keywords:
        parts = string_parts(c.args[0])
        if parts is None:
            return f"raw {ast.unparse(c.args[0])}"
        lit = "".join(x for k, x in parts if k == "lit")
        exprs = [x for k, x in parts if k != "lit"]
        if lit.strip() != "" or any(k == "fmt" for k, _ in parts):
            return f"raw {ast.unparse(c.args[0])}"
        if not exprs:
            return "blank" if "\n" in lit else f"raw {ast.unparse(c.args[0])}"
        if len(exprs) == 1 and isinstance(exprs[0], ast.Call) and isinstance(exprs[0].func, ast.Name) and exprs[0].func.id == "MSDParameter" and len(exprs[0].args) == 1 and not exprs[0].keywords:
            return "param " + ast.unparse(exprs[0].args[0]) + (" + blank line" if lit.count("\n") >= 2 else "")
        return f"raw {ast.unparse(c.args[0])}"
    if isinstance(f, ast.Attribute) and f.attr == "serialize" and len(c.args) == 1 and isinstance(c.args[0], ast.Name) and c.args[0].id == fp:
        return f"serialize {ast.unparse(f.value)}"
    if any(isinstance(n, ast.Name) and n.id == fp for n in ast.walk(c)):
        return f"other {ast.unparse(c)}"
    return None


def _plain_iter(e: Optional[ast.AST]) -> str:
    """The iterable with order-preserving copies stripped: list(x) / tuple(x) / iter(x) walk x."""
    while isinstance(e, ast.Call) and isinstance(e.func, ast.Name) and e.func.id in ("list", "tuple", "iter") and len(e.args) == 1 and not e.keywords:
        e = e.args[0]
    return ast.unparse(e) if e is not None else ""


def _items_loop(fi: FunctionInfo, sums: Sequence[PathSummary]) -> Tuple[str, str, int]:
    s = fi.param_names()[0]
    found = set()
    for sm in sums:
        for e in sm.effects:
            if e.kind == "for" and _plain_iter(e.value) == f"{s}.items()" and isinstance(e.target, ast.Tuple) and len(e.target.elts) == 2 and all(isinstance(x, ast.Name) for x in e.target.elts):
                found.add((e.target.elts[0].id, e.target.elts[1].id, e.line))
    if not found:
        # the items are walked through something else: sorted(self.items(), ..), reversed(..), a filtered / re-ordered copy
        for sm in sums:
            for e in sm.effects:
                if e.kind == "for" and isinstance(e.value, ast.AST) and any(isinstance(n, ast.Call) and ast.unparse(n) == f"{s}.items()" for n in ast.walk(e.value)):
                    raise OrderViolation(f"the serializer walks {ast.unparse(e.value)[:100]} instead of {s}.items() itself: the properties are no longer written in the mapping's own order "
                                         "(or not all of them), so the text does not load back with the same keys in the same order")
    require(len(found) == 1, f"{fi.fq}: expected one 'for key, value in self.items()' loop, found {sorted(found)}")
    return next(iter(found))


class OrderViolation(Exception):
    pass


def _item_forms(k: str, v: str, a: Dict[str, bool], VN: str, MULTI: str) -> str:
    if a[VN]:
        return f"param ({k},)"
    if a[MULTI]:
        return f"param ({k}, *{v}.split(':'))"
    return f"param ({k}, {v})"


def base_items(ctx: Ctx) -> None:
    """C01.3-5 / C02.3,5 / C04: every item of the simfile mapping is written as one MSD parameter - key only for None, split on ':' for
    ATTACKS/DISPLAYBPM, one escaped component otherwise; then a blank line; then the charts."""
    fi = ctx.p.func(BASE_SERIALIZE)
    sums = sums_of(ctx, fi)
    s, fp = fi.param_names()[:2]
    try:
        k, v, line = _items_loop(fi, sums)
    except OrderViolation as ex:
        ctx.bad("R-ORDER", fi, "every item of the mapping is written, in the mapping's own order", str(ex), node=fi.node)
        return
    VN, MULTI = f"{v} is None", f"{k} in {_multi(ctx)}"
    decs = []
    for sm in sums:
        if not any(e.kind == "for" and e.line == line for e in sm.effects):
            continue
        toks = tuple(t for t in (token(e, s, fp) for e in sm.effects if line in e.loops) if t is not None)
        decs.append(Dec(dict(sm.atoms_in(line)), toks, sm))
    ctx.floor("paths through the item loop of BaseSimfile.serialize", len(decs), 1)
    judge(ctx, "R-NULL", fi, "every item is written as one MSD parameter: (key,) exactly for a None value, (key, *value.split(':')) exactly for ATTACKS/DISPLAYBPM, (key, value) otherwise - "
          "built by MSDParameter, followed by whitespace only", decs, [VN, MULTI], lambda a: (_item_forms(k, v, a, VN, MULTI),),
          why="a None value has no text; multi-value keys must come back as the same ':'-joined value; everything else is one escaped component; stray text would break a strict load")
    # after the items: blank line, then the charts; nothing else is written
    tails = set()
    for sm in sums:
        idx = next((i for i, e in enumerate(sm.effects) if e.kind == "for" and e.line == line), None)
        pre = tuple(t for t in (token(e, s, fp) for e in (sm.effects[:idx] if idx is not None else [])) if t is not None)
        post = tuple(t for t in (token(e, s, fp) for e in sm.effects[(idx + 1 if idx is not None else 0):] if not e.loops) if t is not None)
        tails.add((pre, post))
    want = {((), ("blank", f"serialize {s}.charts"))}
    ctx.expect("R-ORDER", fi, "layout: the properties, a blank line, then the charts (in that order, on every path)", tails == want, str(sorted(tails)), f"around the item loop the serializer writes {sorted(tails)}", node=fi.node)


def ssc_chart_items(ctx: Ctx, judge_skip_only: bool = False) -> None:
    """C02.1-3,5 / C04.1 / C18.5: NOTEDATA first; every item except the notes item (recognised by key) as in the simfile; the notes item last."""
    p = ctx.p
    fi = p.func(SSCCHART_SERIALIZE)
    sums = sums_of(ctx, fi)
    s, fp = fi.param_names()[:2]
    try:
        k, v, line = _items_loop(fi, sums)
    except OrderViolation as ex:
        ctx.bad("R-ORDER", fi, "every item of the chart is written, in the mapping's own order", str(ex), node=fi.node)
        return
    d = p.descriptors(p.cls("simfile.ssc.SSCChart")).get("notes")
    require(d is not None, "SSCChart.notes descriptor not found")
    ctx.expect("R-TABLE", p.cls("simfile.ssc.SSCChart"), "SSCChart.notes is NOTES with alias NOTES2", (d.key, d.alias) == ("NOTES", "NOTES2"), repr(d), f"declaration is {d!r}; the format's note data keys are NOTES / NOTES2")
    NAME, ALIAS = d.key, d.alias or "NOTES2"
    A, B = f"'{NAME}' in {s}", f"'{ALIAS}' in {s}"
    K1, K2 = f"{k} == '{NAME}'", f"{k} == '{ALIAS}'"
    VN, MULTI = f"{v} is None", f"{k} in {_multi(ctx)}"
    N1, N2 = f"{s}['{NAME}'] is None", f"{s}['{ALIAS}'] is None"

    def chosen(a):
        return ALIAS if (not a[A] and a[B]) else NAME

    def spec_loop(a):
        nk = chosen(a)
        is_notes = a[K1] if nk == NAME else a[K2]
        if a[K1] and a[K2]:
            return IGNORE
        if is_notes:
            return ()
        return (_item_forms(k, v, a, VN, MULTI),)

    decs, pre_post = [], []
    for sm in sums:
        idx = next((i for i, e in enumerate(sm.effects) if e.kind == "for" and e.line == line), None)
        asg = dict(sm.plain_assign())
        if idx is not None:
            toks = tuple(t for t in (token(e, s, fp) for e in sm.effects if line in e.loops) if t is not None)
            decs.append(Dec(asg, toks, sm))
        pre = tuple(t for t in (token(e, s, fp) for e in (sm.effects[:idx] if idx is not None else [])) if t is not None)
        if idx is None:
            # no item at all: everything is 'before or after'
            allt = tuple(t for t in (token(e, s, fp) for e in sm.effects) if t is not None)
            pre, post = allt[:1], allt[1:]
        else:
            post = tuple(t for t in (token(e, s, fp) for e in sm.effects[idx + 1:] if not e.loops) if t is not None)
        pre_post.append(Dec(asg, (pre, post), sm))
    ctx.floor("paths through the item loop of SSCChart.serialize", len(decs), 1)
    atoms_loop = [A, B, K1, K2, VN, MULTI]
    judge(ctx, "R-IDENT", fi, "the notes item (NOTES, or NOTES2 exactly when NOTES is absent and NOTES2 present) is recognised by its key and is the only item skipped in the loop; "
          "every other item is written as in the simfile", decs, atoms_loop, spec_loop, dont_care=[N1, N2],
          why="a test on the value drops every property whose value equals the note data; skipping any other key loses it from the text")
    if judge_skip_only:
        return

    def spec_frame(a):
        nk = chosen(a)
        nn = a[N1] if nk == NAME else a[N2]
        last = f"param ('{nk}',) + blank line" if nn else f"param ('{nk}', {s}['{nk}']) + blank line"
        return (("param ('NOTEDATA', '')",), (last,))

    judge(ctx, "R-ORDER", fi, "NOTEDATA is written first and the notes item last (key only when its value is None), each followed by whitespace only", pre_post, [A, B, N1, N2], spec_frame,
          dont_care=[K1, K2, VN, MULTI], why="the reader opens a chart at NOTEDATA and stops at the notes item")


CHARTS_SERIALIZE = "simfile.base:BaseCharts.serialize"


def charts_items(ctx: Ctx) -> None:
    """Every element of the chart list is written by its own serialize(file) (which fails loudly for anything that is not a chart), followed by
    whitespace only; elements in list order, none skipped."""
    fi = ctx.p.func(CHARTS_SERIALIZE)
    sums = sums_of(ctx, fi)
    s, fp = fi.param_names()[:2]
    loops = {(e.line, ast.unparse(e.value), ast.unparse(e.target)) for sm in sums for e in sm.effects if e.kind == "for"}
    require(len(loops) == 1, f"{fi.fq}: expected one loop over the chart list, found {sorted(loops)}")
    line, it, x = next(iter(loops))
    ctx.expect("R-ORDER", fi, "the chart list itself is walked (list order)", it == s, it, f"the loop iterates {it}, not the list itself: chart order / membership would change")
    n = 0
    for sm in sums:
        if not any(e.kind == "for" and e.line == line for e in sm.effects):
            continue
        n += 1
        toks = tuple(t for t in (token(e, s, fp) for e in sm.effects if line in e.loops) if t is not None)
        outside = tuple(t for t in (token(e, s, fp) for e in sm.effects if not e.loops) if t not in (None, "return"))
        conds = sorted(dict(sm.atoms_in(line)))
        good = toks == (f"serialize {x}", "blank") and not conds and not outside
        ctx.expect("R-ORDER", fi, "each chart is written by chart.serialize(file) and followed by a line break; unconditionally, nothing else is written", good, str(toks),
                   f"per element the chart list writes {toks} under {conds or 'no condition'} (outside the loop: {outside}): formatting an element (str / f-string) instead of calling its serialize() "
                   "turns a non-chart in the list into text instead of an error, and a skipped chart is lost", node=fi.node)
    ctx.floor("paths through the chart loop of BaseCharts.serialize", n, 1)
