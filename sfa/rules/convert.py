"""
SM <-> SSC conversion rules (properties C16, C17).
"""
from __future__ import annotations

import ast
import re
from typing import Any, Dict, List, Optional, Set, Tuple

from ..engine import AnalysisError, ClassInfo, ClassRef, DefaultDictVal, EnumVal, External, FunctionInfo, body_walk, norm, src, walk_no_nested
from ..flow import cfg_node_of, inline, locals_of
from ..pat import find, match, matches
from ..report import Ctx
from .callgraph import callgraph
from .common import (callee, callee_name, calls, facts, for_loops, in_body, loop_must_pass, method_calls, one, parent, require, self_attr,
                     try_ev, unparse_facts)

CV = "simfile.convert"
SPEC_DEFAULTS = {"TIMESIGNATURES": "0.000=4=4", "TICKCOUNTS": "0.000=4", "COMBOS": "0.000=1", "SPEEDS": "0.000=1.000=0.000=0", "SCROLLS": "0.000=1.000", "LABELS": "0.000=Song Start"}
SPEC_BEHAVIORS = {"SSC_VERSION": "IGNORE", "METADATA": "IGNORE", "FILE_PATH": "IGNORE", "GAMEPLAY_EVENT": "ERROR_UNLESS_DEFAULT", "TIMING_DATA": "ERROR_UNLESS_DEFAULT"}
ALLOWED_RAISES = {"InvalidPropertyException", "NotImplementedError"}


def blank_pairs(ctx: Ctx, cls_fq: str) -> Dict[str, str]:
    """#KEY:VALUE; pairs of the string literal in <cls>.blank() (no escapes or comments allowed)."""
    ci = ctx.p.cls(cls_fq)
    f = ci.methods.get("blank")
    require(f is not None, f"{cls_fq}.blank not found")
    lits = [n.value for n in body_walk(f.node) if isinstance(n, ast.Constant) and isinstance(n.value, str) and "#" in n.value]
    text = one(lits, f"template literal in {cls_fq}.blank")
    if "\\" in text or "//" in text:
        raise AnalysisError(f"{cls_fq}.blank: template contains an escape or a comment - the literal scanner does not handle it")
    out: Dict[str, str] = {}
    for m in re.finditer(r"#([^:;#]+)(?::([^;]*))?;", text):
        out[m.group(1).strip().upper()] = (m.group(2) or "").strip() if ":" in m.group(0) else ""
    return out


def alias_rule(ctx: Ctx, src_cls: str, dst_cls: str) -> None:
    """R-ALIAS: every aliased item property of the source class resolves to the same key/alias pair on the target class."""
    p = ctx.p
    sd, dd = p.descriptors(p.cls(src_cls)), p.descriptors(p.cls(dst_cls))
    n = 0
    for attr, d in sorted(sd.items()):
        if not d.alias:
            continue
        n += 1
        t = dd.get(attr)
        ok = t is not None and t.key == d.key and t.alias == d.alias
        ctx.expect("R-ALIAS", p.cls(src_cls), f"alias={src_cls.rsplit('.', 1)[-1]}.{attr}/{d.alias}", ok, f"{dst_cls.rsplit('.', 1)[-1]}.{attr} is {t!r}",
                   f"{src_cls.rsplit('.', 1)[-1]}.{attr} reads {d.key} or its alias {d.alias}; the conversion copies the key {d.alias} verbatim, but "
                   f"{dst_cls.rsplit('.', 1)[-1]}.{attr} ({t!r}) does not look under {d.alias}: the value is invisible to the target's attribute and timing readers",
                   node=p.cls(src_cls).node)
    ctx.floor(f"aliased properties of {src_cls}", n, 1)


def _not_fresh(ctx: Ctx, fi: FunctionInfo, e: ast.expr, depth: int = 3) -> Optional[str]:
    """None when *e* certainly evaluates to an object nobody else holds; otherwise the reason."""
    if isinstance(e, ast.Call):
        if isinstance(e.func, ast.Attribute) and e.func.attr == "blank" and not e.args:
            return None
        nm = callee_name(ctx, fi, e)
        if nm.endswith("copy.deepcopy") or (isinstance(e.func, ast.Name) and e.func.id == "deepcopy"):
            return None
        g = callee(ctx, fi, e)
        if isinstance(g, ClassInfo):
            return None
        if isinstance(g, FunctionInfo) and depth > 0:
            ctx.seen_through.add(g.name)  # this rule reads the helper's body itself: the helper is not an opaque construct for its verdict
            rets = [r for r in body_walk(g.node) if isinstance(r, ast.Return)]
            if not rets:
                return f"{g.qualname}() returns nothing"
            for r in rets:
                if r.value is None:
                    return f"{g.qualname}() may return None"
                w = _not_fresh(ctx, g, inline(r.value, g), depth - 1)
                if w is not None:
                    return f"{g.qualname}() returns {src(r.value, 60)}: {w}"
            return None
        if nm.endswith("copy.copy") or (isinstance(e.func, ast.Name) and e.func.id == "copy"):
            return "a shallow copy shares its mutable parts (the chart list, nested values) with the object it was copied from"
        return f"{src(e, 60)} is not known to create a new object"
    if isinstance(e, ast.Subscript):
        return f"{src(e, 60)} is an object kept in a table: every caller gets (and changes) the same one"
    return f"{src(e, 60)} is not a newly created object"


def purity(ctx: Ctx) -> None:
    """R-PURE: the converter writes only to objects it created; parameters are never mutated or stored into the result."""
    p = ctx.p
    cv = p.func(f"{CV}:_convert")
    cp = p.func(f"{CV}:_copy_properties")
    loc = locals_of(cv)
    fresh: Dict[str, ast.AST] = {}
    for name, bs in loc.b.items():
        for b in bs:
            if b.kind == "assign" and match("deepcopy($t) or $c.blank()", b.value) is not None:
                fresh[name] = b.value
            elif b.kind == "assign" and match("deepcopy($t) or $x", b.value) is not None:
                why = _not_fresh(ctx, cv, match("deepcopy($t) or $x", b.value)["x"])
                if why is None:
                    fresh[name] = b.value
                else:
                    fresh[name] = b.value
                    ctx.bad("R-PURE", cv, f"{name} is a deep copy of the caller's template or a fresh blank()", f"{name} = {src(b.value)}: {why}", node=b.value)
            elif b.kind == "assign" and match("$t or $c.blank()", b.value) is not None:
                ctx.bad("R-PURE", cv, f"{name} is a deep copy of the caller's template or a fresh blank()", f"{name} = {src(b.value)}: the caller's template object itself is written to "
                        "(and shared between results)", node=b.value)
    for _ in range(3):  # aliases of a fresh object (x = fresh) are fresh too
        for name, bs in loc.b.items():
            if name not in fresh and len(bs) == 1 and bs[0].kind == "assign" and isinstance(bs[0].value, ast.Name) and bs[0].value.id in fresh:
                fresh[name] = fresh[bs[0].value.id]
    ctx.floor("fresh result objects in _convert", len(fresh), 2)
    if any(match("deepcopy($t) or $c.blank()", v) is None for v in fresh.values()):
        if any(i.rule == "R-PURE" and i.verdict == "violation" for i in ctx.instances):
            return  # already reported: a result object that is not newly created
        raise AnalysisError(f"{cv.fq}: a result object is created in a way that is not 'deepcopy(template) or <type>.blank()'")
    for name, v in fresh.items():
        m = match("deepcopy($t) or $c.blank()", v)
        if m is None:
            continue  # judged above (the second operand is not a plain blank())
        t, c = m["t"], m["c"]
        okt = isinstance(t, ast.Name) and t.id in cv.param_names() and t.id.endswith("template") and loc.only_param(t.id)
        okc = isinstance(c, ast.Name) and c.id in cv.param_names() and c.id.endswith("type")
        single = len(loc.b.get(name, [])) == 1
        ctx.expect("R-PURE", cv, f"{name} is a deep copy of the caller's template or a fresh blank()", okt and okc and single, src(v), f"{name} = {src(v)}", node=v) if not (
            len(loc.b.get(name, [])) == 1 and isinstance(loc.b[name][0].value, ast.Name)) else None
    # template/type agreement: simfile template with simfile type, chart with chart
    for name, v in fresh.items():
        m = match("deepcopy($t) or $c.blank()", v)
        if m is None:
            continue
        kind_t = "simfile" if "simfile" in ast.unparse(m["t"]) else "chart"
        kind_c = "simfile" if "simfile" in ast.unparse(m["c"]) else "chart"
        ctx.expect("R-TABLE", cv, f"{name}: template and blank() are of the same kind", kind_t == kind_c, "", f"{src(v)}", node=v)
    # the chart object is created per chart (inside the chart loop)
    loops = [lp for lp in for_loops(cv) if any(matches("$s.charts", n) and isinstance(n.value, ast.Name) and n.value.id == cv.param_names()[0] for n in ast.walk(lp.iter))]
    lp = one(loops, "loop over simfile.charts in _convert")
    ctx.expect("R-ORDER", cv, "the chart loop walks the source's whole chart list in order", matches("$s.charts", lp.iter), src(lp.iter), f"the loop iterates {src(lp.iter)}", node=lp)
    chart_fresh = [n for n, v in fresh.items() if "chart" in ast.unparse((match("deepcopy($t) or $c.blank()", v) or {"c": match("deepcopy($t) or $x", v)["x"]})["c"])]
    for n in chart_fresh:
        b = loc.b[n][0]
        if isinstance(b.value, ast.Name):
            continue  # an alias; the object itself is judged under its own name
        ctx.expect("R-PURE", cv, "a new output chart is created for every source chart", in_body(lp, b.node), "", f"{n} is created outside the chart loop: all charts would share one object", node=b.node)
    # calls of _copy_properties: source is the parameter / loop element, output a fresh object
    cps = [c for c in calls(cv) if callee(ctx, cv, c) is cp]
    ctx.floor("_copy_properties call sites", len(cps), 2)
    loopvars = set()
    for name, bs in loc.b.items():
        for b in bs:
            if b.kind == "for" and b.node is lp:
                loopvars.add(name)
            if b.kind == "assign" and isinstance(b.value, ast.Name) and b.value.id in loopvars | {lp.target.id if isinstance(lp.target, ast.Name) else ""}:
                loopvars.add(name)
    for name, bs in loc.b.items():
        for b in bs:
            if b.kind == "assign" and isinstance(b.value, ast.Name) and b.value.id in loopvars:
                loopvars.add(name)
    for c in cps:
        kw = {k.arg: k.value for k in c.keywords}
        for i, a in enumerate(c.args):
            kw[cp.param_names()[i]] = a
        s_, o_, t_ = kw.get("source"), kw.get("output"), kw.get("output_type")
        in_loop = in_body(lp, c)
        oks = isinstance(s_, ast.Name) and ((not in_loop and s_.id == cv.param_names()[0]) or (in_loop and s_.id in loopvars))
        oko = isinstance(o_, ast.Name) and o_.id in fresh and (("chart" in o_.id) == in_loop or True)
        kind = "chart" if in_loop else "simfile"
        okk = isinstance(o_, ast.Name) and o_.id in fresh and (kind in ast.unparse(match("deepcopy($t) or $c.blank()", fresh[o_.id])["c"]))
        okt = isinstance(t_, ast.Name) and isinstance(o_, ast.Name) and o_.id in fresh and ast.unparse(match("deepcopy($t) or $c.blank()", fresh[o_.id])["c"]) == t_.id
        ctx.expect("R-PURE", cv, f"{kind} properties are copied from the source {kind} into the fresh {kind}", oks and oko and okk, "", f"{src(c, 160)}", node=c)
        ctx.expect("R-TABLE", cv, f"the invalid-property table is looked up for the {kind}'s own output type", okt, "", f"output_type={src(t_) if t_ is not None else 'absent'}", node=c)
    # appended chart is the fresh one, once per iteration
    aps = [c for c in method_calls(cv, "append") if matches("$o.charts.append($c)", c)]
    ap = one(aps, "output.charts.append(...) in _convert")
    m = match("$o.charts.append($c)", ap)
    oka = isinstance(m["o"], ast.Name) and m["o"].id in fresh and isinstance(m["c"], ast.Name) and m["c"].id in chart_fresh and in_body(lp, ap)
    cfg = ctx.cfg(cv)
    skips = [n for st in lp.body for n in walk_no_nested(st) if isinstance(n, (ast.Continue, ast.Break, ast.Return))]
    ctx.expect("R-ORDER", cv, "every chart is converted and appended, in order", oka and not skips and loop_must_pass(cfg, lp, [cfg_node_of(cfg, cv, ap)]) is None, "",
               "a chart can be skipped, or the appended object is not the fresh chart", node=lp)
    # after the property copy of that chart
    for c in cps:
        if in_body(lp, c):
            ctx.expect("R-ORDER", cv, "a chart is appended after its properties were copied", cfg.dominates(cfg_node_of(cfg, cv, c), cfg_node_of(cfg, cv, ap)), "", "", node=ap)
    rets = [r for r in body_walk(cv.node) if isinstance(r, ast.Return)]
    okr = len(rets) == 1 and any(isinstance(n, ast.Name) and n.id in fresh and n.id not in chart_fresh for n in ast.walk(rets[0].value))
    ctx.expect("R-PURE", cv, "the result is the fresh simfile", okr, "", "", node=cv.node)
    # parameters are never mutated
    for f in (cv, cp, p.func(f"{CV}:_convert_warps"), p.func(f"{CV}:_should_copy_property")):
        protected = {q for q in f.param_names() if q in ("simfile", "source", "simfile_template", "chart_template", "ssc_simfile", "sm_simfile", "invalid_property_behaviors", "invalid_properties")}
        bad = []
        for n in body_walk(f.node):
            if isinstance(n, (ast.Assign, ast.AugAssign, ast.Delete)):
                tgts = n.targets if isinstance(n, (ast.Assign, ast.Delete)) else [n.target]
                for t in tgts:
                    root = t
                    while isinstance(root, (ast.Subscript, ast.Attribute)):
                        root = root.value
                    if isinstance(t, (ast.Subscript, ast.Attribute)) and isinstance(root, ast.Name) and root.id in protected:
                        bad.append(src(n))
            if isinstance(n, ast.Call) and isinstance(n.func, ast.Attribute) and n.func.attr in (
                    "append", "extend", "insert", "pop", "popitem", "clear", "update", "setdefault", "remove", "sort", "reverse", "move_to_end", "__setitem__", "__delitem__"):
                root = n.func.value
                while isinstance(root, (ast.Subscript, ast.Attribute)):
                    root = root.value
                if isinstance(root, ast.Name) and root.id in protected:
                    bad.append(src(n))
        ctx.expect("R-PURE", f, f"{f.qualname} does not mutate its source / templates / policy", not bad, "", f"mutations of parameters: {bad}", node=f.node)
    # _copy_properties: the only store is output[k] = v for (k, v) of source.items(), under the policy test
    stores = [n for n in body_walk(cp.node) if isinstance(n, ast.Assign) and isinstance(n.targets[0], ast.Subscript)]
    st = one(stores, "store in _copy_properties")
    lps = [l for l in for_loops(cp) if matches("$s.items()", l.iter) and isinstance(l.target, ast.Tuple) and len(l.target.elts) == 2]
    l = one(lps, "loop over source.items() in _copy_properties")
    k, v = [e.id for e in l.target.elts]
    oks = matches("$o[$k] = $v", st, k=k, v=v) if False else (isinstance(st.targets[0].value, ast.Name) and st.targets[0].value.id == "output" and isinstance(st.targets[0].slice, ast.Name)
                                                                  and st.targets[0].slice.id == k and isinstance(st.value, ast.Name) and st.value.id == v)
    oks = oks and isinstance(l.iter.func.value, ast.Name) and l.iter.func.value.id == "source"
    # the loop's key / value names must still hold the source's key / value at the store: not re-bound inside the loop
    rebound_kv = sorted({n.id for st_ in l.body for n in walk_no_nested(st_) if isinstance(n, ast.Name) and isinstance(n.ctx, (ast.Store, ast.Del)) and n.id in (k, v)})
    if rebound_kv:
        ctx.bad("R-PURE", cp, "each property is copied under its own key with its own (immutable str) value", f"{rebound_kv} (the source's key / value) re-bound inside the loop before the store: "
                "the property is stored under another key (or with another value) than the source has it", node=st)
        oks = True  # reported above with the precise reason
    ctx.expect("R-PURE", cp, "each property is copied under its own key with its own (immutable str) value", oks, src(st), f"{src(st)}", node=st)
    fs = facts(ctx, cp, st)
    sc = p.func(f"{CV}:_should_copy_property")
    pol_calls = [(a, pol) for a, pol in fs if isinstance(a, ast.Call) and callee(ctx, cp, a) is sc]
    from ..flow import call_args as _ca
    okg = len(pol_calls) == 1 and pol_calls[0][1] is True and all(isinstance(a, ast.Name) or (a is pol_calls[0][0]) for a, pol in fs) and all(pol for a, pol in fs)
    if okg:
        am = _ca(pol_calls[0][0], sc)
        okg = [ast.unparse(am.get(q)) if am.get(q) is not None else None for q in sc.param_names()[:2]] == [k, v]
        fs = [(pol_calls[0][0], True)]
    ctx.expect("R-TABLE", cp, "a property is copied exactly when the policy says so", okg, unparse_facts(fs), f"store guarded by {unparse_facts(fs)}", node=st)
    _am = _ca(fs[0][0], sc) if okg else {}
    ipn = _am[sc.param_names()[2]].id if okg and isinstance(_am.get(sc.param_names()[2]), ast.Name) else "invalid_properties"
    ip = [b for b in locals_of(cp).b.get(ipn, []) if b.kind == "assign"]
    oki = len(ip) == 1 and matches("INVALID_PROPERTIES.get(output_type, {})", ip[0].value)
    ctx.expect("R-TABLE", cp, "the invalid-property table is the one of the output type", oki, "", f"{src(ip[0].value) if ip else ''}", node=cp.node)
    skips = [n for st_ in l.body for n in walk_no_nested(st_) if isinstance(n, (ast.Break, ast.Return))]
    for cont in [n for st_ in l.body for n in walk_no_nested(st_) if isinstance(n, ast.Continue)]:
        cf = facts(ctx, cp, cont)
        if not (any(isinstance(a, ast.Call) and callee(ctx, cp, a) is sc and pol is False for a, pol in cf) and all(isinstance(a, (ast.Name, ast.Call)) for a, pol in cf)):
            skips.append(cont)
    ctx.expect("R-ORDER", cp, "every source property is considered", not skips, "", "", node=l)


MUTATORS = ("append", "extend", "insert", "pop", "popitem", "clear", "update", "setdefault", "remove", "sort", "reverse", "move_to_end", "__setitem__", "__delitem__", "add", "discard")


def global_tables_immutable(ctx: Ctx, modules=("simfile.convert",)) -> None:
    """R-PURE: a module-level table (or a local alias of one) is never the receiver of a store or a mutating call."""
    p = ctx.p
    n = 0
    for f in p.nontest_functions():
        if f.module.name not in modules:
            continue
        mod = f.module
        tables = {name for name, node in mod.top.items() if isinstance(node, (ast.Assign, ast.AnnAssign)) and isinstance(node.value, (ast.Dict, ast.List, ast.Set, ast.Call))
                  and not isinstance(node.value, ast.Call) or (isinstance(node, (ast.Assign, ast.AnnAssign)) and isinstance(node.value, ast.Call)
                                                                and ast.unparse(node.value.func) in ("defaultdict", "dict", "list", "set", "OrderedDict"))}
        loc = locals_of(f)
        alias = {}
        for name, bs in loc.b.items():
            for b in bs:
                if b.kind == "assign" and isinstance(b.value, ast.Name) and b.value.id in tables and b.value.id not in loc.b:
                    alias[name] = b.value.id
        bad = []
        for node in body_walk(f.node):
            root = None
            what = None
            if isinstance(node, ast.Call) and isinstance(node.func, ast.Attribute) and node.func.attr in MUTATORS:
                root, what = node.func.value, src(node, 80)
            elif isinstance(node, (ast.Assign, ast.AugAssign, ast.Delete)):
                for t in (node.targets if isinstance(node, (ast.Assign, ast.Delete)) else [node.target]):
                    if isinstance(t, ast.Subscript):
                        root, what = t.value, src(node, 80)
            if root is None:
                continue
            while isinstance(root, (ast.Subscript, ast.Attribute)):
                root = root.value
            if isinstance(root, ast.Name) and ((root.id in tables and root.id not in loc.b) or root.id in alias):
                bad.append(f"{what} mutates {alias.get(root.id, root.id)}")
        n += 1
        ctx.expect("R-PURE", f, f"{f.qualname} leaves the module-level tables untouched", not bad, "", "; ".join(bad) +
                   ": the change persists into every later call (a caller's overrides leak into the defaults)", node=f.node)
    ctx.floor("functions checked for table mutation", n, 6)


def ssc_target_tables(ctx: Ctx, direction: str = "both") -> None:
    """C16.3: nothing is invalid when the target is SSC."""
    inv = ctx.p.const(CV, "INVALID_PROPERTIES")
    for cls in (("simfile.ssc.SSCSimfile", "simfile.ssc.SSCChart") if direction in ("both", "sm_to_ssc") else ()):
        e = inv.get(ClassRef(cls))
        ctx.expect("R-TABLE", (CV, ""), f"INVALID_PROPERTIES[{cls.rsplit('.', 1)[-1]}] is empty", e == {}, str(e), f"{e}: properties would be dropped or refused on the way to SSC")
    if direction in ("both", "sm_to_ssc"):
        f = ctx.p.func(f"{CV}:sm_to_ssc")
        cc = [c for c in calls(f) if callee_name(ctx, f, c) == f"{CV}:_convert"]
        c = one(cc, "_convert call in sm_to_ssc")
        kw = {k.arg: ast.unparse(k.value) for k in c.keywords}
        ok = kw.get("output_simfile_type") == "SSCSimfile" and kw.get("output_chart_type") == "SSCChart" and kw.get("simfile") == f.param_names()[0]
        ctx.expect("R-TABLE", f, "sm_to_ssc converts its argument to SSCSimfile / SSCChart", ok, "", str(kw), node=c)
    if direction == "sm_to_ssc":
        return
    f2 = ctx.p.func(f"{CV}:ssc_to_sm")
    cc = [c for c in calls(f2) if callee_name(ctx, f2, c) == f"{CV}:_convert"]
    c = one(cc, "_convert call in ssc_to_sm")
    kw = {k.arg: ast.unparse(k.value) for k in c.keywords}
    ok = kw.get("output_simfile_type") == "SMSimfile" and kw.get("output_chart_type") == "SMChart" and kw.get("simfile") == f2.param_names()[0]
    ctx.expect("R-TABLE", f2, "ssc_to_sm converts its argument to SMSimfile / SMChart", ok, "", str(kw), node=c)


def warps_first(ctx: Ctx, direction: str = "both") -> None:
    """C16.4 / C17.5: the warp check dominates every copy; negative BPMs and stops are refused."""
    p = ctx.p
    cv = p.func(f"{CV}:_convert")
    cw = p.func(f"{CV}:_convert_warps")
    cp = p.func(f"{CV}:_copy_properties")
    cfg = ctx.cfg(cv)
    wc = [c for c in calls(cv) if callee(ctx, cv, c) is cw]
    w = one(wc, "_convert_warps call in _convert")
    wn = cfg_node_of(cfg, cv, w)
    cps = [c for c in calls(cv) if callee(ctx, cv, c) is cp]
    ctx.expect("R-ORDER", cv, "the warp / negative-timing check runs before any property is copied", all(cfg.dominates(wn, cfg_node_of(cfg, cv, c)) for c in cps) and bool(cps), "",
               "a copy is reachable before _convert_warps", node=w)
    kw = {k.arg: ast.unparse(k.value) for k in w.keywords}
    ctx.expect("R-FWD", cv, "the check looks at the source simfile", kw.get("source") == cv.param_names()[0] or (w.args and ast.unparse(w.args[0]) == cv.param_names()[0]), "", str(kw), node=w)
    # in _convert_warps: SM source: bpms and stops, value < 0 -> NotImplementedError
    sp = cw.param_names()[0]
    from .tables import Dec, closed, judge as tjudge, sums_of as tsums, terminal_text, leaves_loop_early
    wsums = tsums(ctx, cw)
    SM, SSC = f"isinstance({sp}, SMSimfile)", f"isinstance({sp}, SSCSimfile)"
    want_lists = sorted([f"BeatValues.from_str({sp}.bpms)", f"BeatValues.from_str({sp}.stops)"])
    sm_ok = False
    sm_decs = []
    seen_lists = set()
    for s_ in wsums:
        fors = [(i, e) for i, e in enumerate(s_.effects) if e.kind == "for"]
        inner = None
        for i, e in fors:
            # the element loop: iterates chain(<the lists>), or the variable of an enclosing loop over the lists
            ce = closed(s_, e.value, i)
            if isinstance(ce, ast.Call) and ast.unparse(ce.func) in ("chain", "itertools.chain") and not ce.keywords and isinstance(e.target, ast.Name):
                seen_lists.add(tuple(sorted(ast.unparse(x) for x in ce.args)))
                inner = e
            for j, o in fors:
                if j < i and isinstance(o.target, ast.Name) and ast.unparse(e.value) == o.target.id and isinstance(e.target, ast.Name):
                    lists = closed(s_, o.value, j)
                    if isinstance(lists, (ast.Tuple, ast.List)):
                        seen_lists.add(tuple(sorted(ast.unparse(x) for x in lists.elts)))
                        inner = e
        if inner is None:
            continue
        x = inner.target.id
        t = terminal_text(s_)
        out = ("refused" if t == "raise NotImplementedError" else "passes") + (" at this element" if leaves_loop_early(s_) else "")
        assign = {k.replace(f"{x}.value", "ELEMENT.value"): v for k, v in s_.plain_assign().items()}
        sm_decs.append(Dec(assign, out, s_))
    if sm_decs and seen_lists == {tuple(want_lists)}:
        NEG = "ELEMENT.value < 0"
        from ..decide import check_table
        v_, u_ = check_table(sm_decs, [SM, NEG], lambda a: ("refused at this element" if a[NEG] else "passes") if a[SM] else __import__("sfa.decide", fromlist=["IGNORE"]).IGNORE, lambda d: d.outcome,
                             dont_care=[SSC], strict_foreign=True)
        sm_ok = not v_ and not u_
        sm_detail = "; ".join((v_ or u_)[:2])
    else:
        sm_detail = f"lists checked: {sorted(seen_lists)}"
    ssc_ok = False
    ssc_paths = [s_ for s_ in wsums if s_.plain_assign().get(SSC) is True and s_.plain_assign().get(SM) is not True]
    warp_atoms = {k for s_ in ssc_paths for k in s_.plain_assign() if "warps" in k}
    if len(warp_atoms) == 1:
        wa = next(iter(warp_atoms))
        ssc_ok = wa in (f"len(BeatValues({sp}.warps))", f"BeatValues({sp}.warps)", f"{sp}.warps", f"0 < len(BeatValues({sp}.warps))") and \
            all((terminal_text(s_) == "raise NotImplementedError") == bool(s_.plain_assign().get(wa)) for s_ in ssc_paths if wa in s_.plain_assign())
    if direction in ("both", "sm_to_ssc"):
        ctx.expect("R-TABLE", cw, "an SM source with a negative BPM or stop is refused (both lists are checked)", sm_ok, "", "the 'value < 0 -> NotImplementedError' check no longer covers every element of bpms and stops: " + sm_detail, node=cw.node)
    if direction in ("both", "ssc_to_sm"):
        ctx.expect("R-TABLE", cw, "an SSC source with warps is refused", ssc_ok, "", "", node=cw.node)


# ---------------------------------------------------------------------------
# C17


def may_raise(ctx: Ctx) -> None:
    """R-EXC: explicit raises in ssc_to_sm's resolved call tree; KeyError summary of the chart store."""
    p = ctx.p
    cg = callgraph(ctx)
    f = p.func(f"{CV}:ssc_to_sm")
    reach = cg.reach(f)
    found: Dict[str, List[str]] = {}
    for fq in sorted(reach):
        g = p.functions[fq]
        for r in [n for n in body_walk(g.node) if isinstance(n, ast.Raise)]:
            exc = r.exc.func if isinstance(r.exc, ast.Call) else r.exc
            name = ast.unparse(exc) if exc is not None else "re-raise"
            found.setdefault(name, []).append(fq)
    for name, where in sorted(found.items()):
        ctx.expect("R-EXC", f, f"explicit raise of {name} in the call tree", name in ALLOWED_RAISES, f"in {sorted(set(where))}",
                   f"{name} can be raised from {sorted(set(where))}: the conversion may only fail with InvalidPropertyException or NotImplementedError", node=f.node)
    ctx.floor("functions in ssc_to_sm's call tree", len(reach), 5)
    ctx.floor("explicit raise kinds", len(found), 2)
    # raising summary of output[property] = value for output: SMChart
    sm = p.cls("simfile.sm.SMChart")
    si = sm.methods.get("__setitem__")
    require(si is not None, "SMChart.__setitem__ not found")
    kp = si.param_names()[1]
    table = tuple(p.const("simfile.sm", "SM_CHART_PROPERTIES"))
    raises = [r for r in body_walk(si.node) if isinstance(r, ast.Raise)]
    guard = False
    for r in raises:
        fs = facts(ctx, si, r)
        for a, pol in fs:
            if isinstance(a, ast.Compare) and len(a.ops) == 1 and isinstance(a.ops[0], (ast.In, ast.NotIn)):
                t = try_ev(ctx, si, a.comparators[0])
                if t is not None and tuple(t) == table and ast.unparse(a.left) in (kp, f"{kp}.upper()"):
                    if (isinstance(a.ops[0], ast.NotIn) and pol) or (isinstance(a.ops[0], ast.In) and not pol):
                        exc = r.exc.func if isinstance(r.exc, ast.Call) else r.exc
                        guard = isinstance(exc, ast.Name) and exc.id == "KeyError"
    if not guard:
        if not raises:
            ctx.ok("R-EXC", p.func(f"{CV}:_copy_properties"), "SMChart.__setitem__ raises nothing", "no KeyError summary to propagate", node=si.node)
            return
        raise AnalysisError("SMChart.__setitem__ raises, but not in the recognised 'key outside SM_CHART_PROPERTIES -> KeyError' shape")
    inv = p.const(CV, "INVALID_PROPERTIES")
    listed = set()
    for kind, keys in inv.get(ClassRef("simfile.sm.SMChart"), {}).items():
        listed.update(keys)
    dd = p.descriptors(p.cls("simfile.ssc.SSCChart"))
    known = set()
    for d in dd.values():
        known.add(d.key)
        if d.alias:
            known.add(d.alias)
    escape = sorted(known - set(table) - listed)
    for k in sorted(known):
        if k in table:
            continue
        ok = k in listed
        ctx.expect("R-EXC", p.func(f"{CV}:_copy_properties"), f"key={k}", ok, "listed in INVALID_PROPERTIES[SMChart]",
                   f"the documented SSC chart key {k} is neither an SM chart field nor listed in INVALID_PROPERTIES[SMChart]: _copy_properties stores it into the SMChart, "
                   f"whose __setitem__ raises a bare KeyError - ssc_to_sm fails with an exception the property does not allow", node=si.node)
    ctx.notes.append(f"SSC chart keys reaching SMChart.__setitem__ unlisted: {escape}")


def table_completeness(ctx: Ctx) -> None:
    """C17.2/4: the invalid-property tables cover every SSC-only property; defaults agree with the blank templates."""
    p = ctx.p
    inv = p.const(CV, "INVALID_PROPERTIES")
    smt = inv.get(ClassRef("simfile.sm.SMSimfile"), {})
    listed: Dict[str, List[str]] = {}
    for kind, keys in smt.items():
        for k in keys:
            listed.setdefault(k, []).append(kind.name)
    ssc = {d.key for d in p.descriptors(p.cls("simfile.ssc.SSCSimfile")).values()}
    sm = {d.key for d in p.descriptors(p.cls("simfile.sm.SMSimfile")).values()}
    for k in sorted(ssc - sm):
        ctx.expect("R-TABLE", (CV, ""), f"SSC-only simfile property {k} has a policy kind", k in listed, str(listed.get(k)), f"{k} is not in INVALID_PROPERTIES[SMSimfile]: it is copied into SM files silently")
    for tbl_name, tbl in (("SMSimfile", smt), ("SMChart", inv.get(ClassRef("simfile.sm.SMChart"), {}))):
        seen: Dict[str, List[str]] = {}
        for kind, keys in tbl.items():
            for k in keys:
                seen.setdefault(k, []).append(kind.name)
        dup = {k: v for k, v in seen.items() if len(v) > 1}
        ctx.expect("R-TABLE", (CV, ""), f"no key of INVALID_PROPERTIES[{tbl_name}] is listed under two kinds", not dup, "", f"{dup}: the first kind in table order decides")
        sm_fields = set(p.const("simfile.sm", "SM_CHART_PROPERTIES")) if tbl_name == "SMChart" else set()
        ctx.expect("R-TABLE", (CV, ""), f"INVALID_PROPERTIES[{tbl_name}] lists no property the SM format holds", not (set(seen) & sm_fields), "", f"{sorted(set(seen) & sm_fields)}")
    # the same property has the same kind on simfile and chart level (sibling tables must agree)
    cht = inv.get(ClassRef("simfile.sm.SMChart"), {})
    kind_of = {}
    for tbl_name, tbl in (("SMSimfile", smt), ("SMChart", cht)):
        for kind, keys in tbl.items():
            for k in keys:
                kind_of.setdefault(k, {})[tbl_name] = kind.name
    both = {k: v for k, v in kind_of.items() if len(v) == 2}
    for k, v in sorted(both.items()):
        ctx.expect("R-TABLE", (CV, ""), f"{k} has the same kind on simfile and chart level", v["SMSimfile"] == v["SMChart"], str(v),
                   f"{k} is {v['SMSimfile']} for a simfile but {v['SMChart']} for a chart: the caller's behaviour for one kind is applied to the same property differently on the two levels")
    ctx.floor("properties listed on both levels", len(both), 6)
    beh = p.const(CV, "INVALID_PROPERTY_BEHAVIORS")
    got = {k.name: v.name for k, v in beh.items()}
    kinds = set(p.enum_members(p.cls(f"{CV}.PropertyType")).keys())
    ctx.expect("R-TABLE", (CV, ""), "INVALID_PROPERTY_BEHAVIORS covers every PropertyType with the documented defaults", got == SPEC_BEHAVIORS and set(got) == kinds, str(got),
               f"defaults are {got}; documented {SPEC_BEHAVIORS}")
    # defaults vs blank templates
    try:
        dp = p.const(CV, "DEFAULT_PROPERTIES")
    except AnalysisError:
        # not a literal table: when it is derived from a blank template ({k: v for k, v in <Class>.blank().items() if v}) its content can still be computed
        node_ = p.module(CV).top.get("DEFAULT_PROPERTIES")
        val_ = getattr(node_, "value", None)
        derived = None
        if isinstance(val_, ast.Call) and len(val_.args) == 2:
            m_ = match("{$k: $v for ($k, $v) in $c.blank().items() if $v}", val_.args[1]) or match("{$k: $v for $k, $v in $c.blank().items() if $v}", val_.args[1])
            if m_ is not None:
                cls_ = p.resolve_expr(p.module(CV), m_["c"])
                if isinstance(cls_, ClassInfo):
                    derived = {k: v for k, v in blank_pairs(ctx, cls_.fq).items() if v}
        if derived is None:
            raise
        extra = {k: v for k, v in derived.items() if k not in SPEC_DEFAULTS}
        ctx.bad("R-TABLE", (CV, ""), "DEFAULT_PROPERTIES is the documented table of non-empty defaults", f"the table is derived from {src(val_.args[1], 80)} and holds {len(derived)} entries; beyond the documented "
                f"{sorted(SPEC_DEFAULTS)} it gives defaults to {sorted(extra)}: such a property is now left out (or refused) by ERROR_UNLESS_DEFAULT against a value that is not its documented default", node=node_)
        return
    ctx.expect("R-TABLE", (CV, ""), "DEFAULT_PROPERTIES is the documented table of non-empty defaults", dict(dp) == SPEC_DEFAULTS, str(dict(dp)), f"DEFAULT_PROPERTIES is {dict(dp)}; documented {SPEC_DEFAULTS}")
    ctx.expect("R-TABLE", (CV, ""), "the default of an unlisted property is the empty string", isinstance(dp, DefaultDictVal) and dp.default == "", "", f"{getattr(dp, 'default', None)!r}")
    n = 0
    for level, tbl, tmpl in (("simfile", smt, blank_pairs(ctx, "simfile.ssc.SSCSimfile")), ("chart", inv.get(ClassRef("simfile.sm.SMChart"), {}), blank_pairs(ctx, "simfile.ssc.SSCChart"))):
        keys_ = set()
        for ks in tbl.values():
            keys_.update(ks)
        for k in sorted(keys_):
            if k == "VERSION":
                ctx.observe("R-TABLE", (CV, ""), "VERSION has a template value and no default entry", "named exception: the property does not say what the default of the version tag is (kind SSC_VERSION defaults to IGNORE)")
                continue
            if k not in tmpl:
                ctx.observe("R-TABLE", (CV, ""), f"{level} policy key {k} is absent from the blank SSC {level}", "nothing to compare")
                continue
            n += 1
            tv = tmpl[k]
            ctx.expect("R-TABLE", (CV, ""), f"default of {level} property {k} equals the blank SSC {level}'s value", dict.get(dp, k, dp.default) == tv, f"{tv!r}",
                       f"blank SSC {level} has {k}={tv!r} but DEFAULT_PROPERTIES gives {dict.get(dp, k, dp.default)!r}: converting a blank SSC simfile would be refused under ERROR_UNLESS_DEFAULT")
    ctx.floor("policy keys compared with the blank templates", n, 14)


def policy_dispatch(ctx: Ctx) -> None:
    """C17.3: per-member outcomes of _should_copy_property (decision table over path effects)."""
    p = ctx.p
    f = p.func(f"{CV}:_should_copy_property")
    prop, val, invp, behp = f.param_names()
    from .tables import Dec, function_decs, judge as tjudge, sums_of as tsums, terminal_text, atoms_seen, leaves_loop_early
    from ..decide import IGNORE
    # the local holding the behaviour: the name compared with InvalidPropertyBehavior members
    bns = {n.left.id for n in body_walk(f.node) if isinstance(n, ast.Compare) and isinstance(n.left, ast.Name) and len(n.comparators) == 1
           and ast.unparse(n.comparators[0]).startswith("InvalidPropertyBehavior.")}
    require(len(bns) == 1, f"{f.fq}: expected one local compared with InvalidPropertyBehavior members, found {sorted(bns)}")
    BN = next(iter(bns))
    sums = tsums(ctx, f, keep=[BN])
    loops = {(ast.unparse(e.target), e.line) for s_ in sums for e in s_.effects if e.kind == "for" and ast.unparse(e.value) == f"{invp}.items()"}
    require(len(loops) == 1, f"{f.fq}: expected one loop over {invp}.items(), found {sorted(loops)}")
    tgt, line = next(iter(loops))
    tt = ast.parse(tgt, mode="eval").body
    require(isinstance(tt, ast.Tuple) and len(tt.elts) == 2 and all(isinstance(e, ast.Name) for e in tt.elts), f"{f.fq}: loop target {tgt} is not (kind, keys)")
    kind, keys = tt.elts[0].id, tt.elts[1].id
    # how the behaviour is chosen: caller's mapping first, default mapping otherwise, by the property's kind
    G = f"{behp}.get({kind})"
    bdecs = []
    for s_ in sums:
        bi = [e for e in s_.effects if e.kind == "bind" and isinstance(e.target, ast.Name) and e.target.id == BN]
        if bi:
            bdecs.append(Dec(dict(s_.atoms_in(line)), ast.unparse(bi[-1].value), s_))
    listed = f"{prop} in {keys}"
    tjudge(ctx, "R-TABLE", f, "the behaviour is the caller's mapping's entry for the property's kind when it has one, the default mapping's otherwise", bdecs, [G],
           lambda a: G if a[G] else f"INVALID_PROPERTY_BEHAVIORS[{kind}]", dont_care=[listed] + [f"{BN} == InvalidPropertyBehavior.{m}" for m in ("COPY_ANYWAY", "IGNORE", "ERROR_UNLESS_DEFAULT", "ERROR")]
           + [f"{val}.strip() == DEFAULT_PROPERTIES[{prop}]"], strict_foreign=False)
    B = {m: f"{BN} == InvalidPropertyBehavior.{m}" for m in ("COPY_ANYWAY", "IGNORE", "ERROR_UNLESS_DEFAULT", "ERROR")}
    isdef = f"{val}.strip() == DEFAULT_PROPERTIES[{prop}]"

    def out(s_):
        t = terminal_text(s_)
        return {"return True": True, "return False": False}.get(t, t)

    decs = [Dec({k: v for k, v in s_.atoms_in(line).items()}, out(s_), s_) for s_ in sums if any(e.kind == "for" for e in s_.effects)]
    from ..decide import key as _k
    a_keys = set(atoms_seen(decs))
    defs = [k_ for k_ in a_keys if "DEFAULT_PROPERTIES[" in k_]
    if len(defs) == 1 and defs[0] != _k(isdef):
        ctx.bad("R-TABLE", f, "the default test compares the trimmed value with the field's default", f"the test is '{defs[0]}', the documented rule is '{isdef}' "
                "(a default value with surrounding blanks must still count as the default)", node=f.node)
        isdef = defs[0]
    tested = {m: k_ for m, k_ in B.items() if _k(k_) in a_keys}

    def spec(a):
        if not a[listed]:
            return IGNORE  # the next kind is looked at; an unlisted property falls out of the loop (checked below)
        on = [m for m, k_ in tested.items() if a.get(k_)]
        if len(on) > 1:
            return IGNORE
        if not on:
            return "raise InvalidPropertyException" if "ERROR" not in tested else IGNORE
        m = on[0]
        if m == "COPY_ANYWAY":
            return True
        if m == "IGNORE":
            return False
        if m == "ERROR_UNLESS_DEFAULT":
            return False if a[isdef] else "raise InvalidPropertyException"
        return "raise InvalidPropertyException"

    tjudge(ctx, "R-TABLE", f, "COPY_ANYWAY -> copied; IGNORE -> left out; ERROR_UNLESS_DEFAULT -> left out iff the trimmed value is the default, else refused; ERROR -> refused",
           decs, [listed] + list(tested.values()) + [isdef], spec, dont_care=[G])
    # a property no kind lists is copied
    unl = [d for d in decs if d.assign.get(_k(listed)) is False] + [Dec({}, out(s_), s_) for s_ in sums if not any(e.kind == "for" for e in s_.effects)]
    ctx.expect("R-TABLE", f, "a property that no kind lists is copied", bool(unl) and all(d.outcome is True and not leaves_loop_early(d.src) for d in unl), "",
               f"outcomes for an unlisted property: {sorted({str(d.outcome) + (' (decided at the first kind that does not list it)' if leaves_loop_early(d.src) else '') for d in unl})}", node=f.node)
    # the exception names the property
    rs = [n for n in body_walk(f.node) if isinstance(n, ast.Raise)]
    okn = any(isinstance(r.exc, ast.Call) and any(isinstance(x, ast.Name) and x.id == prop for x in ast.walk(r.exc)) for r in rs)
    ctx.expect("R-TABLE", f, "the exception names the offending property", okn, "", "", node=f.node)


def convert_sequence(ctx: Ctx) -> None:
    """C16 / C17: what _convert does, in order, on every path - read off the path effects (helpers inlined, temporaries resolved):
    a new result (deep copy of the caller's template, or a blank of the output type); the warp / negative-timing check on the source, before
    anything is copied; the simfile's properties copied into the result; then, for every chart of the source in order, a new chart (template copy
    or blank), its properties copied, appended to the result; the result returned."""
    from ..flow import call_args as _ca
    from .tables import closed, sums_of as tsums
    p = ctx.p
    cv, cp, cw = p.func(f"{CV}:_convert"), p.func(f"{CV}:_copy_properties"), p.func(f"{CV}:_convert_warps")
    params = cv.param_names()
    srcp = params[0]
    sums = tsums(ctx, cv)
    seen = set()
    for s_ in sums:
        role: Dict[str, str] = {q: q for q in params}
        toks: List[str] = []
        unknown: List[str] = []

        def R(e: Optional[ast.AST]) -> str:
            if e is None:
                return "<absent>"
            if isinstance(e, ast.Call) and ast.unparse(e.func) in ("cast", "typing.cast") and len(e.args) == 2:
                return R(e.args[1])
            if isinstance(e, ast.Name):
                if e.id not in role:
                    unknown.append(e.id)
                return role.get(e.id, e.id)
            return ast.unparse(e)

        def fresh(v: ast.AST) -> Optional[str]:
            if isinstance(v, ast.BoolOp) and isinstance(v.op, ast.Or) and len(v.values) == 2:
                a, b = v.values
                if isinstance(a, ast.Call) and ast.unparse(a.func) in ("deepcopy", "copy.deepcopy") and len(a.args) == 1 and isinstance(a.args[0], ast.Name) and a.args[0].id in params \
                        and isinstance(b, ast.Call) and isinstance(b.func, ast.Attribute) and b.func.attr == "blank" and not b.args and isinstance(b.func.value, ast.Name) and b.func.value.id in params:
                    return f"deepcopy({a.args[0].id}) or {b.func.value.id}.blank()"
            return None

        for i, e in enumerate(s_.effects):
            v = e.value
            depth = "  " * len(e.loops)
            if e.kind == "for":
                it = closed(s_, v, i)
                if isinstance(e.target, ast.Name):
                    role[e.target.id] = "CHART" if ast.unparse(it) == f"{srcp}.charts" else f"<element of {ast.unparse(it)}>"
                toks.append(f"{depth}for CHART in {ast.unparse(it)}" if ast.unparse(it) == f"{srcp}.charts" else f"{depth}for ? in {ast.unparse(it)}")
            elif e.kind == "bind" and isinstance(e.target, ast.Name):
                if isinstance(v, ast.Name) and v.id in role:
                    role[e.target.id] = role[v.id]
                    continue
                fr = fresh(v) if v is not None else None
                if fr is not None:
                    nm = "RESULT" if "simfile" in fr.split(")")[0] else "NEWCHART"
                    role[e.target.id] = nm
                    toks.append(f"{depth}{nm} := {fr}")
                else:
                    why = _not_fresh(ctx, cv, v) if v is not None else "no value"
                    role[e.target.id] = f"<{ast.unparse(v) if v is not None else '?'}>"
                    toks.append(f"{depth}{e.target.id} := {ast.unparse(v) if v is not None else '?'}" + (f"  [{why}]" if why else ""))
            elif e.kind == "expr" and isinstance(v, ast.Call):
                g = callee(ctx, cv, v)
                if g is cw:
                    am = _ca(v, cw)
                    toks.append(f"{depth}check warps / negative timing of {R(am.get(cw.param_names()[0]))}")
                elif g is cp:
                    am = _ca(v, cp)
                    toks.append(f"{depth}copy properties {R(am.get('source'))} -> {R(am.get('output'))} (table of {R(am.get('output_type'))}, policy {R(am.get('invalid_property_behaviors'))})")
                elif isinstance(v.func, ast.Attribute) and v.func.attr == "append" and isinstance(v.func.value, ast.Attribute) and v.func.value.attr == "charts" and len(v.args) == 1:
                    toks.append(f"{depth}{R(v.func.value.value)}.charts.append({R(v.args[0])})")
                else:
                    toks.append(f"{depth}other: {ast.unparse(v)}")
            elif e.kind == "return":
                toks.append(f"return {R(v)}")
            elif e.kind in ("store", "aug", "delete", "raise", "yield"):
                toks.append(f"{depth}other: {e.text}")
        seen.add(tuple(toks))
    head = ["RESULT := deepcopy(simfile_template) or output_simfile_type.blank()", f"check warps / negative timing of {srcp}",
            f"copy properties {srcp} -> RESULT (table of output_simfile_type, policy invalid_property_behaviors)", f"for CHART in {srcp}.charts"]
    body = ["  NEWCHART := deepcopy(chart_template) or output_chart_type.blank()", "  copy properties CHART -> NEWCHART (table of output_chart_type, policy invalid_property_behaviors)",
            "  RESULT.charts.append(NEWCHART)"]
    want = {tuple(head + body + ["return RESULT"]), tuple(head[:3] + ["return RESULT"]), tuple(head + ["return RESULT"])}
    extra = seen - want
    missing = tuple(head + body + ["return RESULT"]) not in seen
    title = ("_convert: new result (template copy or blank), warp / negative-timing check of the source before any copy, simfile properties copied, then per source chart in order "
             "a new chart (template copy or blank) filled and appended, result returned - on every path")
    if not extra and not missing:
        ctx.ok("R-ORDER", cv, title, f"{len(sums)} paths", node=cv.node)
        return
    # only a sequence made of recognised steps is judged; anything else is an unknown shape
    flat = [t for seq in extra for t in seq]
    if any(t.strip().startswith(("other:", "for ? in")) or ("<" in t and ">" in t and ":=" not in t) for t in flat):
        bad_fresh = [t for t in flat if ":=" in t and "[" in t]
        if bad_fresh:
            ctx.bad("R-PURE", cv, "result objects are newly created (deep copy of the caller's template, or a blank)", f"{bad_fresh[0].strip()}", node=cv.node)
            return
        raise AnalysisError(f"{cv.fq}: the conversion sequence contains steps that are not recognised: {[t.strip() for t in flat if t.strip().startswith(('other:', 'for ? in')) or '<' in t][:3]}")
    ctx.bad("R-ORDER", cv, title, f"a path does: {[t.strip() for t in (sorted(extra)[0] if extra else ())]}; expected: {[t.strip() for t in head + body + ['return RESULT']]}", node=cv.node)


def wrappers(ctx: Ctx, direction: str) -> None:
    """sm_to_ssc / ssc_to_sm are nothing but _convert with the format's classes, the caller's templates and policy: one path, one call, its
    result returned as it is (no touching-up of the result afterwards)."""
    from ..flow import call_args as _ca
    from .tables import closed, sums_of as tsums
    p = ctx.p
    cv = p.func(f"{CV}:_convert")
    spec = {"sm_to_ssc": ("SSCSimfile", "SSCChart", "{}"), "ssc_to_sm": ("SMSimfile", "SMChart", "invalid_property_behaviors")}
    for name in (["sm_to_ssc", "ssc_to_sm"] if direction == "both" else [direction]):
        f = p.func(f"{CV}:{name}")
        src_p = f.param_names()[0]
        sims, charts, pol = spec[name]
        want = {"simfile": src_p, "output_simfile_type": sims, "output_chart_type": charts, "simfile_template": "simfile_template", "chart_template": "chart_template", "invalid_property_behaviors": pol}
        sums = tsums(ctx, f)
        good = bool(sums)
        detail = []
        for s_ in sums:
            k_, v_ = s_.terminal()
            v_ = closed(s_, v_) if v_ is not None else None
            others = [e.text for e in s_.effects if e.kind in ("store", "aug", "delete", "expr", "raise", "yield")]
            conds = sorted(s_.plain_assign())
            ok = k_ == "return" and isinstance(v_, ast.Call) and callee(ctx, f, v_) is cv and not others and not conds
            if ok:
                am = {k: ast.unparse(x) for k, x in _ca(v_, cv).items()}
                ok = all(am.get(k) == w or (w == "{}" and am.get(k) in ("{}", "dict()")) for k, w in want.items())
                if not ok:
                    detail.append(f"arguments {am}")
            else:
                detail.append(f"{k_} {ast.unparse(v_) if v_ is not None else ''}" + (f" after {others}" if others else "") + (f" under {conds}" if conds else ""))
            good = good and ok
        ctx.expect("R-FWD", f, f"{name} returns _convert(<source>, {sims}, {charts}, the caller's templates, " + ("an empty policy" if pol == "{}" else "the caller's policy") + ") unchanged, on its only path", good,
                   f"{len(sums)} path(s)", f"{name} does: {'; '.join(detail)[:400]} - whatever is done to the result (or decided) outside _convert escapes the rules that are checked on _convert", node=f.node)
