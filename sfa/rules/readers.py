"""
Reader rules on path effects (properties C01-C04): what each _parse loop does with a
parameter, as a decision table over the closed-form guard atoms.  Temporaries, helper
functions, guard clauses, conditional expressions and merged/split conditions do not
change the table.
"""
from __future__ import annotations

import ast
from dataclasses import dataclass
from typing import Any, Callable, Dict, List, Optional, Sequence, Tuple

from ..decide import IGNORE, OneOf, check_table
from ..engine import AnalysisError, FunctionInfo
from ..peff import Eff, PathSummary, summaries
from ..report import Ctx
from .common import require, try_ev

PARSERS = {
    "sm_simfile": "simfile.sm:SMSimfile._parse",
    "sm_chart": "simfile.sm:SMChart._parse",
    "ssc_simfile": "simfile.ssc:SSCSimfile._parse",
    "ssc_chart": "simfile.ssc:SSCChart._parse",
}


from .tables import Dec, judge, root_name, sums_of, touches
from .tables import loop_decs as _loop_decs_generic


def _param_loop(ctx: Ctx, fi: FunctionInfo, sums: Sequence[PathSummary]) -> Tuple[str, int]:
    """(loop variable holding the MSDParameter, line of the loop)."""
    parser = fi.param_names()[1]
    found = set()
    for s in sums:
        for i, e in enumerate(s.effects):
            if e.kind != "for" or not isinstance(e.target, ast.Name):
                continue
            it = e.value
            txt = ast.unparse(it)
            if isinstance(it, ast.Name) and it.id != parser:
                r = s.resolve(it.id, i)
                if r is not None and r[1].value is not None:
                    txt = ast.unparse(r[1].value)
            if txt in (parser, f"iter({parser})"):
                found.add((e.target.id, e.line))
    require(len(found) == 1, f"{fi.fq}: expected one loop over the parsed parameters, found {sorted(found)}")
    return next(iter(found))


def _loop_decs(sums, line, roots, fix, post=None):
    return _loop_decs_generic(sums, line, roots, fix, post)


def _multi(ctx: Ctx) -> str:
    t = ctx.p.class_const("simfile.base.BaseSimfile", "MULTI_VALUE_PROPERTIES")
    return repr(tuple(sorted(t)))


def _value_equiv(P: str, VNONE: str) -> Dict[str, Tuple[str, bool]]:
    """msdparser: value is None exactly when the parameter has no component after the key."""
    return {f"len({P}.components) > 1": (VNONE, False), f"len({P}.components) >= 2": (VNONE, False), f"len({P}.components) == 1": (VNONE, True),
            f"len({P}.components) < 2": (VNONE, True), f"len({P}.components) <= 1": (VNONE, True), f"{P}.components[1:]": (VNONE, False)}


def _value_spec(a: Dict[str, bool], MULTI: str, VNONE: str, P: str):
    """Expected stored value text(s) under assignment *a*."""
    if a[MULTI] and not a[VNONE]:
        return [f"':'.join({P}.components[1:])"]
    if a[VNONE]:
        return [f"{P}.value", "None"]
    return [f"{P}.value"]


def sm_simfile_table(ctx: Ctx, raw_key_ok: bool = False) -> None:
    """SMSimfile._parse: NOTES -> chart from components[1:]; key in MULTI with a value -> all components joined; else the first value."""
    fi = ctx.p.func(PARSERS["sm_simfile"])
    sums = sums_of(ctx, fi)
    s = fi.param_names()[0]
    P, line = _param_loop(ctx, fi, sums)
    K = f"{P}.key.upper()"
    fix = (lambda t: t.replace(f"{P}.key.upper()", f"{P}.key")) if raw_key_ok else (lambda t: t)
    K = fix(K)
    NOTES, MULTI, VNONE = f"{K} == 'NOTES'", f"{K} in {_multi(ctx)}", f"{P}.value is None"

    def spec(a):
        if a[NOTES]:
            return (f"{s}.charts.append(SMChart.from_msd({P}.components[1:]))",)
        return OneOf(*[(f"{s}[{K}] = {v}",) for v in _value_spec(a, MULTI, VNONE, P)])

    decs = _loop_decs(sums, line, [s], fix)
    ctx.floor("paths through the SMSimfile._parse loop", len(decs), 1)
    judge(ctx, "R-TABLE", fi, "each parameter: NOTES -> chart from all components; ATTACKS/DISPLAYBPM with a value -> components joined with ':'; otherwise the first value, under the upper-cased key",
          decs, [NOTES, MULTI, VNONE], spec, equiv=_value_equiv(P, VNONE), why="what the reader stores must be what the writer splits (':' for multi-value keys) and nothing else")


def ssc_chart_table(ctx: Ctx, raw_key_ok: bool = False) -> None:
    """SSCChart._parse: first parameter must be NOTEDATA; every later one is stored (multi-value joined); stop after the notes item, recognised by key."""
    p = ctx.p
    fi = p.func(PARSERS["ssc_chart"])
    sums = sums_of(ctx, fi)
    s = fi.param_names()[0]
    P, line = _param_loop(ctx, fi, sums)
    fix = (lambda t: t.replace(".key.upper()", ".key")) if raw_key_ok else (lambda t: t)
    K = fix(f"{P}.key.upper()")
    d = p.descriptors(p.cls("simfile.ssc.SSCChart"))["notes"]
    keyset = tuple(sorted({d.key, d.alias} - {None}))
    MULTI, VNONE, NK = f"{K} in {_multi(ctx)}", f"{P}.value is None", f"{K} in {keyset!r}"

    def spec(a):
        tail = ("break",) if a[NK] else ()
        return OneOf(*[(f"{s}[{K}] = {v}",) + tail for v in _value_spec(a, MULTI, VNONE, P)])

    decs = _loop_decs(sums, line, [s], fix)
    ctx.floor("paths through the SSCChart._parse loop", len(decs), 1)
    judge(ctx, "R-TABLE", fi, "each chart parameter is stored under its upper-cased key (multi-value joined); parsing stops after the notes item, recognised by key", decs,
          [MULTI, VNONE, NK], spec, equiv=_value_equiv(P, VNONE), why=f"the loop must stop exactly at a key in {keyset} and store every parameter before that")
    # before the loop: the first parameter is taken with next() and must be NOTEDATA
    pre_raise = []
    reach_loop = []

    def idx_of(sm_):
        return next((i for i, e in enumerate(sm_.effects) if e.kind == "for" and e.line == line), None)

    for sm in sums:
        idx = next((i for i, e in enumerate(sm.effects) if e.kind == "for" and e.line == line), None)
        pre_atoms = {fix(k): v for k, v in sm.atoms_between(0, len(sm.effects) if idx_of(sm) is None else idx_of(sm), outside=line).items()}
        if idx is None and sm.end == "raise":
            pre_raise.append(pre_atoms)
        elif idx is not None:
            reach_loop.append(pre_atoms)
    ok = bool(pre_raise) and all(len(a) == 1 and list(a.values()) == [False] and list(a)[0].startswith("'NOTEDATA' == ") and list(a)[0].endswith(fix(".key.upper()")) for a in pre_raise) \
        and all(list(a.values()) == [True] for a in reach_loop)
    ctx.expect("R-TABLE", fi, "the first parameter must be NOTEDATA (upper-cased key), otherwise ValueError before anything is stored", ok, "", f"raise paths: {pre_raise}; loop paths: {reach_loop[:2]}", node=fi.node)


def ssc_simfile_table(ctx: Ctx, raw_key_ok: bool = False, relaxed: bool = False) -> None:
    """SSCSimfile._parse: NOTEDATA closes the open chart and opens a new one; other keys go to the open chart, else to the simfile; the last chart is appended."""
    p = ctx.p
    fi = p.func(PARSERS["ssc_simfile"])
    sums = sums_of(ctx, fi)
    s = fi.param_names()[0]
    P, line = _param_loop(ctx, fi, sums)
    fix = (lambda t: t.replace(".key.upper()", ".key")) if raw_key_ok else (lambda t: t)
    K = fix(f"{P}.key.upper()")
    pcs = {e.target.id for sm in sums for e in sm.effects if e.kind == "bind" and isinstance(e.target, ast.Name) and e.value is not None and ast.unparse(e.value) == "SSCChart()"}
    require(len(pcs) == 1, f"{fi.fq}: expected one local holding the chart being filled (bound to SSCChart()), found {sorted(pcs)}")
    pc = next(iter(pcs))
    # how "no chart is open" is represented: the value the local holds when the loop starts - None, or the simfile itself (then a store
    # through the local *is* a store into the simfile)
    inits = set()
    for sm in sums:
        idx0 = next((i for i, e in enumerate(sm.effects) if e.kind == "for" and e.line == line), None)
        if idx0 is not None:
            r0 = sm.resolve(pc, idx0)
            inits.add(ast.unparse(r0[1].value) if r0 is not None and r0[1].value is not None else "<unbound>")
    init = next(iter(inits)) if len(inits) == 1 and next(iter(inits)) in ("None", s) else "None"
    ND, PCN, MULTI, VNONE = f"{K} == 'NOTEDATA'", f"{pc} is {init}", f"{K} in {_multi(ctx)}", f"{P}.value is None"
    d = p.descriptors(p.cls("simfile.ssc.SSCChart"))["notes"]
    keyset = tuple(sorted({d.key, d.alias} - {None}))
    NK = f"{K} in {keyset!r}"

    def spec(a):
        if a[ND]:
            return (f"{pc} := SSCChart()",) if a[PCN] else (f"{s}.charts.append({pc})", f"{pc} := SSCChart()")
        # while the local *is* the simfile, a store through either name is the same store
        dests = ([s, pc] if init == s else [s]) if a[PCN] else [pc]
        return OneOf(*[(f"{dest}[{K}] = {v}",) for dest in dests for v in _value_spec(a, MULTI, VNONE, P)])

    import re as _re

    def post(dec: Dec) -> Dec:
        if init == s and dec.assign.get(PCN_key) is True:
            # the local is the simfile on this path
            dec = Dec(dec.assign, tuple(_re.sub(rf"^{_re.escape(pc)}\[", f"{s}[", t) for t in dec.outcome), dec.src)
        if relaxed and dec.assign.get(NK_key) is True and len(dec.outcome) == 3 and dec.outcome[1:] == (f"{s}.charts.append({pc})", f"{pc} := {init}"):
            # serialized charts end with their note data: closing the chart right after its notes item is equivalent on that text
            return Dec(dec.assign, dec.outcome[:1], dec.src)
        return dec

    from ..decide import key as ckey
    NK_key = ckey(NK)
    PCN_key = ckey(PCN)
    decs = _loop_decs(sums, line, [s, pc], fix, post)
    ctx.floor("paths through the SSCSimfile._parse loop", len(decs), 1)
    judge(ctx, "R-TABLE", fi, "NOTEDATA closes the open chart and opens a new one; any other parameter goes to the open chart, or to the simfile while none is open", decs,
          [ND, PCN, MULTI, VNONE], spec, dont_care=[NK] if relaxed else (), equiv=_value_equiv(P, VNONE), why="parameters after a NOTEDATA belong to that chart; a chart is complete when the next NOTEDATA (or the end) arrives")
    # before the loop no chart is open; after it the open chart (if any) is appended
    pre_ok = True
    post_decs: List[Dec] = []
    zero_ok = True
    for sm in sums:
        idx = next((i for i, e in enumerate(sm.effects) if e.kind == "for" and e.line == line), None)
        if idx is None:
            tail = [e for e in sm.effects if touches(e, [pc]) or (touches(e, [s]) and "append" in e.text)]
            if any(e.kind != "bind" for e in tail):
                zero_ok = False
            continue
        r = sm.resolve(pc, idx)
        if r is None or r[1].value is None or ast.unparse(r[1].value) != init:
            pre_ok = False
        after = tuple(e.text for e in sm.effects[idx + 1:] if not e.loops and touches(e, [s, pc]))
        post_decs.append(Dec(sm.atoms_between(idx + 1, len(sm.effects), outside=line), after, sm))
    ctx.expect("R-ORDER", fi, "no chart is open before the first NOTEDATA", pre_ok, "", f"{pc} does not hold the 'no chart open' marker ({init}) on every path when the parameter loop starts", node=fi.node)
    ctx.expect("R-ORDER", fi, "an empty parameter stream appends no chart", zero_ok, "", "", node=fi.node)
    judge(ctx, "R-ORDER", fi, "the last open chart is appended after the loop", post_decs, [PCN], lambda a: () if a[PCN] else (f"{s}.charts.append({pc})",),
          why="the final chart of the file would be lost (or an absent one appended)")
