"""
Note data codec, grouping, counting, timing of notes (properties C07-C10, C13).
"""
from __future__ import annotations

import ast
import re
from typing import Any, Dict, List, Optional, Set, Tuple

from ..cfg import PathEnumerator
from ..engine import AnalysisError, ClassInfo, EnumVal, External, FunctionInfo, body_walk, norm, src, walk_no_nested
from ..flow import cfg_node_of, guards_at, inline, locals_of
from ..report import Ctx
from . import poly as P
from .common import (callee, callee_name, calls, ev, facts, for_loops, in_body, loop_must_pass, method_calls, one, parent, require,
                     self_attr, try_ev, unparse_facts)
from .records import record_constructions, field_map

ND = "simfile.notes:NoteData"
SPEC_NOTETYPES = {"TAP": "1", "HOLD_HEAD": "2", "TAIL": "3", "ROLL_HEAD": "4", "ATTACK": "A", "FAKE": "F", "KEYSOUND": "K", "LIFT": "L", "MINE": "M"}


def _enumerate_loop(lp: ast.For) -> Optional[Tuple[str, str, ast.expr]]:
    """for i, x in enumerate(E[, start]) -> (i, x, E); the start value is judged by the caller (_enumerate_start)."""
    it = lp.iter
    if (isinstance(it, ast.Call) and isinstance(it.func, ast.Name) and it.func.id == "enumerate" and 1 <= len(it.args) <= 2 and all(k.arg == "start" for k in it.keywords)
            and isinstance(lp.target, ast.Tuple) and len(lp.target.elts) == 2 and all(isinstance(e, ast.Name) for e in lp.target.elts)):
        return lp.target.elts[0].id, lp.target.elts[1].id, it.args[0]
    return None


def _enumerate_start(lp: ast.For) -> Any:
    it = lp.iter
    if len(it.args) == 2:
        return it.args[1].value if isinstance(it.args[1], ast.Constant) else "?"
    for k in it.keywords:
        if k.arg == "start":
            return k.value.value if isinstance(k.value, ast.Constant) else "?"
    return 0


def _split_on(e: ast.expr) -> Optional[Tuple[ast.expr, str]]:
    """X.split("c") -> (X, "c")."""
    if (isinstance(e, ast.Call) and isinstance(e.func, ast.Attribute) and e.func.attr == "split" and len(e.args) == 1 and not e.keywords
            and isinstance(e.args[0], ast.Constant) and isinstance(e.args[0].value, str)):
        return e.func.value, e.args[0].value
    return None


# ---------------------------------------------------------------------------
# C07


def notetype_table(ctx: Ctx) -> None:
    ci = ctx.p.cls("simfile.notes.NoteType")
    got = {k: v.value for k, v in ctx.p.enum_members(ci).items()}
    ctx.expect("R-TABLE", ci, "NoteType values == the documented note characters", got == SPEC_NOTETYPES, str(got), f"NoteType is {got}; documented: {SPEC_NOTETYPES}", node=ci.node)
    # str(NoteType) is the character (the writer relies on it)
    m = ci.methods.get("__str__")
    ok = m is not None and any(isinstance(n, ast.Return) and self_attr(n.value, m.param_names()[0]) == "value" for n in body_walk(m.node))
    ctx.expect("R-TABLE", ci, "str(NoteType) is its character", ok, "", "NoteType.__str__ does not return self.value", node=ci.node)


def beat_formula(ctx: Ctx) -> None:
    """C07.2-3 / C08.5: the reader, read off the path effects of NoteData.__iter__ and _iter_measure (helpers inlined, temporaries resolved):
    sections split on '&' and measures on ',' (indices from 0, the measure text stripped); rows are the measure's lines; per row a fresh all-None
    keysound list filled from the row's own stripped text; one Note per cell other than '0' with beat == 4*measure + 4*row/rows (an exact
    numerator/denominator pair), the cell's index as column, NoteType(cell), the section index as player and the bracket value of that column."""
    from .tables import Dec, closed, judge as tjudge, sums_of as tsums
    p = ctx.p
    fi = p.func(f"{ND}._iter_measure")
    params = fi.param_names()
    require(len(params) == 4, f"{fi.fq}: expected (self, p, m, measure)")
    sn, pp, pm, pmeasure = params
    sums = tsums(ctx, fi)

    def enum_of(e):
        """for (i, x) in enumerate(E[, start]) -> (i, x, E, start) ; None otherwise"""
        v = e.value
        if (e.kind == "for" and isinstance(v, ast.Call) and isinstance(v.func, ast.Name) and v.func.id == "enumerate" and 1 <= len(v.args) <= 2 and all(k.arg == "start" for k in v.keywords)
                and isinstance(e.target, ast.Tuple) and len(e.target.elts) == 2 and all(isinstance(x, ast.Name) for x in e.target.elts)):
            start = v.args[1] if len(v.args) == 2 else next((k.value for k in v.keywords if k.arg == "start"), None)
            sv = 0 if start is None else (start.value if isinstance(start, ast.Constant) else "?")
            return e.target.elts[0].id, e.target.elts[1].id, v.args[0], sv
        return None

    # the two loops around the yield
    shapes = set()
    for s_ in sums:
        for i, e in enumerate(s_.effects):
            if e.kind == "yield":
                fors = [(j, x) for j, x in enumerate(s_.effects[:i]) if x.kind == "for" and x.line in e.loops]
                shapes.add(tuple((x.line, enum_of(x) is not None) for _, x in fors))
    require(len(shapes) == 1 and len(next(iter(shapes))) == 2 and all(ok for _, ok in next(iter(shapes))),
            f"{fi.fq}: expected the notes to be yielded inside a row loop and a cell loop, both `for i, x in enumerate(..)`; found {sorted(shapes)}")
    (Lrow, _), (Lcell, _) = next(iter(shapes))
    decs = []
    row_facts = set()
    for s_ in sums:
        fr = next(((i, e) for i, e in enumerate(s_.effects) if e.kind == "for" and e.line == Lrow), None)
        fc = next(((i, e) for i, e in enumerate(s_.effects) if e.kind == "for" and e.line == Lcell), None)
        if fr is None:
            continue
        li, lv, rows_e, lstart = enum_of(fr[1])
        rows_txt = ast.unparse(closed(s_, rows_e, fr[0]))
        if fc is None:
            row_facts.add(("rows", rows_txt, lstart))
            continue
        ci_, cv, cells_e, cstart = enum_of(fc[1])
        # what the cells are: the result of the keysound extraction on this row's stripped text with this row's list
        ks_names = {x.value.args[1].id for x in s_.effects[:fc[0]] if x.kind == "bind" and isinstance(x.value, ast.Call) and callee_name(ctx, fi, x.value).endswith("NoteData._extract_keysound_indices")
                    and len(x.value.args) == 2 and isinstance(x.value.args[1], ast.Name)}
        cells_c = closed(s_, cells_e, fc[0], keep=sorted(ks_names))
        ks_name = None
        cells_txt = ast.unparse(cells_c)
        if isinstance(cells_c, ast.Call) and callee_name(ctx, fi, cells_c).endswith("NoteData._extract_keysound_indices") and len(cells_c.args) == 2 and isinstance(cells_c.args[1], ast.Name):
            ks_name = cells_c.args[1].id
        ks_bind = None
        if ks_name is not None:
            r = s_.resolve(ks_name, fc[0])
            if r is not None:
                ks_bind = (ast.unparse(r[1].value) if r[1].value is not None else "?", r[1].loops)
        ct = re.sub(rf"\b{re.escape(lv)}\b", "ROW", cells_txt)
        if ks_name:
            ct = re.sub(rf"(?<![\w.]){re.escape(ks_name)}\b", "KS", ct)
        row_facts.add(("cells", rows_txt, lstart, cstart, ct, ks_bind and (ks_bind[0], ks_bind[1] == (Lrow,))))
        toks = []
        for i, e in enumerate(s_.effects):
            if Lcell not in e.loops:
                continue
            if e.kind == "yield":
                v = closed(s_, e.value, i, keep=[lv, cv, li, ci_] + ([ks_name] if ks_name else []), opq=e.opq)
                txt = None
                if isinstance(v, ast.Call) and callee_name(ctx, fi, v) == "simfile.notes.Note":
                    fm = field_map(ctx, "simfile.notes.Note", v)
                    bt = fm.get("beat")
                    beat_ok = None
                    if isinstance(bt, ast.Call) and callee_name(ctx, fi, bt) == "simfile.timing.Beat" and len(bt.args) == 2 and not bt.keywords:
                        ROWS = f"len({rows_txt})"

                        def subst(x):
                            if isinstance(x, ast.Call) and isinstance(x.func, ast.Name) and x.func.id == "len" and len(x.args) == 1 and ast.unparse(x.args[0]) == rows_txt:
                                return None
                            return None

                        n_, d_ = P.poly(bt.args[0]), P.poly(bt.args[1])
                        rows_a = P.atom(ROWS)
                        spec_num = P.add(P.mul(P.mul(P.const(4), P.atom(pm)), rows_a), P.mul(P.const(4), P.atom(li)))
                        beat_ok = P.equal(P.mul(n_, rows_a), P.mul(spec_num, d_)) and d_ != {}
                        beat_txt = "BEAT" if beat_ok else f"Beat({ast.unparse(bt.args[0])}, {ast.unparse(bt.args[1])}) [n*rows != (4*m*rows + 4*row)*d]"
                    elif bt is not None:
                        beat_txt = f"{ast.unparse(bt)} [not an exact numerator/denominator pair: a single argument is rounded to the 1/48 grid]"
                    else:
                        beat_txt = "<absent>"
                    parts = {"beat": beat_txt}
                    for fld in ("column", "note_type", "player", "keysound_index"):
                        x = fm.get(fld)
                        t = ast.unparse(x) if x is not None else "<absent (default)>"
                        for a_, b_ in ((cv, "CELL"), (ci_, "COL"), (ks_name or "\0", "KS")):
                            t = re.sub(rf"\b{re.escape(a_)}\b", b_, t)
                        parts[fld] = t
                    txt = "yield Note(" + ", ".join(f"{k}={v2}" for k, v2 in parts.items()) + ")"
                toks.append(txt or ("yield " + ast.unparse(v)))
            elif e.kind in ("break", "return", "raise", "yieldfrom", "store", "aug", "delete"):
                toks.append(e.kind if e.kind in ("break", "return") else e.text)
        asg = {re.sub(rf"\b{re.escape(cv)}\b", "CELL", k): v for k, v in s_.atoms_in(Lcell).items()}
        decs.append(Dec(asg, tuple(toks), s_))
    ctx.floor("paths through the cell loop of _iter_measure", len(decs), 2)
    row_level = set()
    for s_ in sums:
        if not any(e.kind == "for" and e.line == Lrow for e in s_.effects):
            continue
        for k_, (ls_, _n) in s_.where.items():
            if Lrow in ls_ and Lcell not in ls_:
                row_level.add(s_.plain(k_))
    ctx.expect("R-ORDER", fi, "every row of the measure is decoded: nothing is decided about a row before its cells are read", not row_level, "",
               f"the row loop tests {sorted(row_level)} before (or instead of) walking the row's cells: a row that is skipped or treated specially loses its notes "
               "(a keysound number inside brackets, for instance, can look like empty cells)", node=fi.node)
    want = f"yield Note(beat=BEAT, column=COL, note_type=NoteType(CELL), player={pp}, keysound_index=KS[COL])"
    tjudge(ctx, "R-REBUILD", fi, "a note is built exactly for cells other than '0': beat == 4*measure + 4*row/rows (exact pair), column = the cell's index, NoteType(cell), "
           "player = the section index, keysound_index = the bracket value recorded for this column", decs, ["CELL == '0'"], lambda a: () if a["CELL == '0'"] else (want,),
           why="one correctly placed note per non-zero cell; every field comes from the cell's own position and text")
    cells_facts = [f for f in row_facts if f[0] == "cells"]
    good_rows = bool(cells_facts) and all(f[1] == f"{pmeasure}.splitlines()" for f in row_facts)
    ctx.expect("R-TABLE", fi, "rows of a measure are its lines", good_rows, str(sorted({f[1] for f in row_facts})), f"the row loop iterates {sorted({f[1] for f in row_facts})}", node=fi.node)
    ctx.expect("R-POLY", fi, "row and column indices count from 0", all(f[2] == 0 for f in row_facts) and all(f[3] == 0 for f in cells_facts), "", f"enumerate starts: rows {sorted({f[2] for f in row_facts})}, "
               f"cells {sorted({f[3] for f in cells_facts})}: every index is shifted", node=fi.node)
    ctx.expect("R-TABLE", fi, "cells are the characters of the row: the row's own stripped text with its keysound brackets extracted", bool(cells_facts) and
               all(f[4] == "NoteData._extract_keysound_indices(ROW.strip(), KS)" for f in cells_facts), str(sorted({f[4] for f in cells_facts})),
               f"the cell loop iterates {sorted({f[4] for f in cells_facts})}", node=fi.node)
    ctx.expect("R-REBUILD", fi, "the keysound scratch list is created afresh (all None) for every row", bool(cells_facts) and all(f[5] is not None and f[5][1] is True and f[5][0].startswith("[None] * ") for f in cells_facts), "",
               f"the list handed to the extraction is {sorted({str(f[5]) for f in cells_facts})} (expected a new [None] * {sn}._columns inside the row loop): an index parsed on one row leaks onto later "
               "notes in the same column", node=fi.node)
    # call site in __iter__
    fit = p.func(f"{ND}.__iter__")
    sn2 = fit.param_names()[0]
    isums = tsums(ctx, fit)
    seen = set()
    for s_ in isums:
        fors = [(i, e) for i, e in enumerate(s_.effects) if e.kind == "for"]
        ys = [(i, e) for i, e in enumerate(s_.effects) if e.kind in ("yield", "yieldfrom")]
        others = [e.text for e in s_.effects if e.kind in ("break", "continue", "return", "raise", "store") and e.loops]
        for i, e in ys:
            encl = [(j, x) for j, x in fors if x.line in e.loops]
            if len(encl) != 2 or not all(enum_of(x) for _, x in encl):
                seen.add(("?", ast.unparse(e.value) if e.value is not None else ""))
                continue
            (j1, f1), (j2, f2) = encl
            p_i, sec, it1, st1 = enum_of(f1)
            m_i, meas, it2, st2 = enum_of(f2)
            t1 = ast.unparse(closed(s_, it1, j1))
            t2 = ast.unparse(closed(s_, it2, j2, keep=[sec])).replace(sec, "SECTION")
            call = ast.unparse(closed(s_, e.value, i, keep=[p_i, m_i, meas]))
            for a_, b_ in ((p_i, "P"), (m_i, "M"), (meas, "MEASURE")):
                call = re.sub(rf"\b{re.escape(a_)}\b", b_, call)
            seen.add((e.kind, t1, st1, t2, st2, call, tuple(others)))
    want_it = ("yieldfrom", f"{sn2}._notedata.split('&')", 0, "SECTION.split(',')", 0, f"{sn2}._iter_measure(P, M, MEASURE.strip())", ())
    ctx.expect("R-TABLE", fit, "player sections are split on '&' and measures on ',' (indices from 0); every measure's text, stripped of surrounding blank lines, is decoded with its player and "
               "measure index, in text order", seen == {want_it}, str(sorted(seen))[:300], f"__iter__ does {sorted(seen)}; expected {want_it}", node=fit.node)


def notedata_verbatim(ctx: Ctx) -> None:
    """C07.4: the text is stored and returned unchanged; nobody else writes it."""
    p = ctx.p
    init = p.func(f"{ND}.__init__")
    sn = init.param_names()[0]
    srcp = init.param_names()[1]
    # nobody but the constructor stores the text
    n = 0
    for f in p.nontest_functions():
        for node in body_walk(f.node):
            tgts = []
            if isinstance(node, ast.Assign):
                tgts = node.targets
            elif isinstance(node, (ast.AugAssign, ast.AnnAssign)):
                tgts = [node.target]
            for t in tgts:
                if isinstance(t, ast.Attribute) and t.attr == "_notedata":
                    n += 1
                    if f.fq != init.fq:
                        ctx.bad("R-EFFECT", f, "store to ._notedata outside NoteData.__init__", src(node), node=node)
    ctx.floor("stores to _notedata", n, 1)
    # what the constructor stores, by the kind of source
    from .tables import Dec, closed_text as _ct, judge as tjudge, sums_of as tsums
    from ..decide import IGNORE as _IGN
    S, C, N = f"isinstance({srcp}, str)", f"isinstance({srcp}, BaseChart)", f"isinstance({srcp}, NoteData)"
    NN = f"{srcp}.notes is None"
    decs = []
    for s_ in tsums(ctx, init):
        eff = []
        for e in s_.effects:
            if e.kind == "store" and ast.unparse(e.target) == f"{sn}._notedata":
                eff.append(_ct(s_, e, keep=[sn, srcp]))
            elif e.kind == "raise":
                ex = e.value.func if isinstance(e.value, ast.Call) else e.value
                eff.append("raise " + (ast.unparse(ex) if ex is not None else ""))
        decs.append(Dec(dict(s_.plain_assign()), tuple(eff), s_))

    def spec(a):
        if a[S]:
            return (f"{sn}._notedata = {srcp}",)
        if a[C]:
            return ("raise ValueError",) if a[NN] else (f"{sn}._notedata = {srcp}.notes",)
        if a[N]:
            return (f"{sn}._notedata = {srcp}._notedata",)
        return ("raise TypeError",)

    tjudge(ctx, "R-TABLE", init, "the note data text is kept verbatim: a str as it is, a chart's notes (ValueError when it has none), another NoteData's text; anything else is a TypeError",
           decs, [S, C, N, NN], spec, why="the string form of the note data must be the original text unchanged")
    s = p.func(f"{ND}.__str__")
    rets = [r for r in body_walk(s.node) if isinstance(r, ast.Return)]
    ctx.expect("R-TABLE", s, "str(NoteData) is the stored text", len(rets) == 1 and self_attr(rets[0].value, s.param_names()[0]) == "_notedata", "", "", node=s.node)


# ---------------------------------------------------------------------------
# C08


def _groupby_loops(ctx: Ctx, fi: FunctionInfo) -> List[Tuple[ast.For, str, str, ast.expr, ast.Lambda]]:
    out = []
    for lp in for_loops(fi):
        it = lp.iter
        if isinstance(it, ast.Call) and callee_name(ctx, fi, it).endswith("itertools.groupby") and len(it.args) == 2 and isinstance(it.args[1], ast.Lambda) \
                and isinstance(lp.target, ast.Tuple) and len(lp.target.elts) == 2 and all(isinstance(e, ast.Name) for e in lp.target.elts):
            out.append((lp, lp.target.elts[0].id, lp.target.elts[1].id, it.args[0], it.args[1]))
    return out


def from_notes_paths(ctx: Ctx) -> None:
    """C08.1: every path to the return of from_notes has written at least one measure."""
    p = ctx.p
    fi = p.func(f"{ND}.from_notes")
    cfg = ctx.cfg(fi)
    gl = _groupby_loops(ctx, fi)
    group_vars = {g for _, _, g, _, _ in gl}

    def nonempty(fornode: ast.For, env) -> bool:
        # library fact 1: a group yielded by itertools.groupby is never empty
        # library fact 2: groupby over a non-empty iterable yields at least one group
        it = fornode.iter
        if isinstance(it, ast.Call) and callee_name(ctx, fi, it).endswith("itertools.groupby") and it.args and isinstance(it.args[0], ast.Name) and it.args[0].id in group_vars:
            return True
        return False

    pm = fi.nested.get("push_measure")
    require(pm is not None, f"{fi.fq}: nested push_measure not found")
    targets = set()
    for c in calls(fi):
        if callee(ctx, fi, c) is pm:
            targets.add(cfg_node_of(cfg, fi, c))
    ctx.floor("push_measure call sites", len(targets), 3)
    pe = PathEnumerator(cfg, nonempty=nonempty, limit=50000)
    total = 0
    bad = []
    for r in pe.paths():
        if r.end != cfg.exit:
            continue
        total += 1
        if not (set(r.nodes) & targets):
            bad.append(r.nodes)
    if bad:
        ctx.bad("R-ORDER", fi, "every exit has written a measure", f"{len(bad)} of {total} paths reach 'return' without any push_measure(): the note data is empty and "
                "its column count cannot be read (IndexError) - e.g. the empty stream", node=fi.node, path=cfg.describe_path(bad[0]))
    else:
        ctx.ok("R-ORDER", fi, "every exit has written a measure", f"{total} paths (loops: zero / at-least-once; sentinels constant-propagated; groupby groups non-empty)", node=fi.node)
    ctx.floor("paths through from_notes", total, 4)
    rets = [r for r in body_walk(fi.node) if isinstance(r, ast.Return)]
    r = one(rets, f"return in {fi.fq}")
    v = r.value
    ok = isinstance(v, ast.Call) and isinstance(v.func, ast.Name) and v.func.id == fi.param_names()[0] and len(v.args) == 1 \
        and isinstance(v.args[0], ast.Call) and isinstance(v.args[0].func, ast.Attribute) and v.args[0].func.attr == "getvalue"
    ctx.expect("R-TABLE", fi, "the result wraps exactly the text that was written", ok, src(v), f"returns {src(v)}", node=r)


def from_notes_fill(ctx: Ctx) -> None:
    """C08.2: the top level of from_notes, read off its path effects.  Per player group (when the player number advances): a '&' separator unless it
    is the first, a blank measure plus '&' for every skipped player (range(last + 1, p)), last <- p.  Per measure group: a ',' separator unless it
    is the first of the player, a blank measure plus ',' for every skipped measure (range(last + 1, m)), then the measure with all its notes,
    last <- m.  After the loops: one blank measure exactly when no note was seen."""
    from ..decide import IGNORE, check_table
    from .tables import Dec, closed, judge as tjudge, sums_of as tsums
    p = ctx.p
    fi = p.func(f"{ND}.from_notes")
    pmf = fi.nested.get("push_measure")
    require(pmf is not None, f"{fi.fq}: nested push_measure not found")
    notes_p = fi.param_names()[1]

    def is_range(fornode, env):
        it = fornode.iter
        return isinstance(it, ast.Call) and isinstance(it.func, ast.Name) and it.func.id == "range"

    # the fill loops are taken at least once on every path (an empty range writes nothing - nothing to judge there)
    sums = tsums(ctx, fi, variant="fill-loops-taken", also_nonempty=is_range)
    writers_ = sorted({t.id for n in body_walk(fi.node) if isinstance(n, ast.Assign) and isinstance(n.value, ast.Call) and ast.unparse(n.value) in ("StringIO()", "io.StringIO()")
                       for t in n.targets if isinstance(t, ast.Name)})
    require(len(writers_) == 1, f"{fi.fq}: expected one StringIO() buffer, found {writers_}")
    WR = writers_[0]
    # the two grouping loops, by what they group on
    loops = {}
    for s_ in sums:
        for i, e in enumerate(s_.effects):
            if e.kind == "for" and isinstance(e.value, ast.Call) and ast.unparse(e.value.func) in ("groupby", "itertools.groupby") and len(e.value.args) == 2 and isinstance(e.value.args[1], ast.Lambda) \
                    and isinstance(e.target, ast.Tuple) and len(e.target.elts) == 2 and all(isinstance(x, ast.Name) for x in e.target.elts):
                lam = e.value.args[1]
                body = ast.unparse(lam.body).replace(lam.args.args[0].arg, "N")
                kind = {"N.player": "player", "N.beat // 4": "measure"}.get(body)
                if kind:
                    loops.setdefault(kind, set()).add((e.line, e.target.elts[0].id, e.target.elts[1].id, ast.unparse(e.value.args[0]), len(e.loops)))
    require(set(loops) == {"player", "measure"} and all(len(v) == 1 for v in loops.values()), f"{fi.fq}: expected one groupby loop over players and one over measures (key n.player / n.beat // 4), found {loops}")
    Lp, P_, PG, p_src, p_depth = next(iter(loops["player"]))
    Lm, M_, MG, m_src, m_depth = next(iter(loops["measure"]))
    ctx.expect("R-ORDER", fi, "players are grouped over the caller's stream, measures over each player's notes", p_src == notes_p and m_src == PG and p_depth == 0 and m_depth == 1,
               f"{p_src} / {m_src}", f"the player loop groups {p_src} (depth {p_depth}), the measure loop groups {m_src} (depth {m_depth})", node=fi.node)
    # the sentinels: locals bound to -1 before the player loop / inside it before the measure loop
    sent = {"player": set(), "measure": set()}
    for s_ in sums:
        for e in s_.effects:
            if e.kind == "bind" and isinstance(e.target, ast.Name) and e.value is not None and ast.unparse(e.value) == "-1":
                if not e.loops:
                    sent["player"].add(e.target.id)
                elif e.loops == (Lp,):
                    sent["measure"].add(e.target.id)
    require(all(len(v) == 1 for v in sent.values()), f"{fi.fq}: expected one 'last player' and one 'last measure' sentinel starting at -1, found {sent}")
    LP, LM = next(iter(sent["player"])), next(iter(sent["measure"]))

    def tok(s_, i, e, base_depth):
        ind = "  " * (len(e.loops) - base_depth)
        v = e.value
        if e.kind == "for":
            return ind[2:] + "for " + ast.unparse(closed(s_, v, i, keep=[LP, LM, P_, M_]))
        if e.kind == "bind" and isinstance(e.target, ast.Name):
            if e.target.id in (LP, LM):
                return ind + f"{e.target.id} := {ast.unparse(v) if v is not None else '?'}"
            return None
        if e.kind == "expr" and isinstance(v, ast.Call):
            f_ = v.func
            if isinstance(f_, ast.Name) and f_.id == pmf.name:
                if (not v.args and not v.keywords) or (len(v.args) == 1 and not v.keywords and isinstance(v.args[0], (ast.List, ast.Tuple)) and not v.args[0].elts):
                    return ind + "blank measure"
                return ind + "measure " + ", ".join(ast.unparse(a) for a in v.args)
            if isinstance(f_, ast.Attribute) and f_.attr == "write" and isinstance(f_.value, ast.Name) and f_.value.id == WR and len(v.args) == 1:
                c = try_ev(ctx, fi, v.args[0])
                if not isinstance(c, str):
                    try:
                        c = try_ev(ctx, fi, closed(s_, v.args[0], i))
                    except Exception:
                        c = None
                if isinstance(c, str):
                    return ind + f"write {c!r}"
                nonconst.append(f"line {e.line % 100000}: {ast.unparse(closed(s_, v.args[0], i))[:90]}")
                return ind + "write? <computed text>"
            return ind + "other " + ast.unparse(v)
        if e.kind in ("store", "aug", "delete", "break", "continue", "raise", "yield", "return"):
            return ind + ("other " + e.text if e.kind not in ("break", "continue", "return") else e.kind)
        return None

    nonconst: List[str] = []
    pl_decs, me_decs, post_decs = [], [], []
    for s_ in sums:
        has_p = any(e.kind == "for" and e.line == Lp for e in s_.effects)
        has_m = any(e.kind == "for" and e.line == Lm for e in s_.effects)
        if has_p:
            toks = [t for t in (tok(s_, i, e, 1) for i, e in enumerate(s_.effects) if Lp in e.loops and Lm not in e.loops and not (e.kind == "for" and e.line == Lm)) if t is not None]
            pl_decs.append(Dec({k: v for k, v in s_.atoms_in(Lp).items() if not any(Lm in ls for ls in [s_.where.get(k, ((), 0))[0]])}, tuple(toks), s_))
        if has_m:
            toks = [t for t in (tok(s_, i, e, 2) for i, e in enumerate(s_.effects) if Lm in e.loops) if t is not None]
            me_decs.append(Dec(dict(s_.atoms_in(Lm)), tuple(toks), s_))
        idx = next((i for i, e in enumerate(s_.effects) if e.kind == "for" and e.line == Lp), None)
        tail = [t for t in (tok(s_, i, e, 0) for i, e in enumerate(s_.effects) if not e.loops and (idx is None or i > idx) and e.kind not in ("return",)) if t is not None and not t.startswith(f"{LP} := ")]
        asg = {k: v for k, v in s_.plain_assign().items() if not s_.where.get(k, ((), 0))[0]}
        post_decs.append(Dec(asg, (tuple(tail), "iterated" if has_p else "no note"), s_))
    # a computed text (not a constant separator) cannot be compared with the expected separators: such paths are left out of the tables and
    # reported as unrecognised at the end, unless a definite deviation shows on the paths that can be judged
    has_q = lambda d: any("write? " in t for t in (d.outcome if not (d.outcome and isinstance(d.outcome[0], tuple)) else d.outcome[0]))
    n_unknown = sum(1 for d in pl_decs + me_decs + post_decs if has_q(d))
    pl_decs = [d for d in pl_decs if not has_q(d)]
    me_decs = [d for d in me_decs if not has_q(d)]
    post_decs = [d for d in post_decs if not has_q(d)]
    ADV, NF, NFM = f"{P_} > {LP}", f"{LP} > -1", f"{LM} > -1"

    def spec_player(a):
        if not a[ADV]:
            return (f"{LM} := -1",)
        return ((f"write {'&' + chr(10)!r}",) if a[NF] else ()) + (f"for range({LP} + 1, {P_})", "  blank measure", f"  write {'&' + chr(10)!r}", f"{LP} := {P_}", f"{LM} := -1")

    tjudge(ctx, "R-TABLE", fi, "per player group: when the player number advances, '&' unless it is the first, a blank measure + '&' for each skipped player (range(last + 1, p)), last <- p; "
           "the measure counter restarts at -1", pl_decs, [ADV, NF], spec_player, why="skipped players are blank; sections are separated by '&' as the reader splits them")

    def spec_measure(a):
        return ((f"write {',' + chr(10)!r}",) if a[NFM] else ()) + (f"for range({LM} + 1, {M_})", "  blank measure", f"  write {',' + chr(10)!r}", f"measure list({MG})", f"{LM} := {M_}")

    tjudge(ctx, "R-TABLE", fi, "per measure group: ',' unless it is the player's first, a blank measure + ',' for each skipped measure (range(last + 1, m)), then the measure with all its notes, last <- m",
           me_decs, [NFM], spec_measure, why="every measure up to the last note is present; skipped measures are blank; measures are separated by ',' as the reader splits them")
    # after the loops: a blank measure exactly when nothing was written
    NONE = f"{LP} == -1"
    v_, u_ = check_table(post_decs, [NONE], lambda a: IGNORE, lambda d: d.outcome, strict_foreign=False)
    bad_post = []
    for d in post_decs:
        tail, how = d.outcome
        none_seen = d.assign.get(canon_k(NONE))
        if how == "no note":
            if tail != ("blank measure",):
                bad_post.append(f"for an empty stream the function writes {list(tail)} after the loops (expected one blank measure)")
        elif none_seen is True and tail not in (("blank measure",),):
            bad_post.append(f"under {NONE} the function writes {list(tail)}")
        elif none_seen is False and tail != ():
            bad_post.append(f"although notes were written ({LP} != -1) the function still writes {list(tail)} after the loops")
        elif none_seen is None and tail not in ((), ) and how == "iterated":
            raise AnalysisError(f"{fi.fq}: after the loops {list(tail)} is written under {dict(d.assign)}: not decided from the 'last player' sentinel")
    ctx.expect("R-TABLE", fi, "after the loops: one blank measure exactly when no note was seen (the empty stream gives one blank measure, not an error)", not bad_post, f"{len(post_decs)} paths",
               "; ".join(sorted(set(bad_post))[:2]), node=fi.node)
    # writer separators vs reader split characters
    fit = p.func(f"{ND}.__iter__")
    splits = sorted({s[1] for c in calls(fit) for s in [_split_on(c)] if s})
    ctx.expect("R-TABLE", fi, "separators written ('&', ',') are the ones the reader splits on", splits == ["&", ","], str(splits), f"reader splits on {splits}", node=fi.node)
    if n_unknown and not any(i_.verdict == "violation" and i_.clause == ctx.clause for i_ in ctx.instances):
        raise AnalysisError(f"{fi.fq}: {n_unknown} path(s) write a computed text instead of a constant separator ({nonconst[0]}): not compared")


def canon_k(t: str) -> str:
    from ..decide import key as _k
    return _k(t)


def from_notes_rows(ctx: Ctx) -> None:
    """C08.3/4: rows per measure = 4*lcm(denominators); row key = beat mod 4 * q; cell text = str(note) at note.column."""
    p = ctx.p
    fi = p.func(f"{ND}.from_notes")
    pm = fi.nested["push_measure"]
    mparam = pm.param_names()[0]
    # q = lcm of the beats' denominators: an accumulator starting at 1, folded over every note of the measure with a*d // gcd(a, d)
    from .tables import sums_of as tsums
    msums = tsums(ctx, pm)
    accs = {}
    for s_ in msums:
        for i, e in enumerate(s_.effects):
            if e.kind == "for" and ast.unparse(e.value) == mparam and isinstance(e.target, ast.Name):
                nv_ = e.target.id
                inl = [x for x in s_.effects if e.line in x.loops and x.kind == "bind" and isinstance(x.target, ast.Name) and x.opaque]
                leave = [x for x in s_.effects if e.line in x.loops and x.kind in ("break", "continue", "return", "raise")]
                for x in inl:
                    r0 = s_.resolve(x.target.id, i)
                    accs.setdefault(x.target.id, []).append((x.value, r0[1].value if r0 is not None else None, nv_, bool(leave), dict(s_.atoms_in(e.line))))
    okq = False
    q = None
    detail = ""
    for name, uses in accs.items():
        good = bool(uses)
        for step, init, nv_, leave, atoms_ in uses:
            D = f"{nv_}.beat.denominator"
            ok1 = isinstance(step, ast.BinOp) and isinstance(step.op, ast.FloorDiv) and P.equal(P.poly(step.left), P.mul(P.atom(name), P.atom(D))) \
                and isinstance(step.right, ast.Call) and callee_name_of(step.right) == "gcd" and sorted(ast.unparse(a_) for a_ in step.right.args) == sorted([name, D])
            ok2 = init is not None and try_ev(ctx, pm, init) == 1
            good = good and ok1 and ok2 and not leave and not atoms_
            detail = f"{name} := {src(step, 100)} (from {src(init) if init is not None else '?'})"
        if good:
            okq, q = True, name
    if q is None:
        # the accumulator is still needed to judge the row key: take the only candidate
        q = next(iter(accs), None)
    ctx.expect("R-POLY", pm, "q is the least common multiple of the beats' denominators (1 for an empty measure)", okq, detail, f"q accumulates as: {detail or 'no accumulator over the measure found'}", node=pm.node)
    if q is None:
        raise AnalysisError(f"{pm.fq}: no accumulator folded over the measure's notes")
    # row key
    gls = _groupby_loops(ctx, pm)
    lp, k, g, it, lam = one(gls, f"groupby loop over rows in {pm.fq}")
    argn = lam.args.args[0].arg
    body = lam.body
    if isinstance(body, ast.Call) and isinstance(body.func, ast.Name) and body.func.id == "int" and len(body.args) == 1:
        inner = body.args[0]
    else:
        inner = body
    MOD = f"{argn}.beat % 4"

    def sub(e):
        if isinstance(e, ast.BinOp) and isinstance(e.op, ast.Mod) and ast.unparse(e) == MOD:
            return None
        return None

    okk = P.equal(P.poly(inner), P.mul(P.atom(MOD), P.atom(q))) and isinstance(it, ast.Name) and it.id == mparam
    ctx.expect("R-POLY", pm, "row index of a note is (beat mod 4) * q", okk, src(body), f"row key is {src(body)} over {src(it)}", node=lp)
    # rows: every row is written as 'columns' zero cells with each note's own text at its column, joined, then a line break; the rows of a measure
    # are: blanks for range(last + 1, r), the group's row, last <- r (per group); then blanks for range(last + 1, 4*q)
    from .common import string_parts as _sp
    from .tables import closed as _closed2, closed_text as _ct2

    # the text buffer everything is written to: the local of from_notes that is bound to StringIO()
    _fn_outer = pm.parent if getattr(pm, "parent", None) is not None else pm
    writers_ = sorted({t.id for n in body_walk(_fn_outer.node) if isinstance(n, ast.Assign) and isinstance(n.value, ast.Call) and ast.unparse(n.value) in ("StringIO()", "io.StringIO()")
                       for t in n.targets if isinstance(t, ast.Name)})
    require(len(writers_) == 1, f"{_fn_outer.fq}: expected one StringIO() buffer, found {writers_}")
    WR = writers_[0]

    def row_tokens(s_, keep=()):
        """Effects of one path as tokens: ('for', line, iterable) / ('row', loops, source|'blank') / ('bind', loops, text) / ('?', text)."""
        toks = []
        effs = s_.effects
        i = 0
        while i < len(effs):
            e = effs[i]
            if e.kind == "for":
                toks.append(("for", e.line, _ct2(s_, e, keep=keep).split(" ", 1)[-1], e.loops))
                i += 1
                continue
            if e.kind == "bind" and isinstance(e.target, ast.Name) and e.opaque and e.value is not None and ast.unparse(e.value) == "['0'] * columns":
                X = e.target.id
                loops0 = e.loops
                j = i + 1
                source = "blank"
                ok = True
                if j < len(effs) and effs[j].kind == "for" and effs[j].loops == loops0:
                    cell_loop = effs[j]
                    nv_ = ast.unparse(cell_loop.target)
                    source = _ct2(s_, cell_loop, keep=keep).split(" ", 1)[-1]
                    j += 1
                    if j < len(effs) and effs[j].kind == "store" and cell_loop.line in effs[j].loops:
                        ok = effs[j].text == f"{X}[{nv_}.column] = str({nv_})"
                        j += 1
                    else:
                        ok = False
                seq = []
                # a temporary holding the row's text (t = ''.join(X) + '\n' ; write(t)) is looked through
                while j < len(effs) and effs[j].kind == "bind" and effs[j].loops == loops0 and isinstance(effs[j].target, ast.Name) and effs[j].value is not None \
                        and f"''.join({X})" in ast.unparse(effs[j].value):
                    j += 1
                while j < len(effs) and effs[j].kind == "expr" and effs[j].loops == loops0 and ast.unparse(effs[j].value).startswith(f"{WR}.write("):
                    arg_ = effs[j].value.args[0] if len(effs[j].value.args) == 1 else None
                    if isinstance(arg_, ast.Name):
                        arg_ = _closed2(s_, arg_, j, keep=[X])
                    parts = _sp(arg_) if arg_ is not None else None
                    if parts is None:
                        ok = False
                        break
                    for k_, x_ in parts:
                        if k_ == "lit":
                            if seq and seq[-1][0] == "lit":
                                seq[-1] = ("lit", seq[-1][1] + x_)
                            else:
                                seq.append(("lit", x_))
                        else:
                            seq.append(("expr", ast.unparse(x_.value if isinstance(x_, ast.FormattedValue) else x_)))
                    j += 1
                    if seq == [("expr", f"''.join({X})"), ("lit", "\n")]:
                        break
                if ok and seq == [("expr", f"''.join({X})"), ("lit", "\n")]:
                    toks.append(("row", loops0, source))
                else:
                    toks.append(("?", f"row started at line {e.line % 100000} is not '0'-cells + note texts at their columns, joined, + line break: {seq}"))
                i = j
                continue
            if e.kind == "bind" and isinstance(e.target, ast.Name) and (e.opaque or isinstance(e.value, ast.Name)) and e.loops:
                toks.append(("bind", e.loops, e.text))
            elif e.kind in ("expr", "store", "yield", "return", "raise") and not (e.kind == "return" and e.value is None):
                toks.append(("?", e.text))
            i += 1
        return toks

    msums2 = tsums(ctx, pm)
    gl = {(ast.unparse(e.target), e.line) for s_ in msums2 for e in s_.effects if e.kind == "for" and isinstance(e.value, ast.Call) and ast.unparse(e.value.func) in ("groupby", "itertools.groupby") and not e.loops}
    require(len(gl) == 1, f"{pm.fq}: expected one groupby loop over the rows, found {sorted(gl)}")
    gt, gline = next(iter(gl))
    gtt = ast.parse(gt, mode="eval").body
    require(isinstance(gtt, ast.Tuple) and len(gtt.elts) == 2 and all(isinstance(x, ast.Name) for x in gtt.elts), f"{pm.fq}: groupby target {gt} is not (index, row)")
    rk, rrow = gtt.elts[0].id, gtt.elts[1].id
    bad_tokens = set()
    in_loop_seqs = set()
    tail_seqs = set()
    lasts = set()
    for s_ in msums2:
        for e in s_.effects:
            if e.kind == "bind" and gline in e.loops and isinstance(e.target, ast.Name) and isinstance(e.value, ast.Name) and e.value.id == rk:
                lasts.add(e.target.id)
    keep_ = [q, rk, rrow] + sorted(lasts)
    for s_ in msums2:
        toks = row_tokens(s_, keep_)
        for t in toks:
            if t[0] == "?":
                bad_tokens.add(t[1])
        if any(t[0] == "for" and t[1] == gline for t in toks):
            inl = tuple((t[0],) + tuple(x for x in t[2:] if not isinstance(x, tuple)) for t in toks if (t[0] in ("row", "bind") and gline in t[1]) or (t[0] == "for" and gline in t[3]))
            in_loop_seqs.add(inl)
            for t in toks:
                pass
        # after the groupby loop (or instead of it): trailing blanks
        idx_g = max([i for i, t in enumerate(toks) if (t[0] == "for" and (t[1] == gline or gline in t[3])) or (t[0] in ("row", "bind") and gline in t[1])] or [-1])
        tail = tuple((t[0],) + tuple(x for x in t[2:] if not isinstance(x, tuple)) for t in toks[idx_g + 1:] if not (t[0] == "bind") and not (t[0] == "for" and "measure" == t[2] and False))
        tail = tuple(t for t in tail if not (t[0] == "for" and not t[1].startswith("range(")))
        tail_seqs.add(tail)
    ctx.expect("R-TABLE", pm, "a row is 'columns' zero cells with each note's own text (str(note)) at its column, joined, then a line break", not bad_tokens, "", "; ".join(sorted(bad_tokens))[:400], node=pm.node)
    last = one(sorted(lasts), f"'last row' sentinel of {pm.fq}") if lasts else None
    if last is None:
        ctx.bad("R-ORDER", pm, "'last row' is advanced to the current row every iteration", f"no local is set to the group's row index '{rk}' inside the row loop", node=pm.node)
        return

    def is_range(txt, lo_poly, hi_poly):
        try:
            c = ast.parse(txt, mode="eval").body
        except SyntaxError:
            return False
        return isinstance(c, ast.Call) and isinstance(c.func, ast.Name) and c.func.id == "range" and len(c.args) == 2 and not c.keywords and P.equal(P.poly(c.args[0]), lo_poly) and P.equal(P.poly(c.args[1]), hi_poly)

    lo_p = P.add(P.atom(last), P.const(1))
    want_group = ("row", f"list({rrow})")
    okg = bool(in_loop_seqs)
    detail_g = []
    for seq in in_loop_seqs:
        seq = list(seq)
        if seq and seq[0][0] == "for":
            if not (is_range(seq[0][1], lo_p, P.atom(rk)) and len(seq) >= 2 and seq[1] == ("row", "blank")):
                okg = False
            seq = seq[2:]
        if seq != [want_group, ("bind", f"{last} := {rk}")]:
            okg = False
        detail_g.append(str(seq))
    ctx.expect("R-POLY", pm, f"per group of the measure: blanks for range({last} + 1, {rk}), then the group's row with all its notes, then {last} <- {rk}", okg, "", f"row loop does: {sorted(in_loop_seqs, key=str)}", node=pm.node)
    okt = bool(tail_seqs)
    for seq in tail_seqs:
        seq = list(seq)
        if not seq:
            continue
        # on a path without any group the sentinel is still -1, and without any note q is still 1: the same range with those values
        alts = [(lo_, hi_) for lo_ in (lo_p, P.const(0)) for hi_ in (P.mul(P.const(4), P.atom(q)), P.const(4))]
        if not (seq[0][0] == "for" and any(is_range(seq[0][1], lo_, hi_) for lo_, hi_ in alts) and seq[1:] == [("row", "blank")]):
            okt = False
    okt = okt and any(seq for seq in tail_seqs)
    ctx.expect("R-POLY", pm, "a measure has exactly 4*q rows: trailing blanks for range(last + 1, 4*q), on every path", okt, "", f"after the groups: {sorted(tail_seqs, key=str)}; the row count must be 4*q", node=pm.node)
    inits = {ast.unparse(r_[1].value) for s_ in msums2 for i_, e in enumerate(s_.effects) if e.kind == "for" and e.line == gline for r_ in [s_.resolve(last, i_)] if r_ is not None and r_[1].value is not None}
    ctx.expect("R-ORDER", pm, f"'{last}' starts at -1", inits == {"-1"}, str(sorted(inits)), f"{last} before the row loop: {sorted(inits)}", node=pm.node)
    # measure key
    flp = [x for x in _groupby_loops(ctx, fi) if ast.unparse(x[4].body) == f"{x[4].args.args[0].arg}.beat // 4"]
    ctx.expect("R-POLY", fi, "measure index of a note is beat // 4", len(flp) == 1, "", "no groupby on 'beat // 4'", node=fi.node)
    # Note.__str__ : type character + [index] iff keysound_index is not None
    ns = p.func("simfile.notes:Note.__str__")
    sn = ns.param_names()[0]
    from .common import string_parts
    from .tables import function_decs as _fd, judge as _tj, sums_of as _ts

    def nout(s_):
        k_, v = s_.terminal()
        parts = string_parts(v) if (k_ == "return" and v is not None) else None
        if parts is None:
            return "?"
        def bare(x):
            x = x.value if isinstance(x, ast.FormattedValue) else x
            while isinstance(x, ast.Call) and isinstance(x.func, ast.Name) and x.func.id == "str" and len(x.args) == 1 and not x.keywords:
                x = x.args[0]  # str(x) inside a string is x formatted
            return ast.unparse(x)

        return "".join(x if k == "lit" else "{" + bare(x) + "}" for k, x in parts)

    KN = f"{sn}.keysound_index is None"
    ndecs = _fd(_ts(ctx, ns), nout)
    from ..decide import key as _k
    used = {k for d in ndecs for k in d.assign if "keysound_index" in k}
    if used and used != {_k(KN)}:
        ctx.bad("R-TABLE", ns, "the keysound index is tested with 'is None'", f"the test is {sorted(used)}: a keysound index of 0 would be written without its bracket", node=ns.node)
        return
    _tj(ctx, "R-TABLE", ns, "a cell is the type character plus '[index]' iff the note has a keysound index", ndecs, [KN],
        lambda a: OneOfStr("{" + sn + ".note_type}", "{" + sn + ".note_type.value}") if a[KN] else OneOfStr("{" + sn + ".note_type}[{" + sn + ".keysound_index}]", "{" + sn + ".note_type.value}[{" + sn + ".keysound_index}]"))


class OneOfStr(str):
    def __new__(cls, *alts):
        o = str.__new__(cls, alts[0])
        o.alts = tuple(alts)
        return o

    def __eq__(self, other):
        return other in self.alts

    def __ne__(self, other):
        return other not in self.alts

    __hash__ = str.__hash__


def callee_name_of(c: ast.Call) -> str:
    f = c.func
    return f.id if isinstance(f, ast.Name) else (f.attr if isinstance(f, ast.Attribute) else "")


# ---------------------------------------------------------------------------
# C09 / C10 / C13 specifics




SPEC_COUNTS = {
    "simfile.notes.count:count_jumps": {"same_beat_minimum": 2},
}


def counting_tables(ctx: Ctx) -> None:
    """C09.2: the counting functions are the documented instantiations of group_notes."""
    p = ctx.p
    mod = "simfile.notes.count"
    dn = p.const(mod, "DEFAULT_NOTE_TYPES")
    names = {v.name for v in dn} if all(isinstance(v, EnumVal) for v in dn) else set()
    ctx.expect("R-TABLE", (mod, ""), "DEFAULT_NOTE_TYPES == {TAP, HOLD_HEAD, ROLL_HEAD, LIFT}", names == {"TAP", "HOLD_HEAD", "ROLL_HEAD", "LIFT"}, str(sorted(names)),
               f"DEFAULT_NOTE_TYPES is {sorted(names)}")

    def default_of(fq, param):
        f = p.func(fq)
        d = f.defaults().get(param)
        return try_ev(ctx, f, d) if d is not None else None

    for fq in ("count_steps", "count_jumps", "count_hands"):
        full = f"{mod}:{fq}"
        d1 = default_of(full, "include_note_types")
        ctx.expect("R-TABLE", p.func(full), "default include_note_types is DEFAULT_NOTE_TYPES", d1 == dn, "", f"default is {d1}", node=p.func(full).node)
        d2 = default_of(full, "same_beat_notes")
        ctx.expect("R-TABLE", p.func(full), "default same_beat_notes is JOIN_ALL", isinstance(d2, EnumVal) and d2.name == "JOIN_ALL", "", f"default is {d2}", node=p.func(full).node)
    ctx.expect("R-TABLE", p.func(f"{mod}:count_steps"), "count_steps counts groups of at least 1", default_of(f"{mod}:count_steps", "same_beat_minimum") == 1, "", "", node=p.func(f"{mod}:count_steps").node)
    ctx.expect("R-TABLE", p.func(f"{mod}:count_hands"), "count_hands counts groups of at least 3", default_of(f"{mod}:count_hands", "same_beat_minimum") == 3, "", "", node=p.func(f"{mod}:count_hands").node)
    ctx.expect("R-TABLE", p.func(f"{mod}:count_grouped_notes"), "count_grouped_notes default minimum is 1", default_of(f"{mod}:count_grouped_notes", "same_beat_minimum") == 1, "", "", node=p.func(f"{mod}:count_grouped_notes").node)
    # count_steps / count_jumps / count_hands: count_grouped_notes(group_notes(notes, include_note_types, same_beat_notes) [no joining], minimum)
    # with minimum = the caller's for steps, 2 for jumps, 3 for hands - written directly or through count_steps / a shared helper
    from .tables import closed as _closed, sums_of as _tsums
    from ..flow import call_args as _call_args

    def shape_of(fn_name: str):
        """(group_notes arguments by name, minimum expression text) of what the function returns, following count_steps one level."""
        f_ = p.func(f"{mod}:{fn_name}")
        outs = set()
        for s_ in _tsums(ctx, f_):
            k_, v_ = s_.terminal()
            if k_ != "return" or v_ is None:
                outs.add((None, k_))
                continue
            v_ = _closed(s_, v_, opq=frozenset(x.id for x in ast.walk(v_) if isinstance(x, ast.Name)))
            outs.add(_shape_expr(f_, v_))
        return outs

    def _shape_expr(f_, v_):
        if isinstance(v_, ast.Call) and isinstance(v_.func, ast.Name) and v_.func.id == "count_steps":
            args = _call_args(v_, p.func(f"{mod}:count_steps"))
            inner = {"notes": "notes", "include_note_types": "include_note_types", "same_beat_notes": "same_beat_notes"}
            got = {k: ast.unparse(x) for k, x in args.items()}
            defaults = {k: ast.unparse(d) for k, d in p.func(f"{mod}:count_steps").defaults().items()}
            g_args = tuple(sorted((k, got.get(k, defaults.get(k, "?"))) for k in inner))
            return (g_args, got.get("same_beat_minimum", defaults.get("same_beat_minimum", "?")))
        if isinstance(v_, ast.Call) and isinstance(v_.func, ast.Name) and v_.func.id == "count_grouped_notes":
            cg_ = p.func(f"{mod}:count_grouped_notes")
            args = _call_args(v_, cg_)
            gn = args.get(cg_.param_names()[0])
            mn = args.get("same_beat_minimum")
            mn_t = ast.unparse(mn) if mn is not None else ast.unparse(cg_.defaults()["same_beat_minimum"])
            if isinstance(gn, ast.Call) and isinstance(gn.func, ast.Name) and gn.func.id == "group_notes":
                ga = _call_args(gn, p.func("simfile.notes.group:group_notes"))
                return (tuple(sorted((k, ast.unparse(x)) for k, x in ga.items())), mn_t)
        return (None, ast.unparse(v_))

    want_args = tuple(sorted({"notes": "notes", "include_note_types": "include_note_types", "same_beat_notes": "same_beat_notes"}.items()))
    for fn_name, mn_want in (("count_steps", "same_beat_minimum"), ("count_jumps", "2"), ("count_hands", "same_beat_minimum")):
        f_ = p.func(f"{mod}:{fn_name}")
        got = shape_of(fn_name)
        ok = got == {(want_args, mn_want)}
        ctx.expect("R-TABLE", f_, f"{fn_name} = count_grouped_notes(group_notes(notes, types, mode) without joining, minimum {mn_want})", ok, "", f"{fn_name} returns {sorted(got, key=str)}", node=f_.node)
    # count_grouped_notes / count_mines: a counter incremented exactly under the documented condition, once per element
    def counter_rule(fn: FunctionInfo, cond_of, title: str, why: str, grouping_is_wrong: bool = False) -> None:
        from .tables import judge as tjudge, loop_decs, sums_of as tsums, resolved
        sums = tsums(ctx, fn)
        it = fn.param_names()[0]
        loops = {(ast.unparse(e.target), e.line) for s_ in sums for e in s_.effects if e.kind == "for" and ast.unparse(e.value) == it}
        if not loops:
            # no pass over the stream here: the stream is handed to another counter / grouper of the package
            for s_ in sums:
                for e in s_.effects:
                    for c_ in [n for x in (e.value, e.target) if isinstance(x, ast.AST) for n in ast.walk(x) if isinstance(n, ast.Call)]:
                        cn = callee_name(ctx, fn, c_)
                        if cn.startswith("simfile.") and any(isinstance(a, ast.Name) and a.id == it for a in list(c_.args) + [k.value for k in c_.keywords]):
                            if grouping_is_wrong:
                                ctx.bad("R-TABLE", fn, title, f"{fn.name} hands the stream to {cn.split(':')[-1]}(): that counts groups of notes sharing a beat, not single notes - " + why, node=fn.node)
                                return
        if len(loops) != 1:
            raise AnalysisError(f"{fn.fq}: expected one pass over '{it}', found {sorted(loops)}")
        v, line = next(iter(loops))
        rets = set()
        for s_ in sums:
            k, val = s_.terminal()
            rets.add(ast.unparse(val) if (k == "return" and val is not None) else k)
        names = {r for r in rets if r.isidentifier()}
        zero_ok = rets - names <= {"0"}
        if len(names) != 1 or not zero_ok:
            ctx.bad("R-TABLE", fn, title, f"returns {sorted(rets)}: not a single counter", node=fn.node)
            return
        n = next(iter(names))
        init_ok = all((s_.resolve(n, next(i for i, e in enumerate(s_.effects) if e.kind == "for")) or (0, None))[1] is not None and
                      ast.unparse(s_.resolve(n, next(i for i, e in enumerate(s_.effects) if e.kind == "for"))[1].value) == "0"
                      for s_ in sums if any(e.kind == "for" for e in s_.effects))
        cond = cond_of(v)
        decs = loop_decs(sums, line, [n])
        ok = tjudge(ctx, "R-TABLE", fn, title, decs, [cond], lambda a: (f"{n} := {n} + 1",) if a[cond] else (), why=why)
        ctx.expect("R-TABLE", fn, f"{fn.name}: the counter starts at 0", init_ok, "", f"{n} is not initialised to 0 before the loop", node=fn.node)

    cg = p.func(f"{mod}:count_grouped_notes")
    counter_rule(cg, lambda v: f"len({v}) >= same_beat_minimum", "a group counts iff it has at least 'same_beat_minimum' notes (>=)", "documented: groups of at least same_beat_minimum notes")
    cm = p.func(f"{mod}:count_mines")
    counter_rule(cm, lambda v: f"{v}.note_type == NoteType.MINE", "count_mines counts notes whose type is MINE, singly", "documented: every MINE note counts once", grouping_is_wrong=True)
    # holds / rolls
    hr = p.func(f"{mod}:_count_holds_or_rolls")
    gc = [c for c in calls(hr) if callee_name(ctx, hr, c) == "simfile.notes.group:group_notes"]
    c = one(gc, "group_notes call in _count_holds_or_rolls")
    kw = {k.arg: k.value for k in c.keywords}
    inc = inline(kw["include_note_types"], hr) if "include_note_types" in kw else None
    headp = hr.param_names()[1]
    okinc = False
    if isinstance(inc, ast.Call) and isinstance(inc.func, ast.Name) and inc.func.id == "frozenset" and len(inc.args) == 1 and isinstance(inc.args[0], (ast.Tuple, ast.List, ast.Set)):
        el = inc.args[0].elts
        consts = [try_ev(ctx, hr, e) for e in el if not (isinstance(e, ast.Name) and e.id == headp)]
        okinc = len(el) == 2 and any(isinstance(e, ast.Name) and e.id == headp for e in el) and len(consts) == 1 and isinstance(consts[0], EnumVal) and consts[0].name == "TAIL"
    ctx.expect("R-TABLE", hr, "holds/rolls consider exactly {head type, TAIL}", okinc, src(inc) if inc is not None else "", f"include_note_types={src(inc) if inc is not None else 'absent'}", node=c)
    ctx.expect("R-TABLE", hr, "holds/rolls are counted with head/tail joining on", try_ev(ctx, hr, kw.get("join_heads_to_tails")) is True if "join_heads_to_tails" in kw else False, "", "join_heads_to_tails is not True", node=c)
    ctx.expect("R-TABLE", hr, "same-beat holds are counted separately (default KEEP_SEPARATE)", "same_beat_notes" not in kw, "", f"same_beat_notes={src(kw.get('same_beat_notes')) if 'same_beat_notes' in kw else ''}", node=c)
    rr = [r for r in body_walk(hr.node) if isinstance(r, ast.Return)]
    okr = len(rr) == 1 and isinstance(rr[0].value, ast.Call) and callee_name(ctx, hr, rr[0].value) == f"{mod}:count_grouped_notes" and rr[0].value.args \
        and norm(inline(rr[0].value.args[0], hr)) == norm(inline(c, hr)) and not rr[0].value.keywords and len(rr[0].value.args) == 1
    ctx.expect("R-TABLE", hr, "every emitted item counts once (minimum 1)", okr, "", "", node=hr.node)
    # count_holds / count_rolls: clones modulo the head constant
    ch, cr = p.func(f"{mod}:count_holds"), p.func(f"{mod}:count_rolls")

    def shape(f: FunctionInfo) -> Tuple[str, Optional[str]]:
        body = [s for s in f.node.body if not (isinstance(s, ast.Expr) and isinstance(s.value, ast.Constant))]
        txt = "\n".join(ast.unparse(s) for s in body)
        head = None
        from ..flow import call_args as _ca
        for c_ in calls(f):
            if callee_name(ctx, f, c_) == hr.fq:
                hv = _ca(c_, hr).get(headp)
                v = try_ev(ctx, f, hv) if hv is not None else None
                head = v.name if isinstance(v, EnumVal) else None
        return txt, head

    th, hh = shape(ch)
    tr, hrr = shape(cr)
    ctx.expect("R-TABLE", ch, "count_holds instantiates the head type HOLD_HEAD", hh == "HOLD_HEAD", str(hh), f"head is {hh}", node=ch.node)
    ctx.expect("R-TABLE", cr, "count_rolls instantiates the head type ROLL_HEAD", hrr == "ROLL_HEAD", str(hrr), f"head is {hrr}", node=cr.node)
    ctx.expect("R-CLONE", ch, "count_holds and count_rolls are identical modulo the head constant", th.replace("HOLD_HEAD", "X") == tr.replace("ROLL_HEAD", "X")
               and ast.unparse(ch.node.args) == ast.unparse(cr.node.args), "", "the two siblings differ in more than the head type", node=cr.node)


def ungroup_order(ctx: Ctx) -> None:
    """C10.2: no tail is lost; tails are released in note order before each later note."""
    p = ctx.p
    f = p.func("simfile.notes.group:ungroup_notes")
    cfg = ctx.cfg(f)
    main = [lp for lp in for_loops(f) if isinstance(lp.iter, ast.Name) and lp.iter.id == f.param_names()[0]]
    ml = one(main, f"main loop of {f.fq}")
    mn = cfg.node_for(ml)
    whiles = [n for n in body_walk(f.node) if isinstance(n, ast.While)]
    hp = [c for c in calls(f) if callee_name(ctx, f, c).endswith("heapq.heappush") and c.args and isinstance(c.args[0], ast.Name)]
    require(len({c.args[0].id for c in hp}) == 1, f"{f.fq}: the heap of pending tails is not recognised")
    H = hp[0].args[0].id
    drain = [w for w in whiles if not in_body(ml, w) and isinstance(w.test, ast.Name) and w.test.id == H]
    okd = False
    if len(drain) == 1:
        dn = cfg.node_for(drain[0])
        ys = [n for st in drain[0].body for n in walk_no_nested(st) if isinstance(n, ast.Yield)]
        okd = cfg.dominates(mn, dn) and cfg.must_pass([dn]) is None and len(ys) == 1 and ast.unparse(ys[0].value) == f"heappop({H})"
    ctx.expect("R-ORDER", f, "remaining tails are drained after the stream ends, on every path", okd, "", "no 'while pending_tails: yield heappop(pending_tails)' after the main loop", node=ml)
    inner = [lp for lp in for_loops(f) if in_body(ml, lp) and isinstance(lp.iter, ast.Name) and lp.iter.id == ml.target.id]
    il = one(inner, f"row loop of {f.fq}")
    nv = il.target.id
    rel = [w for w in whiles if in_body(il, w)]
    okr = False
    if len(rel) == 1:
        t = rel[0].test
        okr = ast.unparse(t) == f"{H} and {H}[0] < {nv}"
        ys = [n for st in rel[0].body for n in walk_no_nested(st) if isinstance(n, ast.Yield)]
        okr = okr and len(ys) == 1 and ast.unparse(ys[0].value) == f"heappop({H})"
        # it is the first thing an iteration does
        okr = okr and il.body and il.body[0] is rel[0]
    ctx.expect("R-ORDER", f, "tails that precede a note are released before it (heap order = note order)", okr, "", "the release loop 'while pending_tails and pending_tails[0] < note' changed", node=il)
    pushes = [c for c in calls(f) if callee_name(ctx, f, c).endswith("heapq.heappush")]
    okp = False
    if len(pushes) == 1:
        fs = facts(ctx, f, pushes[0])
        pos = [a for a, pol in fs if pol and isinstance(a, ast.Call) and ast.unparse(a) == f"isinstance({nv}, NoteWithTail)"]
        okp = bool(pos) and ast.unparse(pushes[0].args[0]) == H
    if okp:
        ctx.ok("R-ORDER", f, "every joined note pushes exactly one tail", "one heappush under isinstance(<element>, NoteWithTail)", node=il)
    else:
        # the per-element decision table below judges the push (once per joined note, none otherwise) on the path effects, wherever and under
        # whatever spelling of the guard it is written; this syntactic view is only recorded
        ctx.observe("R-ORDER", f, "every joined note pushes exactly one tail", f"{len(pushes)} heappush site(s), guard not in the 'isinstance' spelling - left to the element table", node=il)
    # what happens to each element: a decision table over path effects (the orphan check is judged wherever it is written:
    # in a helper, a closure or in line)
    from .tables import Dec, judge as tjudge, sums_of as tsums, touches
    from ..decide import IGNORE
    sums = tsums(ctx, f)
    pol = "orphaned_notes"
    loops = {(ast.unparse(e.target), e.line) for s_ in sums for e in s_.effects if e.kind == "for" and ast.unparse(e.value) == ml.target.id}
    require(len(loops) == 1, f"{f.fq}: expected one loop over the elements of a row, found {sorted(loops)}")
    x, line = next(iter(loops))
    wl = {w.lineno for w in whiles}
    HEAD = f"Note(beat={x}.beat, column={x}.column, note_type={x}.note_type, player={x}.player, keysound_index={x}.keysound_index)"
    TAIL = f"Note(beat={x}.tail_beat, column={x}.column, note_type=NoteType.TAIL, player={x}.player)"
    IN, NWT = f"isinstance({x}, Note)", f"isinstance({x}, NoteWithTail)"
    SPLIT = f"{x}.column in (_c0.column for _c0 in {H})"
    members = ("RAISE_EXCEPTION", "KEEP_ORPHAN", "DROP_ORPHAN")
    PA = {m: f"{pol} == OrphanedNotes.{m}" for m in members}
    decs = []
    for s_ in sums:
        if not any(e.kind == "for" and e.line == line for e in s_.effects):
            continue
        eff = [e for e in s_.effects if line in e.loops and not (set(e.loops) & wl) and e.kind in ("yield", "yieldfrom", "raise", "expr", "store", "return")
               and not (e.kind == "expr" and not touches(e, [H]))]
        decs.append(Dec(dict(s_.atoms_in(line)), tuple(e.text for e in eff), s_))
    from ..decide import key as _k
    seen = {k for d in decs for k in d.assign}
    tested = {m: a_ for m, a_ in PA.items() if _k(a_) in seen}
    push = f"heappush({H}, {TAIL})"

    def spec(a):
        on = [m for m, a_ in tested.items() if a[a_]]
        if len(on) > 1:
            return IGNORE
        if a[IN]:
            subj, after = x, ()
        elif a[NWT]:
            subj, after = HEAD, (push,)
        else:
            return ()
        if not a[SPLIT]:
            return (f"yield {subj}",) + after
        mode = on[0] if on else next((m for m in members if m not in tested), None)
        if mode is None:
            return IGNORE  # all three members are tested and none holds: not a value of the enumeration
        if mode == "RAISE_EXCEPTION":
            return (f"raise OrphanedNoteException({subj})",)
        if mode == "KEEP_ORPHAN":
            return (f"yield {subj}",) + after
        return after

    tjudge(ctx, "R-ORDER", f, "each element: a plain note is passed on as the same object, a joined note as its rebuilt head now and its tail (pushed) later - each once; a note splitting a pending hold is "
           "raised about / kept / dropped as orphaned_notes says, and the tail of a dropped head is still pushed", decs, [IN, NWT, SPLIT] + list(tested.values()), spec,
           dont_care=[H, f"{H}[0] < {x}"], why="no note may be lost or duplicated; only a note in the column of a pending tail is subject to the orphan policy")
    ctx.floor("orphan policy members tested in ungroup_notes", len(tested), 2)


def timed_rules(ctx: Ctx) -> None:
    """C13.3/5: per note, in stream order: hittable or KEEP_NOTE -> the same note with its time; an unhittable TAP under TAP_TO_FAKE -> a fake that differs
    in nothing but the type; otherwise nothing.  One engine built from the caller's timing data, one pass, no sorting or buffering."""
    p = ctx.p
    f = p.func("simfile.notes.timed:time_notes")
    from .tables import Dec, closed, closed_text, judge as tjudge, sums_of as tsums
    sums = tsums(ctx, f)
    nd, td, un = f.param_names()[:3]
    engs = {e.target.id for s_ in sums for e in s_.effects if e.kind == "bind" and isinstance(e.target, ast.Name) and isinstance(e.value, ast.Call) and ast.unparse(e.value.func) == "TimingEngine"}
    E = one(sorted(engs), f"TimingEngine local in {f.fq}")
    eng_vals = {ast.unparse(e.value) for s_ in sums for e in s_.effects if e.kind == "bind" and isinstance(e.target, ast.Name) and e.target.id == E}
    ctx.expect("R-FWD", f, "the engine is built from the caller's timing data, once, before the notes are walked", eng_vals == {f"TimingEngine({td})"} and
               all(not e.loops for s_ in sums for e in s_.effects if e.kind == "bind" and isinstance(e.target, ast.Name) and e.target.id == E), str(sorted(eng_vals)), f"engine: {sorted(eng_vals)}", node=f.node)
    loops = {(ast.unparse(e.target), e.line) for s_ in sums for e in s_.effects if e.kind == "for" and ast.unparse(e.value) == nd}
    allloops = {e.line for s_ in sums for e in s_.effects if e.kind == "for"}
    srt = [c for c in calls(f) if isinstance(c.func, ast.Name) and c.func.id in ("sorted", "reversed", "list")]
    ctx.expect("R-ORDER", f, "notes are emitted in stream order: one loop over the note data, yields only, no sorting or buffering", len(loops) == 1 and len(allloops) == 1 and not srt, str(sorted(loops)),
               f"loops: {sorted(loops)} of {len(allloops)}; sorting/buffering calls: {[src(c, 30) for c in srt]}", node=f.node)
    if not (len(loops) == 1 and len(allloops) == 1):
        return
    nv, line = next(iter(loops))
    H, K, F, T = f"{E}.hittable({nv}.beat)", f"{un} == UnhittableNotes.KEEP_NOTE", f"{un} == UnhittableNotes.TAP_TO_FAKE", f"{nv}.note_type == NoteType.TAP"
    TIME = f"{E}.time_at({nv}.beat)"
    FAKE = f"Note(beat={nv}.beat, column={nv}.column, note_type=NoteType.FAKE, player={nv}.player, keysound_index={nv}.keysound_index)"
    decs = []
    for s_ in sums:
        if not any(e.kind == "for" and e.line == line for e in s_.effects):
            continue
        eff = [e for e in s_.effects if line in e.loops and e.kind in ("yield", "yieldfrom", "return", "raise", "break")]
        decs.append(Dec(dict(s_.atoms_in(line)), tuple(closed_text(s_, e, keep=[E, nv]) for e in eff), s_))

    def spec(a):
        if a[H] or a[K]:
            return (f"yield TimedNote(time={TIME}, note={nv})",)
        if a[F] and a[T]:
            return _OneOf((f"yield TimedNote(time={TIME}, note={FAKE})",), (f"yield TimedNote(time={TIME}, note={nv}._replace(note_type=NoteType.FAKE))",))
        return ()

    from ..decide import OneOf as _OneOf
    tjudge(ctx, "R-ORDER", f, "a note is passed on unchanged (same object, with the time of its beat) exactly when hittable or KEEP_NOTE; an unhittable TAP under TAP_TO_FAKE becomes a fake "
           "that differs in nothing but the type; every other unhittable note is dropped", decs, [H, K, F, T], spec,
           equiv={f"{un} == UnhittableNotes.DROP_NOTE": (F, False)} if False else None)
    ctx.floor("paths through the note loop of time_notes", len(decs), 1)


def columns_rule(ctx: Ctx) -> None:
    """The reported column count is computed from the stored text (width of its first row)."""
    p = ctx.p
    init = p.func(f"{ND}.__init__")
    sn = init.param_names()[0]
    cfg = ctx.cfg(init)
    st = [n for n in body_walk(init.node) if isinstance(n, ast.Assign) and self_attr(n.targets[0], sn) == "_columns"]
    ok = len(st) == 1 and ast.unparse(st[0].value) in (f"NoteData._get_columns({sn}._notedata)", f"{sn}._get_columns({sn}._notedata)") and cfg.must_pass([cfg_node_of(cfg, init, st[0])]) is None
    ctx.expect("R-TABLE", init, "the column count is derived from the stored text on every path", ok, "", "", node=init.node)
    c = p.func(f"{ND}.columns")
    rr = [r for r in body_walk(c.node) if isinstance(r, ast.Return)]
    ctx.expect("R-TABLE", c, "columns reports that count", len(rr) == 1 and self_attr(rr[0].value, c.param_names()[0]) == "_columns", "", "", node=c.node)
    g = p.func(f"{ND}._get_columns")
    from .tables import Dec, closed, judge as tjudge, sums_of as tsums
    n_ = g.param_names()[0]
    gs = tsums(ctx, g)
    F = f"{n_}.find(',')"
    G = f"{F} > 0"

    def out(s_):
        k, v = s_.terminal()
        v = closed(s_, v)
        return "return " + (ast.unparse(v) if v is not None else "None") if k == "return" else k

    def spec(a):
        first = f"{n_}[:{F}]" if a[G] else n_
        return f"return len(NoteData._extract_keysound_indices({first}.strip().splitlines()[0].strip()))"

    eqv = {f"{F} >= 0": (G, True), f"{F} != -1": (G, True), f"{F} == -1": (G, False), f"{F} < 0": (G, False), f"',' in {n_}": (G, True), f"{F} >= 1": (G, True), f"{F} < 1": (G, False)}
    # str.partition spelling: s.partition(',')[0] is s[:s.find(',')] when there is a comma and s itself when there is none; `or s` covers the
    # empty prefix (comma in front, or empty text) - the same first measure in all four cases
    PT = f"{n_}.partition(',')[0]"
    decs_ = [Dec(dict(s_.plain_assign()), out(s_), s_) for s_ in gs]
    if decs_ and all(set(d.assign) <= {PT} for d in decs_):
        tmpl = "return len(NoteData._extract_keysound_indices({}.strip().splitlines()[0].strip()))"
        good = all((d.outcome == tmpl.format(PT) if d.assign.get(PT) is True else d.outcome == tmpl.format(n_) if d.assign.get(PT) is False else d.outcome == tmpl.format(f"({PT} or {n_})")) for d in decs_)
        if good:
            ctx.ok("R-NULL", g, "the width is the length of the first row (first measure, first line, stripped) with keysound brackets removed", "first measure = text before the first comma (str.partition), "
                   "or the whole text when that is empty", node=g.node)
            return
    tjudge(ctx, "R-NULL", g, "the width is the length of the first row (first measure, first line, stripped) with keysound brackets removed; str.find() is checked for 'not found' before it bounds the slice",
           [Dec(dict(s_.plain_assign()), out(s_), s_) for s_ in gs], [G], spec, equiv=eqv,
           why="find() returns -1 when there is no comma, and the slice then silently drops the last character (single-measure note data)")




def keysound_extraction(ctx: Ctx) -> None:
    """C07/C08: _extract_keysound_indices: while the row has a '[': the number between the first '[' and the first ']' is recorded at column
    (position of the '[') - 1 whenever a list was given, and exactly that bracket group is removed; a row without '[' is returned as it is.
    Every call does this work itself (no path answers for a bracketed row without running the extraction)."""
    p = ctx.p
    f = p.func(f"{ND}._extract_keysound_indices")
    line, ki = f.param_names()[:2]
    from .tables import Dec, closed_text, judge as tjudge, sums_of as tsums
    sums = tsums(ctx, f)
    HAS, NONE = f"'[' in {line}", f"{ki} is None"
    OB, CB = f"{line}.index('[')", f"{line}.index(']')"

    def out(s_):
        eff = []
        tags = []
        for e in s_.effects:
            if e.kind in ("store", "aug", "delete", "expr"):
                eff.append(closed_text(s_, e, keep=[line, ki]))
                # does the statement itself read the row variable (or only temporaries computed from the row before it was cut)?
                raw_names = {n.id for n in ast.walk(e.raw) if isinstance(n, ast.Name)} if isinstance(e.raw, ast.AST) else {line}
                tags.append("store-independent" if e.kind == "store" and line not in raw_names else "other")
            elif e.kind == "bind" and isinstance(e.target, ast.Name) and e.target.id == line:
                eff.append(closed_text(s_, e, keep=[line, ki]))
                tags.append("cut")
        # recording the index from values taken before the cut commutes with the cut: canonical order is record, then cut
        for i in range(len(eff) - 1):
            if tags[i] == "cut" and tags[i + 1] == "store-independent":
                eff[i], eff[i + 1] = eff[i + 1], eff[i]
                tags[i], tags[i + 1] = tags[i + 1], tags[i]
        k, v = s_.terminal()
        # where the row has a '[', str.find and str.index name the same position
        if s_.plain_assign().get(canon_k(HAS)) is True:
            eff = [t.replace(f"{line}.find('[')", OB) for t in eff]
        return tuple(eff) + ((k + " " + (ast.unparse(v) if v is not None else "None")),)

    def spec(a):
        if not a[HAS]:
            return (f"return {line}",)
        cut = f"{line} := {line}[:{OB}] + {line}[{CB} + 1:]"
        if a[NONE]:
            return (cut, f"return {line}")
        return (f"{ki}[{OB} - 1] = int({line}[{OB} + 1:{CB}])", cut, f"return {line}")

    tjudge(ctx, "R-TABLE", f, "every bracket group of the row is extracted by this call: index recorded at (position of '[') - 1 when a list is given, the group removed; "
           "a row without brackets is returned unchanged", [Dec(dict(s_.plain_assign()), out(s_), s_) for s_ in sums], [HAS, NONE], spec,
           why="the caller's keysound_indices list is an out-parameter: a path that returns the stripped row without filling it (a cached answer) loses the keysound indices of that row")


