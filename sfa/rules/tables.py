"""
Decision tables over path effects (sfa.peff): shared helpers for the rules.
"""
from __future__ import annotations

import ast
from dataclasses import dataclass
from typing import Any, Callable, Dict, Iterable, List, Optional, Sequence, Tuple

from ..decide import IGNORE, OneOf, check_table, key as ckey
from ..engine import AnalysisError, FunctionInfo
from ..peff import Eff, PathSummary, summaries
from ..report import Ctx
from .common import require, try_ev


@dataclass
class Dec:
    assign: Dict[str, bool]
    outcome: Any
    src: Optional[PathSummary] = None


def sums_of(ctx: Ctx, fi: FunctionInfo, **kw) -> List[PathSummary]:
    def nonempty(fornode, env):
        it = fornode.iter
        if isinstance(it, ast.Call) and isinstance(it.func, ast.Attribute) and it.func.attr in ("split", "rsplit", "splitlines") and it.func.attr != "splitlines":
            return True  # str.split never returns an empty list when given a separator
        try:
            v = try_ev(ctx, fi, it)
            if v is not None and len(v) > 0:
                return True
        except Exception:
            pass
        # library fact: a group yielded by itertools.groupby is never empty (nor is list(group))
        env_v = env.get(it.id) if isinstance(it, ast.Name) else None
        cand = it
        if isinstance(env_v, ast.AST) and not isinstance(env_v, ast.Name):
            cand = env_v
        if isinstance(cand, ast.Call) and isinstance(cand.func, ast.Name) and cand.func.id == "list" and len(cand.args) == 1:
            cand = cand.args[0]
        if isinstance(cand, ast.Name):
            asg = [n for n in ast.walk(fi.node) if isinstance(n, ast.Assign) and len(n.targets) == 1 and isinstance(n.targets[0], ast.Name) and n.targets[0].id == cand.id]
            if len(asg) == 1:
                v2 = asg[0].value
                if isinstance(v2, ast.Call) and isinstance(v2.func, ast.Name) and v2.func.id == "list" and len(v2.args) == 1:
                    v2 = v2.args[0]
                if isinstance(v2, ast.Name):
                    cand = v2
        if isinstance(cand, ast.Name):
            for outer in ast.walk(fi.node):
                if isinstance(outer, ast.For) and isinstance(outer.iter, ast.Call) and ast.unparse(outer.iter.func) in ("groupby", "itertools.groupby") \
                        and isinstance(outer.target, ast.Tuple) and len(outer.target.elts) == 2 and isinstance(outer.target.elts[1], ast.Name) and outer.target.elts[1].id == cand.id:
                    return True
        return False

    variant = kw.pop("variant", None)  # names a non-default callable option set (part of the cache key)
    also_nonempty = kw.pop("also_nonempty", None)
    if also_nonempty is not None:
        base_ne = nonempty
        kw["nonempty"] = lambda fornode, env: base_ne(fornode, env) or also_nonempty(fornode, env)
    kw.setdefault("nonempty", nonempty)
    kw.setdefault("opaque", _opaque_default)
    cache = getattr(ctx, "_sums_cache", None)
    if cache is None:
        cache = ctx._sums_cache = {}
    k = (fi.fq, variant, tuple(sorted((a, repr(b)) for a, b in kw.items() if not callable(b))))
    if k not in cache:
        recs = {fq.rsplit(".", 1)[-1]: [f for f, _ in fields] for fq, fields in ctx.p.records().items()}
        kw.setdefault("pure_calls", set(recs) | {"Beat", "Decimal", "Fraction", "MSDParameter", "Beat.from_str", "Beat.tick"})  # immutable value types
        kw.setdefault("sentinels", sorted(nm for nm, node in fi.module.top.items() if nm.startswith("_") and isinstance(node, (ast.Assign, ast.AnnAssign)) and isinstance(getattr(node, "value", None), ast.Call)
                                          and ast.unparse(node.value) == "object()"))
        cache[k] = summaries(ctx, fi, fold=lambda e: try_ev(ctx, fi, e), records=recs, **kw)
    return cache[k]


STATEFUL = {"next", "pop", "popitem", "popleft", "read", "readline", "readlines", "send", "heappop", "heappush", "append", "add", "remove", "write", "seek", "tell", "input"}


def _opaque_default(e: ast.AST) -> bool:
    """A guard that calls something may still be treated as one atom (same text = same truth on a path) unless the call is known to change state."""
    for n in ast.walk(e):
        if isinstance(n, ast.Call):
            f = n.func
            nm = f.id if isinstance(f, ast.Name) else (f.attr if isinstance(f, ast.Attribute) else "")
            if nm in STATEFUL:
                return False
    return True


def root_name(e: Optional[ast.AST]) -> Optional[str]:
    while isinstance(e, (ast.Attribute, ast.Subscript, ast.Call)):
        e = e.func if isinstance(e, ast.Call) else e.value
    return e.id if isinstance(e, ast.Name) else None


def touches(e: Eff, roots: Sequence[str]) -> bool:
    """The effect changes (or may change) one of the tracked objects, or leaves the loop / function."""
    if e.kind in ("store", "aug", "delete"):
        return root_name(e.target) in roots
    if e.kind == "bind":
        return isinstance(e.target, ast.Name) and e.target.id in roots
    if e.kind == "expr":
        v = e.value
        if isinstance(v, ast.Call):
            if root_name(v.func) in roots and isinstance(v.func, ast.Attribute):
                return True
            return any(isinstance(n, ast.Name) and n.id in roots for a in list(v.args) + [k.value for k in v.keywords] for n in ast.walk(a))
        return False
    return e.kind in ("break", "return", "raise", "yield", "yieldfrom")


def resolved(s: PathSummary, v: Optional[ast.AST], before: Optional[int] = None, depth: int = 4) -> Optional[ast.AST]:
    """An opaque local is replaced by the (closed-form) expression it was bound to on this path."""
    before = len(s.effects) if before is None else before
    while depth > 0 and isinstance(v, ast.Name):
        r = s.resolve(v.id, before)
        if r is None or r[1].value is None or not isinstance(r[1].target, ast.Name) or not r[1].opaque:
            break
        before, v = r[0], r[1].value
        depth -= 1
    return v


_MUT = {"append", "extend", "insert", "add", "update", "pop", "popitem", "remove", "discard", "clear", "sort", "reverse", "setdefault", "appendleft", "popleft", "move_to_end", "write"}


def _mutated_between(s: PathSummary, name: str, lo: int, hi: int) -> bool:
    """Between its binding (effect lo) and effect hi the object held by *name* is changed in place (a mutating method, a store into it)."""
    for e in s.effects[lo + 1:hi]:
        if e.kind == "expr" and isinstance(e.value, ast.Call) and isinstance(e.value.func, ast.Attribute) and e.value.func.attr in _MUT and root_name(e.value.func.value) == name \
                and isinstance(e.value.func.value, ast.Name):
            return True
        if e.kind in ("store", "aug", "delete") and isinstance(e.target, (ast.Subscript, ast.Attribute)) and root_name(e.target) == name and isinstance(e.target, ast.Subscript):
            return True
    return False


def loop_built(s: PathSummary, name: str, before: int) -> Optional[ast.ListComp]:
    """name = [] ; for T in IT: name.append(E)  (nothing else touches name before effect *before*, the loop ran on this path): [E for T in IT]."""
    r = s.resolve(name, before)
    if r is None or r[1].value is None or not _is_container(r[1].value) or isinstance(r[1].value, (ast.Dict, ast.Set)):
        return None
    touching = []
    for i in range(r[0] + 1, before):
        e = s.effects[i]
        if e.kind == "expr" and isinstance(e.value, ast.Call) and isinstance(e.value.func, ast.Attribute) and root_name(e.value.func.value) == name:
            touching.append((i, e))
        elif e.kind in ("store", "aug", "delete") and root_name(e.target) == name:
            return None
    if len(touching) != 1:
        return None
    i, e = touching[0]
    if e.value.func.attr != "append" or len(e.value.args) != 1 or not e.loops or not isinstance(e.value.func.value, ast.Name):
        return None
    L = e.loops[-1]
    fe = next(((j, x) for j, x in enumerate(s.effects[:i]) if x.kind == "for" and x.line == L), None)
    if fe is None or fe[0] < r[0]:
        return None
    others = [x for x in s.effects[fe[0] + 1:before] if L in x.loops and x is not e and x.kind in ("expr", "store", "aug", "delete", "break", "continue", "return", "raise", "yield")]
    if others:
        return None
    return ast.ListComp(elt=e.value.args[0], generators=[ast.comprehension(target=fe[1].target, iter=fe[1].value, ifs=[], is_async=0)])


def _is_container(v: ast.AST) -> bool:
    if isinstance(v, (ast.List, ast.Dict, ast.Set)) and not (v.elts if not isinstance(v, ast.Dict) else v.keys):
        return True
    return isinstance(v, ast.Call) and isinstance(v.func, ast.Name) and v.func.id in ("set", "list", "dict", "deque", "defaultdict", "OrderedDict") and not v.args and not v.keywords


def closed(s: PathSummary, e: Optional[ast.AST], before: Optional[int] = None, depth: int = 4, keep: Sequence[str] = (), opq: Optional[frozenset] = None) -> Optional[ast.AST]:
    """*e* with the opaque locals it mentions replaced by what they were bound to on this path (constructor results, call results)."""
    import copy as _copy
    if e is None:
        return None
    before = len(s.effects) if before is None else before

    class T(ast.NodeTransformer):
        def __init__(self, d, before_):
            self.d = d
            self.before = before_

        def visit_Name(self, n: ast.Name):
            if isinstance(n.ctx, ast.Load) and self.d > 0 and n.id not in keep:
                r = s.resolve(n.id, self.before)
                if r is not None and r[1].value is not None and (_is_container(r[1].value) or _mutated_between(s, n.id, r[0], self.before)):
                    return n  # a container that is being filled keeps its name
                if r is not None and (r[1].opaque or (opq is not None and n.id in opq)) and r[1].value is not None and isinstance(r[1].target, ast.Name) \
                        and not (isinstance(r[1].value, ast.Name) and r[1].value.id == n.id):
                    # names inside the bound value are read as of the binding (a re-bound parameter inside it is the parameter itself)
                    return T(self.d - 1, r[0]).visit(_copy.deepcopy(r[1].value))
                if r is not None and r[1].value is not None and isinstance(r[1].target, (ast.Tuple, ast.List)) and all(isinstance(x, ast.Name) for x in r[1].target.elts):
                    # a, b = f(...)  : the name stands for element i of the call's result
                    i_ = [x.id for x in r[1].target.elts].index(n.id)
                    val_ = r[1].value
                    if isinstance(val_, (ast.Tuple, ast.List)) and len(val_.elts) == len(r[1].target.elts) and not any(isinstance(x, ast.Starred) for x in val_.elts):
                        return T(self.d - 1, r[0]).visit(_copy.deepcopy(val_.elts[i_]))  # a, b = (x, y): the name is that element
                    return ast.Subscript(value=T(self.d - 1, r[0]).visit(_copy.deepcopy(r[1].value)), slice=ast.Constant(value=i_), ctx=ast.Load())
            return n

        def visit_Lambda(self, n):
            return n

    return T(depth, before).visit(_copy.deepcopy(e))


def closed_text(s: PathSummary, eff: Eff, keep: Sequence[str] = ()) -> str:
    i = s.effects.index(eff)
    e2 = Eff(eff.kind, closed(s, eff.target, i, keep=keep, opq=eff.opq) if eff.kind != "bind" else eff.target, closed(s, eff.value, i, keep=keep, opq=eff.opq), eff.line, eff.loops, eff.raw)
    return e2.text


def terminal_text(s: PathSummary) -> str:
    k, v = s.terminal()
    if k == "return":
        v = resolved(s, v)
        return "return " + (ast.unparse(v) if v is not None else "None")
    if k == "raise":
        e = v.func if isinstance(v, ast.Call) else v
        return "raise " + (ast.unparse(e) if e is not None else "")
    return "return None"  # falling off the end


def leaves_loop_early(s: PathSummary) -> bool:
    """The path leaves a loop from inside an iteration (break / return / raise in the body) instead of exhausting it."""
    return any(e.loops and e.kind in ("break", "return", "raise") for e in s.effects)


def terminal_and_exit(s: PathSummary) -> str:
    """Terminal plus how loops were left: 'found one' (left early) and 'held for all' (exhausted) are different quantifiers."""
    return terminal_text(s) + (" [leaving the loop at this element]" if leaves_loop_early(s) else "")


def function_decs(sums: Sequence[PathSummary], outcome: Callable[[PathSummary], Any] = terminal_text, fix: Callable[[str], str] = lambda t: t) -> List[Dec]:
    return [Dec({fix(k): v for k, v in s.plain_assign().items()}, outcome(s), s) for s in sums]


def loop_decs(sums: Sequence[PathSummary], line: int, roots: Sequence[str], fix: Callable[[str], str] = lambda t: t, post=None, relevant: Optional[Callable[[Eff], bool]] = None) -> List[Dec]:
    """One Dec per path that runs the loop at *line*: atoms decided inside the loop -> texts of the tracked effects inside the loop."""
    out = []
    for s in sums:
        if not any(e.kind == "for" and e.line == line for e in s.effects):
            continue
        rel = relevant or (lambda e: touches(e, roots))
        eff = [e for e in s.effects if line in e.loops and rel(e)]
        d = Dec({fix(k): v for k, v in s.atoms_in(line).items()}, tuple(fix(e.text) for e in eff), s)
        if post is not None:
            d = post(d)
        out.append(d)
    return out


def judge(ctx: Ctx, rule: str, fi: FunctionInfo, construct: str, decs: Sequence[Dec], atoms: Sequence[str], spec, dont_care: Sequence[str] = (), node=None, why: str = "", equiv=None,
          strict_foreign: bool = True, assume=None, feasible=None) -> bool:
    v, u = check_table(decs, atoms, spec, lambda d: d.outcome, dont_care, equiv=equiv, strict_foreign=strict_foreign, assume=assume, constraint=feasible)
    if v:
        ctx.bad(rule, fi, construct, "; ".join(v[:3]) + (f" - {why}" if why else ""), node=node or fi.node)
        return False
    if u:
        raise AnalysisError(f"{fi.fq}: {construct}: " + u[0])
    ctx.ok(rule, fi, construct, f"{len(decs)} paths", node=node or fi.node)
    return True


def loops_over(sums: Sequence[PathSummary], pred: Callable[[Eff, PathSummary, int], bool]) -> List[Tuple[str, int]]:
    """(loop variable text, line) of the loops whose 'for' effect satisfies *pred*."""
    found = set()
    for s in sums:
        for i, e in enumerate(s.effects):
            if e.kind == "for" and pred(e, s, i):
                found.add((ast.unparse(e.target), e.line))
    return sorted(found)


def atoms_seen(decs: Sequence[Dec]) -> List[str]:
    out: List[str] = []
    for d in decs:
        for k in d.assign:
            if k not in out:
                out.append(k)
    return out


def list_items(s: PathSummary, name: str) -> Optional[List[Tuple[str, ast.AST]]]:
    """What a list local holds, as built on this path: ("elem", e) / ("splice", iterable) in order.
    Recognised builders: a list display (with *splices), .append(e), .extend(it), name += it.  None when the local is not built that way."""
    items: Optional[List[Tuple[str, ast.AST]]] = None

    def of_display(d: ast.AST) -> Optional[List[Tuple[str, ast.AST]]]:
        if isinstance(d, (ast.List, ast.Tuple)):
            return [("splice", e.value) if isinstance(e, ast.Starred) else ("elem", e) for e in d.elts]
        if isinstance(d, ast.Call) and isinstance(d.func, ast.Name) and d.func.id == "list" and not d.keywords and len(d.args) <= 1:
            return [] if not d.args else (of_display(d.args[0]) if isinstance(d.args[0], (ast.List, ast.Tuple)) else [("splice", d.args[0])])
        return None

    for e in s.effects:
        if e.kind == "bind" and isinstance(e.target, ast.Name) and e.target.id == name and e.value is not None:
            v = e.value
            if isinstance(v, ast.BinOp) and isinstance(v.op, ast.Add) and isinstance(v.left, ast.Name) and v.left.id == name and items is not None:
                more = of_display(v.right)
                items = items + (more if more is not None else [("splice", v.right)])
                continue
            items = of_display(v)
            if items is None:
                return None
        elif e.kind == "expr" and isinstance(e.value, ast.Call) and isinstance(e.value.func, ast.Attribute) and isinstance(e.value.func.value, ast.Name) and e.value.func.value.id == name \
                and items is not None and len(e.value.args) == 1 and not e.value.keywords:
            if e.value.func.attr == "append":
                items = items + [("elem", e.value.args[0])]
            elif e.value.func.attr == "extend":
                more = of_display(e.value.args[0])
                items = items + (more if more is not None else [("splice", e.value.args[0])])
    return items
