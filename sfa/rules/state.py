"""
R-STATE: process-wide state consulted by the functions a property is about.

A module-level object that some function of the package changes at run time (re-binds with `global`, stores into,
or calls a mutating method on) is *state*.  A function in the property's call tree that reads such state gives
answers that may depend on earlier calls.  That is accepted only for a cache whose key provably covers what the
cached computation reads:

  * a key compared by identity (`is`, `id()`) against a (mutable) argument never covers the argument's contents;
  * a key built from some attributes of an argument must name every attribute of that argument which the guarded
    computation (followed through same-class `self.m()` calls) reads.

Anything else that reads run-time state is reported; what cannot be classified is an analysis error.
"""
from __future__ import annotations

import ast
from typing import Dict, Iterable, List, Optional, Set, Tuple

from ..engine import AnalysisError, FunctionInfo, body_walk, src, walk_no_nested
from ..flow import inline
from ..report import Ctx
from .callgraph import callgraph

MUTATORS = {"append", "add", "update", "clear", "pop", "popitem", "setdefault", "extend", "insert", "remove", "discard", "sort", "reverse", "appendleft", "popleft", "move_to_end"}


def _module_state(ctx: Ctx) -> Dict[Tuple[str, str], List[str]]:
    """(module, name) -> descriptions of the run-time changes, for module-level names some function changes."""
    p = ctx.p
    out: Dict[Tuple[str, str], List[str]] = {}
    for f in p.nontest_functions():
        mod = f.module
        top = set(mod.top)
        globals_declared = {n for node in body_walk(f.node) if isinstance(node, ast.Global) for n in node.names}
        local_stores = {n.id for n in body_walk(f.node) if isinstance(n, ast.Name) and isinstance(n.ctx, ast.Store)} | set(f.param_names())
        shadow = local_stores - globals_declared
        # a local that is nothing but another name for a module-level object: x = TABLE ; x.insert(...) changes TABLE
        alias: Dict[str, str] = {}
        # ... also when the name was bound in an enclosing function and this closure changes the object through it
        enc = f.parent
        while enc is not None:
            enc_stores = {}
            for node in body_walk(enc.node):
                if isinstance(node, ast.Name) and isinstance(node.ctx, ast.Store):
                    enc_stores[node.id] = enc_stores.get(node.id, 0) + 1
            for node in body_walk(enc.node):
                if isinstance(node, ast.Assign) and len(node.targets) == 1 and isinstance(node.targets[0], ast.Name) and isinstance(node.value, ast.Name) \
                        and node.value.id in top and not isinstance(mod.top[node.value.id], (ast.FunctionDef, ast.ClassDef, ast.AsyncFunctionDef)) \
                        and enc_stores.get(node.targets[0].id) == 1 and node.targets[0].id not in local_stores:
                    alias.setdefault(node.targets[0].id, node.value.id)
            enc = enc.parent
        for node in body_walk(f.node):
            if isinstance(node, ast.Assign) and len(node.targets) == 1 and isinstance(node.targets[0], ast.Name) and isinstance(node.value, ast.Name) \
                    and node.value.id in top and node.value.id not in shadow and not isinstance(mod.top[node.value.id], (ast.FunctionDef, ast.ClassDef, ast.AsyncFunctionDef)):
                alias[node.targets[0].id] = node.value.id
        for node in body_walk(f.node):
            if isinstance(node, ast.Call) and isinstance(node.func, ast.Attribute) and node.func.attr in MUTATORS and isinstance(node.func.value, ast.Name) and node.func.value.id in alias:
                out.setdefault((mod.name, alias[node.func.value.id]), []).append(f"{f.qualname}: {src(node, 60)} (through the local name '{node.func.value.id}')")
            if isinstance(node, (ast.Assign, ast.AugAssign, ast.Delete)):
                for t in (node.targets if isinstance(node, (ast.Assign, ast.Delete)) else [node.target]):
                    if isinstance(t, ast.Subscript) and isinstance(t.value, ast.Name) and t.value.id in alias:
                        out.setdefault((mod.name, alias[t.value.id]), []).append(f"{f.qualname}: {src(node, 60)} (through the local name '{t.value.id}')")
        for node in body_walk(f.node):
            tgts: List[ast.AST] = []
            if isinstance(node, ast.Assign):
                tgts = list(node.targets)
            elif isinstance(node, (ast.AugAssign, ast.AnnAssign)):
                tgts = [node.target]
            elif isinstance(node, ast.Delete):
                tgts = list(node.targets)
            for t in tgts:
                if isinstance(t, ast.Name) and t.id in globals_declared and t.id in top:
                    out.setdefault((mod.name, t.id), []).append(f"{f.qualname} re-binds it (global)")
                root = t
                while isinstance(root, (ast.Subscript, ast.Attribute)):
                    root = root.value
                if isinstance(t, (ast.Subscript, ast.Attribute)) and isinstance(root, ast.Name) and root.id in top and root.id not in shadow and not isinstance(mod.top[root.id], (ast.FunctionDef, ast.ClassDef, ast.AsyncFunctionDef)):
                    out.setdefault((mod.name, root.id), []).append(f"{f.qualname}: {src(node, 60)}")
            if isinstance(node, ast.Call) and isinstance(node.func, ast.Attribute) and node.func.attr in MUTATORS:
                root = node.func.value
                while isinstance(root, (ast.Subscript, ast.Attribute)):
                    root = root.value
                if isinstance(root, ast.Name) and root.id in top and root.id not in shadow and not isinstance(mod.top[root.id], (ast.FunctionDef, ast.ClassDef, ast.AsyncFunctionDef)) \
                        and isinstance(node.func.value, ast.Name):
                    out.setdefault((mod.name, root.id), []).append(f"{f.qualname}: {src(node, 60)}")
    return out


def _attr_reads(f: FunctionInfo, roots: Dict[str, str], ctx: Ctx, seen: Optional[Set[str]] = None) -> Set[str]:
    """Attribute paths '<root>.<attr>' read in *f* (roots: local expression text -> canonical root), followed through self.m() calls of the same class."""
    seen = seen if seen is not None else set()
    if f.fq in seen:
        return set()
    seen.add(f.fq)
    out: Set[str] = set()
    for node in body_walk(f.node):
        if isinstance(node, ast.Attribute) and isinstance(node.ctx, ast.Load):
            base = ast.unparse(node.value)
            if base in roots:
                out.add(f"{roots[base]}.{node.attr}")
    sn = f.param_names()[0] if f.param_names() and f.cls is not None else None
    if sn is not None:
        for node in body_walk(f.node):
            if isinstance(node, ast.Call) and isinstance(node.func, ast.Attribute) and isinstance(node.func.value, ast.Name) and node.func.value.id == sn:
                m = ctx.p.lookup_member(f.cls, node.func.attr) if f.cls is not None else None
                if m and m[0] == "method":
                    g = m[1]
                    gsn = g.param_names()[0] if g.param_names() else "self"
                    sub_roots = {k.replace(sn + ".", gsn + ".", 1) if k.startswith(sn + ".") else k: v for k, v in roots.items() if k.startswith(sn + ".")}
                    out |= _attr_reads(g, sub_roots, ctx, seen)
    return out


def shared_state(ctx: Ctx, roots: Iterable[str], what: str) -> None:
    """No function in the call tree of *roots* consults process-wide run-time state, except through a cache whose key covers its inputs."""
    p = ctx.p
    cg = callgraph(ctx)
    state = _module_state(ctx)
    reach: Set[str] = set()
    for r in roots:
        reach |= cg.reach(p.func(r))
    n_funcs = 0
    n_hits = 0
    for fq in sorted(reach):
        f = p.functions.get(fq)
        if f is None or f.module.is_test:
            continue
        n_funcs += 1
        mod = f.module.name
        local_stores = {n.id for n in body_walk(f.node) if isinstance(n, ast.Name) and isinstance(n.ctx, ast.Store)} | set(f.param_names())
        globals_declared = {n for node in body_walk(f.node) if isinstance(node, ast.Global) for n in node.names}
        used = sorted({n.id for n in body_walk(f.node) if isinstance(n, ast.Name) and (mod, n.id) in state and (n.id not in local_stores or n.id in globals_declared)})
        for name in used:
            n_hits += 1
            changes = state[(mod, name)]
            verdict, detail = _judge_cache(ctx, f, name)
            if verdict == "ok":
                ctx.ok("R-STATE", f, f"'{name}' is a cache whose key covers what the cached computation reads", detail, node=f.node)
            elif verdict == "bad":
                ctx.bad("R-STATE", f, f"{what}: {f.qualname} consults module-level state '{name}'", f"{detail} (changed at run time by: {'; '.join(changes[:2])})", node=f.node)
            else:
                raise AnalysisError(f"{f.fq}: module-level state '{name}' ({'; '.join(changes[:2])}) is consulted in a way that is not recognised: {detail}")
    # memoised functions: a functools cache is process-wide state keyed by == / hash of the arguments
    for fq in sorted(reach):
        f = p.functions.get(fq)
        if f is None or f.module.is_test:
            continue
        memo = [d for d in f.decorators() if d.split("(")[0].split(".")[-1] in ("lru_cache", "cache", "cached_property") and d.split("(")[0].split(".")[-1] != "cached_property"]
        if not memo:
            continue
        n_hits += 1
        params = set(f.param_names())
        typed = [src(n, 60) for n in body_walk(f.node) if isinstance(n, ast.Call) and isinstance(n.func, ast.Name) and n.func.id in ("isinstance", "type", "issubclass") and n.args
                 and any(isinstance(x, ast.Name) and x.id in params for x in ast.walk(n.args[0]))]
        ctor = [src(n, 60) for n in body_walk(f.node) if isinstance(n, ast.Call) and isinstance(n.func, ast.Attribute) and n.func.attr == "__new__"
                and any(isinstance(x, ast.Name) and x.id in params for a in n.args[1:] for x in ast.walk(a))]
        if typed or ctor:
            ctx.bad("R-STATE", f, f"{what}: {f.qualname} is memoised (@{memo[0]})",
                    f"the cache is keyed by == / hash of the arguments, which identifies 1, 1.0, True and Fraction(1) (and 0.046875 with Fraction(3, 64)), but the function's result depends on the "
                    f"argument's type ({(typed + ctor)[0]}): a call answers with what an earlier call with an equal argument of another type produced", node=f.node)
        else:
            raise AnalysisError(f"{f.fq}: memoised with @{memo[0]}; whether equal arguments always give interchangeable results is not decided here")
    # class-level mutable objects changed through an instance: one object shared by every instance of the class
    seen_cls = set()
    for fq in sorted(reach):
        f = p.functions.get(fq)
        if f is None or f.module.is_test or f.cls is None or f.cls.fq in seen_cls:
            continue
        seen_cls.add(f.cls.fq)
        ci = f.cls
        mutable = {}
        for nm, v in ci.assigns.items():
            if isinstance(v, (ast.List, ast.Dict, ast.Set, ast.ListComp, ast.DictComp, ast.SetComp)) or (
                    isinstance(v, ast.Call) and isinstance(v.func, ast.Name) and v.func.id in ("list", "dict", "set", "deque", "defaultdict", "OrderedDict", "Counter", "bytearray")):
                mutable[nm] = v
        if not mutable:
            continue
        for m in ci.methods.values():
            if not m.param_names() or "staticmethod" in m.decorators():
                continue
            sn = m.param_names()[0]
            rebound = {n.attr for n in body_walk(m.node) if isinstance(n, ast.Attribute) and isinstance(n.ctx, ast.Store) and isinstance(n.value, ast.Name) and n.value.id == sn}
            for node in body_walk(m.node):
                hit = None
                if isinstance(node, ast.Call) and isinstance(node.func, ast.Attribute) and node.func.attr in MUTATORS and isinstance(node.func.value, ast.Attribute) \
                        and isinstance(node.func.value.value, ast.Name) and node.func.value.value.id == sn and node.func.value.attr in mutable:
                    hit = node.func.value.attr
                if isinstance(node, (ast.Assign, ast.AugAssign, ast.Delete)):
                    for t in (node.targets if isinstance(node, (ast.Assign, ast.Delete)) else [node.target]):
                        if isinstance(t, ast.Subscript) and isinstance(t.value, ast.Attribute) and isinstance(t.value.value, ast.Name) and t.value.value.id == sn and t.value.attr in mutable:
                            hit = t.value.attr
                if hit is None:
                    continue
                init = ci.methods.get("__init__")
                init_rebinds = init is not None and any(isinstance(n, ast.Attribute) and isinstance(n.ctx, ast.Store) and isinstance(n.value, ast.Name) and n.value.id == init.param_names()[0]
                                                        and n.attr == hit for n in body_walk(init.node))
                if init_rebinds or hit in rebound:
                    continue  # every instance gets its own object before this method can change it (judged leniently: any re-binding through self)
                n_hits += 1
                ctx.bad("R-STATE", m, f"{what}: {ci.name}.{hit} is one object shared by every {ci.name}",
                        f"'{hit} = {src(mutable[hit], 40)}' in the class body creates a single object; {m.name}() changes it through {sn}.{hit} ({src(node, 60)}) and no instance ever gets its own: "
                        f"what one {ci.name} stores there is what every other one reads", node=node)
                break
    ctx.floor(f"functions examined for shared state ({what})", n_funcs, 1)
    if not n_hits:
        ctx.ok("R-STATE", (p.func(next(iter(roots))).module.name, ""), f"{what}: no function in the call tree reads module-level state that is changed at run time", f"{n_funcs} functions, {len(state)} state objects in the package")


def _judge_cache(ctx: Ctx, f: FunctionInfo, name: str) -> Tuple[str, str]:
    params = set(f.param_names())
    # 1. identity-keyed
    for node in body_walk(f.node):
        if isinstance(node, ast.Compare) and any(isinstance(op, (ast.Is, ast.IsNot)) for op in node.ops):
            sides = [node.left] + list(node.comparators)
            if any(any(isinstance(x, ast.Name) and x.id == name for x in ast.walk(s)) for s in sides):
                others = [s for s in sides if not any(isinstance(x, ast.Name) and x.id == name for x in ast.walk(s))]
                if any(isinstance(o, ast.Name) and o.id in params for o in others):
                    return "bad", f"the remembered value is reused when '{src(node)}' says it is the same object: the object's contents may have changed since (identity is not a key for a mutable argument)"
        if isinstance(node, ast.Call) and isinstance(node.func, ast.Name) and node.func.id == "id" and any(isinstance(a, ast.Name) and a.id in params for a in node.args):
            return "bad", "the cache is keyed by id() of an argument: the object's contents may have changed since, and ids are reused"
    # 2. dict-keyed: K in S / S[K] / S.get(K)
    keys: List[ast.AST] = []
    for node in body_walk(f.node):
        if isinstance(node, ast.Compare) and len(node.ops) == 1 and isinstance(node.ops[0], (ast.In, ast.NotIn)) and isinstance(node.comparators[0], ast.Name) and node.comparators[0].id == name:
            keys.append(node.left)
        if isinstance(node, ast.Subscript) and isinstance(node.value, ast.Name) and node.value.id == name:
            keys.append(node.slice)
        if isinstance(node, ast.Call) and isinstance(node.func, ast.Attribute) and node.func.attr in ("get", "setdefault") and isinstance(node.func.value, ast.Name) and node.func.value.id == name and node.args:
            keys.append(node.args[0])
    if not keys:
        return "bad", f"'{name}' is not looked up by a key here: the function simply reads an object that other calls change, so its answer depends on what was called before"
    ktexts = {ast.unparse(inline(k, f)) for k in keys}
    if len(ktexts) != 1:
        return "unknown", f"several different keys: {sorted(ktexts)}"
    key = inline(keys[0], f)
    # roots: parameters, and self.<field> assigned from a parameter in this function (alias)
    roots: Dict[str, str] = {q: q for q in params}
    for node in body_walk(f.node):
        if isinstance(node, ast.Assign) and len(node.targets) == 1 and isinstance(node.value, ast.Name) and node.value.id in params:
            roots[ast.unparse(node.targets[0])] = node.value.id
    # expand local aliases inside the key (td = timing_data)
    key_attrs: Set[str] = set()
    whole: Set[str] = set()
    for n in ast.walk(key):
        if isinstance(n, ast.Attribute):
            base = ast.unparse(n.value)
            if base in roots:
                key_attrs.add(f"{roots[base]}.{n.attr}")
        if isinstance(n, ast.Name) and n.id in params:
            # the parameter itself (not as the base of an attribute) is part of the key
            pass
    for n in ast.walk(key):
        if isinstance(n, ast.Name) and n.id in params:
            par_is_attr_base = any(isinstance(a, ast.Attribute) and a.value is n for a in ast.walk(key))
            if not par_is_attr_base:
                whole.add(n.id)
    # a whole argument as the key: compared by == / hash.  An object of a class of this package that defines neither __eq__ nor __hash__ (and is not
    # a record) is compared by identity, and its contents can change while it stays the same key
    for q in sorted(whole):
        ann = next((a.annotation for a in f.node.args.posonlyargs + f.node.args.args + f.node.args.kwonlyargs if a.arg == q), None)
        tname = ann.id if isinstance(ann, ast.Name) else (ann.value if isinstance(ann, ast.Constant) and isinstance(ann.value, str) else None)
        if tname:
            cands = [c for c in ctx.p.nontest_classes() if c.name == tname]
            if len(cands) == 1:
                ci = cands[0]
                members = set()
                for c in ctx.p.mro(ci):
                    members |= set(getattr(c, "methods", {}) or {})
                    if not hasattr(c, "methods"):
                        members |= {"__eq__", "__hash__"}  # a stdlib base (tuple, Fraction, OrderedDict ..) brings value comparison
                if "__eq__" not in {m.split("@")[0] for m in members}:
                    return "bad", (f"the cache is keyed by the argument '{q}' itself: a {tname} object is compared by identity (the class defines no __eq__ / __hash__) and can be "
                                   f"changed in place, so a later call with the same object is answered from what its contents were earlier")
    reads = _attr_reads(f, roots, ctx)
    reads = {r for r in reads if r.split(".")[0] not in whole and r.split(".")[0] != (f.param_names()[0] if f.cls is not None else "")}
    # attributes that are methods of the root's class are not data
    missing = sorted(r for r in reads - key_attrs if not r.split(".")[1].startswith("__"))
    if missing:
        return "bad", f"the cache key {src(key, 80)} does not cover {missing}, which the cached computation reads: two inputs that differ only there share one answer"
    return "ok", f"key {src(key, 60)} covers {sorted(reads)}"
