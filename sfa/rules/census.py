"""
R-CENSUS: the methods through which the simfile / chart mappings are written, read, compared and serialized are exactly
the ones the other rules examine.  A new definition of one of these names anywhere in the hierarchy (an override of
serialize, _parse, __setitem__ ...) means the examined function is no longer what runs for that class.
"""
from __future__ import annotations

from typing import Dict, Iterable, List, Set, Tuple

from ..engine import ClassInfo
from ..report import Ctx

ROOTS = ("simfile.base.BaseSimfile", "simfile.base.BaseChart", "simfile.base.BaseCharts", "simfile._private.serializable.Serializable")

# names whose definition anywhere in the hierarchy changes what the mapping holds, what is written or what is read
WATCHED = {"serialize", "__str__", "_parse", "__init__", "__setitem__", "__getitem__", "__delitem__", "__eq__", "__ne__", "__iter__", "__contains__", "__len__", "__reversed__", "__missing__",
           "items", "keys", "values", "get", "pop", "popitem", "update", "setdefault", "clear", "move_to_end", "copy", "__getattr__", "__getattribute__", "__setattr__", "__delattr__",
           "__new__", "__init_subclass__", "__class_getitem__", "__or__", "__ior__", "__ror__", "from_str", "from_msd", "_from_msd", "charts", "charts@setter", "blank", "append", "extend", "insert",
           "__hash__", "__bool__"}

# confirmed by hand on the repaired tree: where each watched name is defined
BASELINE: Dict[str, Set[str]] = {
    "simfile.base.BaseChart": {"_parse", "blank"},
    "simfile.base.BaseCharts": {"__init__", "serialize"},
    "simfile.base.BaseSimfile": {"__eq__", "__init__", "__ne__", "_parse", "blank", "charts", "serialize"},
    "simfile.sm.SMChart": {"__delitem__", "__eq__", "__getitem__", "__setitem__", "_from_msd", "_parse", "blank", "from_msd", "from_str", "pop", "popitem", "serialize", "update"},
    "simfile.sm.SMCharts": set(),
    "simfile.sm.SMSimfile": {"_parse", "blank", "charts", "charts@setter"},
    "simfile.ssc.SSCChart": {"_parse", "blank", "from_str", "serialize"},
    "simfile.ssc.SSCCharts": set(),
    "simfile.ssc.SSCSimfile": {"_parse", "blank", "charts", "charts@setter"},
    "simfile._private.serializable.Serializable": {"__str__", "serialize"},
}


def hierarchy(ctx: Ctx) -> List[ClassInfo]:
    p = ctx.p
    out = []
    for ci in p.nontest_classes():
        names = [getattr(b, "fq", getattr(b, "name", "")) for b in p.mro(ci)]
        if any(r in names for r in ROOTS):
            out.append(ci)
    return out


def mechanism_census(ctx: Ctx, names: Iterable[str], what: str, modules: Iterable[str] = ()) -> None:
    """No class of the hierarchy defines one of *names* beyond the definitions the rules examine."""
    names = set(names)
    modules = set(modules)
    n = 0
    for ci in hierarchy(ctx):
        if modules and ci.module.name not in modules:
            continue
        have = {m for m in ci.methods if m in WATCHED}
        base = BASELINE.get(ci.fq)
        n += 1
        if base is None:
            extra = sorted(have & names)
            if extra:
                ctx.bad("R-CENSUS", ci, f"{what}: new class {ci.name} defines {extra}", f"{ci.fq} is a new member of the simfile/chart hierarchy that defines {extra}: "
                        "these are not the functions the rules examine, so what this class writes / reads / compares is not covered", node=ci.node)
            continue
        extra = sorted((have - base) & names)
        for m in extra:
            ctx.bad("R-CENSUS", ci, f"{what}: {ci.name}.{m} is a new definition", f"{ci.fq}.{m} overrides (or adds) '{m}', which the examined implementation no longer decides for this class: "
                    f"{what} is judged on the definitions {sorted(base & names) or 'inherited ones'} only", node=ci.methods[m].node)
        if not extra:
            ctx.ok("R-CENSUS", ci, f"{what}: no unexamined definition in {ci.name}", f"defines {sorted(have & names)}", node=ci.node)
    ctx.floor(f"classes of the simfile/chart hierarchy ({what})", n, 3 if modules else 10)
