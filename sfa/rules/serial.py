"""
Writer / reader rules for the SM and SSC (de)serializers (properties C01-C04).
"""
from __future__ import annotations

import ast
from typing import Any, Dict, List, Optional, Sequence, Tuple

from ..engine import AnalysisError, ClassInfo, External, FunctionInfo, body_walk, norm, src, walk_no_nested
from ..facts import value_is_optional
from ..flow import cfg_node_of, inline, locals_of, same
from ..report import Ctx
from .common import (calls, calls_named, callee_name, ev, fact_eq_const, fact_in_table, fact_is_none, facts, for_loops, in_body,
                     is_method_call_on, loop_must_pass, method_calls, name_bindings_values, one, parent, parents, require,
                     self_attr, string_parts, try_ev, unparse_facts)

MSDPARAM = "msdparser.parameter.MSDParameter"
SPEC_SM_FIELDS = ("STEPSTYPE", "DESCRIPTION", "DIFFICULTY", "METER", "RADARVALUES", "NOTES")
SPEC_MULTI = ("ATTACKS", "DISPLAYBPM")

BASE_SERIALIZE = "simfile.base:BaseSimfile.serialize"
CHARTS_SERIALIZE = "simfile.base:BaseCharts.serialize"
SMCHART_SERIALIZE = "simfile.sm:SMChart.serialize"
SSCCHART_SERIALIZE = "simfile.ssc:SSCChart.serialize"
PARSERS = {
    "sm_simfile": "simfile.sm:SMSimfile._parse",
    "sm_chart": "simfile.sm:SMChart._parse",
    "ssc_simfile": "simfile.ssc:SSCSimfile._parse",
    "ssc_chart": "simfile.ssc:SSCChart._parse",
}
FROM_MSD = "simfile.sm:SMChart._from_msd"


def is_msdparam(ctx: Ctx, fi: FunctionInfo, call: ast.Call) -> bool:
    n = callee_name(ctx, fi, call)
    return n in ("msdparser.MSDParameter", MSDPARAM)


def multi_table(ctx: Ctx) -> Tuple[str, ...]:
    t = ctx.p.class_const("simfile.base.BaseSimfile", "MULTI_VALUE_PROPERTIES")
    return tuple(t)


def param_elts(fi: FunctionInfo, call: ast.Call) -> List[ast.expr]:
    if len(call.args) != 1 or call.keywords:
        raise AnalysisError(f"MSDParameter call with unexpected arguments in {fi.fq}: {src(call)}")
    arg = inline(call.args[0], fi)
    if not isinstance(arg, (ast.Tuple, ast.List)):
        raise AnalysisError(f"MSDParameter components are not a literal sequence in {fi.fq}: {src(call)}")
    return list(arg.elts)


def items_loops(fi: FunctionInfo) -> List[ast.For]:
    out = []
    for lp in for_loops(fi):
        it = lp.iter
        if (isinstance(it, ast.Call) and isinstance(it.func, ast.Attribute) and it.func.attr == "items" and not it.args
                and isinstance(it.func.value, ast.Name) and it.func.value.id == "self"
                and isinstance(lp.target, ast.Tuple) and len(lp.target.elts) == 2
                and all(isinstance(e, ast.Name) for e in lp.target.elts)):
            out.append(lp)
    return out


# ---------------------------------------------------------------------------
# writers


def table_spec(ctx: Ctx, fmt: str = "both") -> None:
    """The repo's tables equal the tables of the property statement."""
    p = ctx.p
    if fmt in ("sm", "both"):
        sm = tuple(p.const("simfile.sm", "SM_CHART_PROPERTIES"))
        ctx.expect("R-TABLE", ("simfile.sm", ""), "SM_CHART_PROPERTIES == documented field order", sm == SPEC_SM_FIELDS,
                   f"{sm}", f"table is {sm}, documented order is {SPEC_SM_FIELDS}")
    mv = multi_table(ctx)
    ctx.expect("R-TABLE", ("simfile.base", "BaseSimfile"), "MULTI_VALUE_PROPERTIES == {ATTACKS, DISPLAYBPM}",
               set(mv) == set(SPEC_MULTI) and len(mv) == len(set(mv)), f"{mv}", f"table is {mv}, documented set is {SPEC_MULTI}")


def smchart_writer_fields(ctx: Ctx) -> None:
    """C01.1/2: SMChart.serialize writes NOTES + the six fields in table order + extradata; decorations are blank."""
    p = ctx.p
    fi = p.func(SMCHART_SERIALIZE)
    ci = p.cls("simfile.sm.SMChart")
    desc = p.descriptors(ci)
    table = tuple(p.const("simfile.sm", "SM_CHART_PROPERTIES"))
    pcalls = [c for c in calls(fi) if is_msdparam(ctx, fi, c)]
    call = one(pcalls, f"MSDParameter construction in {fi.fq}")
    elts = param_elts(fi, call)
    require(len(elts) >= 2, f"{fi.fq}: MSDParameter has no components")
    first = elts[0]
    ctx.expect("R-TABLE", fi, "param[0] == 'NOTES'", isinstance(first, ast.Constant) and first.value == "NOTES",
               "key is the literal NOTES", f"first component is {src(first)}", node=call)
    keys: List[str] = []
    stars: List[ast.expr] = []
    sn = fi.param_names()[0]
    for i, e in enumerate(elts[1:], start=1):
        if isinstance(e, ast.Starred):
            stars.append(e.value)
            if i != len(elts) - 1:
                ctx.bad("R-TABLE", fi, "written field order == SM_CHART_PROPERTIES", f"a variable number of components ({src(e, 60)}) is written before the note data: the six fields are not "
                        f"written one by one in the documented order {list(table)} (the reader zips the components with that table)", node=call)
                return
            continue
        require(not stars, f"{fi.fq}: field after the starred extras")
        parts = string_parts(e)
        if parts is None:
            raise AnalysisError(f"{fi.fq}: component {i} has an unrecognised shape: {src(e)}")
        exprs = [x for k, x in parts if k == "expr"]
        fmts = [x for k, x in parts if k == "fmt"]
        lits = "".join(x for k, x in parts if k == "lit")
        if fmts or len(exprs) != 1:
            raise AnalysisError(f"{fi.fq}: component {i} does not interpolate exactly one plain expression: {src(e)}")
        x = exprs[0]
        key = None
        a = self_attr(x, sn)
        if a is not None and a in desc:
            key = desc[a].key
        elif isinstance(x, ast.Subscript) and isinstance(x.value, ast.Name) and x.value.id == sn:
            key = try_ev(ctx, fi, x.slice)
        if not isinstance(key, str):
            raise AnalysisError(f"{fi.fq}: component {i} is not a chart field: {src(x)}")
        keys.append(key)
        ctx.expect("R-WS", fi, f"decoration of field {key} is whitespace", lits.strip() == "",
                   repr(lits), f"constant text {lits!r} around {key} would not survive the reader's strip()", node=call)
    ctx.expect("R-TABLE", fi, "written field order == SM_CHART_PROPERTIES", tuple(keys) == table,
               f"{keys}", f"writer emits {keys}, reader zips {list(table)}", node=call)
    # extras
    if len(stars) != 1:
        ctx.bad("R-TABLE", fi, "extradata appended after the six fields", f"{len(stars)} starred component(s)", node=call)
    else:
        s = stars[0]
        names = {self_attr(n, sn) for n in ast.walk(s)} - {None}
        okx = names == {"extradata"}
        # accepted: self.extradata or [] / () ; list(self.extradata or ...)
        if isinstance(s, ast.BoolOp) and isinstance(s.op, ast.Or):
            okx = okx and self_attr(s.values[0], sn) == "extradata" and all(
                isinstance(v, (ast.List, ast.Tuple)) and not v.elts for v in s.values[1:])
        elif self_attr(s, sn) == "extradata":
            # *self.extradata raises TypeError when extradata is None (the class default)
            okx = False
        else:
            raise AnalysisError(f"{fi.fq}: extras expression has an unrecognised shape: {src(s)}")
        ctx.expect("R-TABLE", fi, "extradata appended after the six fields", okx, src(s),
                   f"extras expression {src(s)} is not 'self.extradata or []'", node=call)
    # the parameter is written on every path
    cfg = ctx.cfg(fi)
    fparam = fi.param_names()[1] if len(fi.param_names()) > 1 else "file"
    wnodes = []
    for w in method_calls(fi, "write"):
        if isinstance(w.func.value, ast.Name) and w.func.value.id == fparam and len(w.args) == 1:
            arg = inline(w.args[0], fi)
            if any(n is not None and isinstance(n, ast.Call) and norm(n) == norm(inline(call, fi)) for n in ast.walk(arg)):
                wnodes.append(cfg_node_of(cfg, fi, w))
    bad = cfg.must_pass(wnodes) if wnodes else [cfg.entry, cfg.exit]
    ctx.expect("R-ORDER", fi, "the NOTES parameter is written on every path", bad is None, f"{len(wnodes)} write(s)",
               "a path reaches the end of serialize without writing the parameter", node=call)


def writer_item_loop(ctx: Ctx, fq: str, notes_exempt: bool) -> None:
    """
    C01.3/4, C02.3/5: in the item loop of a serializer every MSDParameter is built as
      (key,)                      exactly when the value is None
      (key, *value.split(":"))    exactly under key in MULTI_VALUE_PROPERTIES
      (key, value)                otherwise
    and every iteration writes its parameter.
    """
    p = ctx.p
    fi = p.func(fq)
    cfg = ctx.cfg(fi)
    multi = multi_table(ctx)
    loops = items_loops(fi)
    loop = one(loops, f"'for key, value in self.items()' loop in {fq}")
    kname, vname = loop.target.elts[0].id, loop.target.elts[1].id
    kvar, vvar = ast.Name(id=kname, ctx=ast.Load()), ast.Name(id=vname, ctx=ast.Load())
    forms = {"keyonly": 0, "split": 0, "plain": 0}
    pcalls = [c for c in calls(fi) if is_msdparam(ctx, fi, c) and in_body(loop, c)]
    # what is written must be built by MSDParameter (which escapes every component), never by hand
    fparam_ = fi.param_names()[1] if len(fi.param_names()) > 1 else "file"
    handmade = 0
    for w in method_calls(fi, "write"):
        if not (in_body(loop, w) and isinstance(w.func.value, ast.Name) and w.func.value.id == fparam_ and len(w.args) == 1):
            continue
        for k_, x in (string_parts(w.args[0]) or []):
            if k_ == "expr" and isinstance(x, ast.Name):
                for b in locals_of(fi).b.get(x.id, []):
                    if b.kind == "assign" and b.value is not None and in_body(loop, b.node) and not any(isinstance(n, ast.Call) and n in pcalls for n in ast.walk(b.value)):
                        handmade += 1
                        ctx.bad("R-WS", fi, f"parameter text for the item is built by MSDParameter", f"{x.id} = {src(b.value)} under {unparse_facts(facts(ctx, fi, b.node))}: "
                                "the text is assembled by hand, so '\\', ';' and '//' inside the value are not escaped", node=b.node)
    sites: List[Tuple[List[ast.expr], ast.AST]] = []
    for c in pcalls:
        a0 = c.args[0] if len(c.args) == 1 and not c.keywords else None
        if isinstance(a0, ast.Name):
            tb = [b for b in locals_of(fi).b.get(a0.id, []) if b.kind == "assign"]
            if tb and all(isinstance(b.value, (ast.Tuple, ast.List)) for b in tb) and len(tb) == len(locals_of(fi).b.get(a0.id, [])):
                for b in tb:
                    sites.append((list(b.value.elts), b.node))
                continue
        sites.append((param_elts(fi, c), c))
    for elts, c in sites:
        fs = facts(ctx, fi, c)
        in_multi = fact_in_table(ctx, fi, fs, kvar, multi)
        v_none = fact_is_none(fs, vvar)
        where = unparse_facts(fs)
        if not (elts and isinstance(elts[0], ast.Name) and elts[0].id == kname):
            ctx.bad("R-TABLE", fi, f"item parameter {src(c, 50)}: key component", f"first component is {src(elts[0]) if elts else '-'}, not the item key", node=c)
            continue
        rest = elts[1:]
        if not rest:
            forms["keyonly"] += 1
            ctx.expect("R-NULL", fi, "key-only parameter emitted only for a None value", v_none is True,
                       where, f"(key,) is built under {where}: a real value would be dropped", node=c)
            continue
        if len(rest) == 1 and isinstance(rest[0], ast.Starred):
            forms["split"] += 1
            s = rest[0].value
            good = (isinstance(s, ast.Call) and isinstance(s.func, ast.Attribute) and s.func.attr == "split"
                    and isinstance(s.func.value, ast.Name) and s.func.value.id == vname
                    and len(s.args) == 1 and not s.keywords and try_ev(ctx, fi, s.args[0]) == ":")
            ctx.expect("R-TABLE", fi, "multi-value components are value.split(':')", good, src(s),
                       f"components are {src(s)}; the reader joins all components with ':'", node=c)
            ctx.expect("R-TABLE", fi, "split only under key in MULTI_VALUE_PROPERTIES", in_multi is True, where,
                       f"value is split under {where}: an ordinary value containing ':' would lose everything after it", node=c)
            ctx.expect("R-NULL", fi, "split receiver is not None", v_none is False, where,
                       f"{vname}.split is reached with {vname} possibly None (key-only parameter)", node=c)
            continue
        if len(rest) == 1 and isinstance(rest[0], ast.Name) and rest[0].id == vname:
            forms["plain"] += 1
            ctx.expect("R-TABLE", fi, "single escaped component only when key not in MULTI_VALUE_PROPERTIES", in_multi is False, where,
                       f"(key, value) is built under {where}: ATTACKS/DISPLAYBPM would be escaped instead of split", node=c)
            ctx.expect("R-NULL", fi, "value component is not None", v_none is False, where,
                       f"{vname} reaches MSDParameter possibly None (key-only parameter)", node=c)
            continue
        raise AnalysisError(f"{fq}: MSDParameter components have an unrecognised shape: {src(c)}")
    ctx.expect("R-TABLE", fi, "multi-value items are written as separate components", forms["split"] >= 1 or handmade > 0, f"{forms['split']} split form(s)",
               "no (key, *value.split(':')) construction in the item loop: ATTACKS/DISPLAYBPM would be escaped into one component", node=loop)
    ctx.expect("R-TABLE", fi, "ordinary items are written as one escaped component", forms["plain"] >= 1 or handmade > 0, f"{forms['plain']} plain form(s)",
               "no (key, value) construction in the item loop", node=loop)
    if not pcalls:
        raise AnalysisError(f"{fq}: no MSDParameter construction in the item loop")
    # every iteration writes a parameter built in this iteration
    wnodes = _param_write_nodes(ctx, fi, loop, pcalls)
    exempt: List[int] = []
    if notes_exempt:
        for n in walk_body(loop):
            if isinstance(n, ast.Continue):
                fs = facts(ctx, fi, n)
                if _is_notes_key_fact(ctx, fi, fs, kvar):
                    exempt.append(cfg_node_of(cfg, fi, n))
                else:
                    ctx.bad("R-ORDER", fi, "continue in the item loop", f"an item is skipped under {unparse_facts(fs)}", node=n)
    else:
        for n in walk_body(loop):
            if isinstance(n, (ast.Continue, ast.Break)):
                ctx.bad("R-ORDER", fi, f"{type(n).__name__.lower()} in the item loop", f"items are skipped under {unparse_facts(facts(ctx, fi, n))}", node=n)
    bad = loop_must_pass(cfg, loop, wnodes + exempt)
    ctx.expect("R-ORDER", fi, "every item is written", bad is None, f"{len(wnodes)} write site(s), {len(exempt)} notes-item skip(s)",
               "an iteration completes without writing its parameter", node=loop) if bad is None else ctx.bad(
        "R-ORDER", fi, "every item is written", "an iteration completes without writing its parameter", node=loop, path=cfg.describe_path(bad))


def walk_body(loop: ast.AST):
    for st in loop.body:
        yield from walk_no_nested(st)


def _param_write_nodes(ctx: Ctx, fi: FunctionInfo, loop: Optional[ast.AST], pcalls: Sequence[ast.Call]) -> List[int]:
    cfg = ctx.cfg(fi)
    fparam = fi.param_names()[1] if len(fi.param_names()) > 1 else "file"
    pnames = set()
    for c in pcalls:
        par = parent(fi, c)
        if isinstance(par, ast.Assign) and len(par.targets) == 1 and isinstance(par.targets[0], ast.Name):
            pnames.add(par.targets[0].id)
    out = []
    for w in method_calls(fi, "write"):
        if not (isinstance(w.func.value, ast.Name) and w.func.value.id == fparam and len(w.args) == 1):
            continue
        if loop is not None and not in_body(loop, w):
            continue
        parts = string_parts(w.args[0])
        if parts is None:
            continue
        for k, x in parts:
            if k == "expr" and ((isinstance(x, ast.Name) and x.id in pnames) or (isinstance(x, ast.Call) and x in pcalls)):
                out.append(cfg_node_of(cfg, fi, w))
    return out


def _is_notes_key_fact(ctx: Ctx, fi: FunctionInfo, fs, kvar: ast.expr) -> bool:
    """The facts say 'this item is the notes item' by *key*."""
    key = norm(kvar)
    for atom, pol in fs:
        if not pol or not isinstance(atom, ast.Compare) or len(atom.ops) != 1:
            continue
        l, r, op = atom.left, atom.comparators[0], atom.ops[0]
        if isinstance(op, ast.Eq) and (norm(l) == key or norm(r) == key):
            return True
        if isinstance(op, ast.In) and norm(l) == key:
            return True
    return False


FORMAT_WRITERS = {"sm": (BASE_SERIALIZE, CHARTS_SERIALIZE, SMCHART_SERIALIZE), "ssc": (BASE_SERIALIZE, CHARTS_SERIALIZE, SSCCHART_SERIALIZE),
                  "both": (BASE_SERIALIZE, CHARTS_SERIALIZE, SMCHART_SERIALIZE, SSCCHART_SERIALIZE)}
FORMAT_READERS = {"sm": ("sm_simfile", "sm_chart"), "ssc": ("ssc_simfile", "ssc_chart"), "both": ("sm_simfile", "sm_chart", "ssc_simfile", "ssc_chart")}


def serializer_raw_text(ctx: Ctx, fmt: str = "both") -> None:
    """R-WS: every write in a serializer is an MSD parameter plus whitespace - nothing a strict parser calls stray text."""
    p = ctx.p
    n = 0
    for fq in FORMAT_WRITERS[fmt]:
        fi = p.func(fq)
        fparam = fi.param_names()[1] if len(fi.param_names()) > 1 else None
        require(fparam is not None, f"{fq} has no file parameter")
        pcalls = [c for c in calls(fi) if is_msdparam(ctx, fi, c)]
        pnames = set()
        for c in pcalls:
            par = parent(fi, c)
            if isinstance(par, ast.Assign) and len(par.targets) == 1 and isinstance(par.targets[0], ast.Name):
                pnames.add(par.targets[0].id)
        for nm in list(pnames):
            vals = name_bindings_values(fi, nm)
            if not all(v is not None and isinstance(v, ast.Call) and v in pcalls for v in vals):
                pnames.discard(nm)
        for w in method_calls(fi, "write"):
            if not (isinstance(w.func.value, ast.Name) and w.func.value.id == fparam):
                continue
            n += 1
            parts = string_parts(inline(w.args[0], fi, stop=pnames)) if len(w.args) == 1 else None
            if parts is None:
                raise AnalysisError(f"{fq}: write argument has an unrecognised shape: {src(w)}")
            pcall_norms = {norm(inline(c, fi)) for c in pcalls}
            parts = [(k, x) if not (k == "expr" and isinstance(x, ast.Call) and norm(x) in pcall_norms) else ("param", x) for k, x in parts]
            lit = "".join(x for k, x in parts if k == "lit")
            others = [x for k, x in parts if k not in ("lit", "param")]
            good = lit.strip() == "" and all(
                (isinstance(x, ast.Name) and x.id in pnames) or (isinstance(x, ast.Call) and x in pcalls) for x in others)
            ctx.expect("R-WS", fi, f"write({src(w.args[0], 40)}) is parameters + whitespace", good, repr(lit),
                       f"writes {src(w.args[0])}: text outside an MSD parameter (stray text for the strict parser) or unescaped data", node=w)
    ctx.floor("serializer writes", n, 3)


def layout(ctx: Ctx) -> None:
    """C01.5: properties, blank line, charts - in that order; charts in list order."""
    p = ctx.p
    fi = p.func(BASE_SERIALIZE)
    cfg = ctx.cfg(fi)
    loop = one(items_loops(fi), f"item loop in {BASE_SERIALIZE}")
    sn = fi.param_names()[0]
    fparam = fi.param_names()[1]
    lnode = cfg.node_for(loop)
    chart_calls = [c for c in method_calls(fi, "serialize")
                   if isinstance(c.func.value, ast.Attribute) and self_attr(c.func.value, sn) == "charts"
                   and len(c.args) == 1 and isinstance(c.args[0], ast.Name) and c.args[0].id == fparam]
    cc = one(chart_calls, f"self.charts.serialize(file) in {BASE_SERIALIZE}")
    cnode = cfg_node_of(cfg, fi, cc)
    ctx.expect("R-ORDER", fi, "charts are serialized after the properties on every path",
               cfg.dominates(lnode, cnode) and not in_body(loop, cc) and cfg.must_pass([cnode]) is None,
               "", "self.charts.serialize(file) is not reached after the property loop on every path", node=cc)
    seps = [w for w in method_calls(fi, "write") if not in_body(loop, w) and isinstance(w.func.value, ast.Name)
            and w.func.value.id == fparam and len(w.args) == 1 and isinstance(w.args[0], ast.Constant)]
    good = False
    for w in seps:
        wn = cfg_node_of(cfg, fi, w)
        if cfg.dominates(lnode, wn) and cfg.dominates(wn, cnode) and str(w.args[0].value).strip() == "" and "\n" in str(w.args[0].value):
            good = True
    ctx.expect("R-ORDER", fi, "blank line between properties and charts", good, "", "no blank-line write between the property loop and the charts", node=loop)
    # BaseCharts.serialize
    fc = p.func(CHARTS_SERIALIZE)
    ccfg = ctx.cfg(fc)
    snc = fc.param_names()[0]
    cand = [lp for lp in for_loops(fc) if any(isinstance(n, ast.Name) and n.id == snc for n in ast.walk(lp.iter)) and isinstance(lp.target, ast.Name)]
    lp = one(cand, f"loop over the charts in {CHARTS_SERIALIZE}")
    ctx.expect("R-ORDER", fc, "the charts are walked in list order", isinstance(lp.iter, ast.Name), src(lp.iter), f"the loop iterates {src(lp.iter)}, not the list itself: chart order would change", node=lp)
    sc = [c for c in method_calls(fc, "serialize") if isinstance(c.func.value, ast.Name) and c.func.value.id == lp.target.id and in_body(lp, c)]
    bad = loop_must_pass(ccfg, lp, [cfg_node_of(ccfg, fc, c) for c in sc]) if sc else [0]
    skips = [n for n in walk_body(lp) if isinstance(n, (ast.Continue, ast.Break, ast.Return))]
    ctx.expect("R-ORDER", fc, "every chart is serialized, in list order", bad is None and not skips,
               "for chart in self: chart.serialize(file)", "a chart can be skipped or the list is not walked in order", node=lp)
    ctx.expect("R-ORDER", fc, "the chart loop is unconditional", ccfg.must_pass([ccfg.node_for(lp)]) is None, "", "the loop over the charts is not reached on every path", node=lp)


# ---------------------------------------------------------------------------
# SSC chart writer: notes item last, recognised by key


def ssc_notes_item(ctx: Ctx) -> None:
    p = ctx.p
    ci = p.cls("simfile.ssc.SSCChart")
    d = p.descriptors(ci).get("notes")
    require(d is not None, "SSCChart.notes descriptor not found")
    keyset = {d.key, d.alias} - {None}
    ctx.expect("R-TABLE", ci, "SSCChart.notes is NOTES with alias NOTES2", (d.key, d.alias) == ("NOTES", "NOTES2"), repr(d),
               f"declaration is {d!r}; the format's note data keys are NOTES / NOTES2")
    fi = p.func(SSCCHART_SERIALIZE)
    cfg = ctx.cfg(fi)
    sn = fi.param_names()[0]
    loop = one(items_loops(fi), f"item loop in {SSCCHART_SERIALIZE}")
    kname = loop.target.elts[0].id
    lnode = cfg.node_for(loop)
    # 1. NOTEDATA written first
    pcalls = [c for c in calls(fi) if is_msdparam(ctx, fi, c)]
    nd = []
    for c in pcalls:
        el = param_elts(fi, c)
        if el and isinstance(el[0], ast.Constant) and el[0].value == "NOTEDATA":
            nd.append(c)
    ndc = one(nd, f"NOTEDATA parameter in {SSCCHART_SERIALIZE}")
    el = param_elts(fi, ndc)
    ctx.expect("R-TABLE", fi, "NOTEDATA parameter has one empty value", len(el) == 2 and isinstance(el[1], ast.Constant) and el[1].value == "",
               src(ndc), f"{src(ndc)}", node=ndc)
    wn = _param_write_nodes(ctx, fi, None, [ndc])
    ok_first = bool(wn) and all(cfg.dominates(w, lnode) for w in wn) and not any(in_body(loop, n) for n in [ndc])
    ctx.expect("R-ORDER", fi, "NOTEDATA is written before any chart property", ok_first, "", "the NOTEDATA write does not dominate the item loop", node=ndc)
    # 2. how the notes key is chosen
    skip_conts = [n for n in walk_body(loop) if isinstance(n, ast.Continue)]
    require(skip_conts, f"{SSCCHART_SERIALIZE}: no skip of the notes item inside the item loop")
    # the key the final parameter is written under
    post = [c for c in pcalls if c is not ndc and not in_body(loop, c)]
    require(post, f"{SSCCHART_SERIALIZE}: no parameter written after the item loop")
    nk_names = set()
    for c in post:
        raw = c.args[0]
        if not isinstance(raw, (ast.Tuple, ast.List)) or not raw.elts or not isinstance(raw.elts[0], ast.Name):
            raise AnalysisError(f"{SSCCHART_SERIALIZE}: final parameter has an unrecognised shape: {src(c)}")
        nk_names.add(raw.elts[0].id)
    nk = one(sorted(nk_names), "notes-key variable")
    nkvar = ast.Name(id=nk, ctx=ast.Load())
    binds = locals_of(fi).b.get(nk, [])
    consts = set()
    form = None
    for b in binds:
        if b.kind == "assign" and isinstance(b.value, ast.Constant):
            consts.add(b.value.value)
        elif b.kind == "assign" and isinstance(b.value, ast.Name) and b.value.id == kname:
            form = "in-loop"
        else:
            raise AnalysisError(f"{SSCCHART_SERIALIZE}: binding of {nk} has an unrecognised shape")
    if form is None and consts:
        form = "preselected"
    for cont in skip_conts:
        fs = facts(ctx, fi, cont)
        by_key = False
        for atom, pol in fs:
            if pol and isinstance(atom, ast.Compare) and len(atom.ops) == 1:
                l, r, op = atom.left, atom.comparators[0], atom.ops[0]
                if isinstance(op, ast.Eq) and {norm(l), norm(r)} == {norm(ast.Name(id=kname, ctx=ast.Load())), norm(nkvar)}:
                    by_key = True
                    form = form or "preselected"
                if isinstance(op, ast.In) and norm(l) == norm(ast.Name(id=kname, ctx=ast.Load())):
                    t = try_ev(ctx, fi, r)
                    if t is not None and set(t) == keyset:
                        by_key = True
        ctx.expect("R-IDENT", fi, "the notes item is recognised by its key", by_key, unparse_facts(fs),
                   f"the item is skipped under {unparse_facts(fs)}: not a test of the item's key against the notes key "
                   f"(a test on the value drops every property whose value equals or is the note data)", node=cont)
    if form == "preselected":
        # notes_key = NOTES, rebound to the alias exactly when the alias is present and the name is not
        ctx.expect("R-TABLE", fi, "notes key candidates == {NOTES, NOTES2}", consts == keyset, f"{sorted(consts)}",
                   f"candidates {sorted(consts)} differ from the declared key/alias {sorted(keyset)}", node=loop)
        for b in binds:
            if b.kind == "assign" and isinstance(b.value, ast.Constant) and b.value.value == d.alias:
                fs = facts(ctx, fi, b.node)
                selfv = ast.Name(id=sn, ctx=ast.Load())
                has_alias = _fact_contains(ctx, fi, fs, d.alias, selfv)
                has_name = _fact_contains(ctx, fi, fs, d.key, selfv)
                ctx.expect("R-TABLE", fi, "alias chosen exactly when present and the standard key is not",
                           has_alias is True and has_name is False, unparse_facts(fs),
                           f"alias is selected under {unparse_facts(fs)}; the attribute view selects it iff 'NOTES' not in self and 'NOTES2' in self",
                           node=b.node)
        bnodes = [cfg_node_of(cfg, fi, b.node) for b in binds if b.kind == "assign"]
        ctx.expect("R-ORDER", fi, "the notes key is chosen before the loop on every path", cfg.must_pass(bnodes, goal=lnode) is None and not any(in_body(loop, b.node) for b in binds), "",
                   "the item loop can be reached before the notes key is chosen", node=loop)
    elif form == "in-loop":
        pass  # recognised by key inside the loop (checked above)
    else:
        raise AnalysisError(f"{SSCCHART_SERIALIZE}: how the notes key is selected is not recognised")
    # 3. final parameter: (notes_key, self[notes_key]) written after the loop on every path, with two newlines
    finals = _param_write_nodes(ctx, fi, None, post)
    after = [w for w in finals if cfg.dominates(lnode, w)]
    bad = cfg.must_pass(after) if after else [0]
    ctx.expect("R-ORDER", fi, "the notes item is written last on every path", bad is None, f"{len(after)} write(s) after the loop",
               "a path leaves serialize without writing the note data after the other properties", node=loop)
    for c in post:
        el = param_elts(fi, c)
        fs = facts(ctx, fi, c)
        if len(el) == 1:
            # key-only notes: only when the stored value is None
            nn = _notes_value_names(fi, nk, sn)
            isn = any(fact_is_none(fs, ast.Name(id=x, ctx=ast.Load())) is True for x in nn)
            ctx.expect("R-NULL", fi, "key-only notes parameter only for a None value", isn, unparse_facts(fs), "", node=c)
            continue
        require(len(el) == 2, f"{SSCCHART_SERIALIZE}: final parameter has {len(el)} components")
        v = el[1]
        good_src = (isinstance(v, ast.Subscript) and isinstance(v.value, ast.Name) and v.value.id == sn and norm(v.slice) == norm(nkvar))
        ctx.expect("R-TABLE", fi, "the last parameter carries self[notes_key]", good_src, src(v), f"value is {src(v)}", node=c)
        raw = c.args[0].elts[1]
        if isinstance(raw, ast.Name):
            ng = fact_is_none(fs, raw) is False
        else:
            ng = False
        ctx.expect("R-NULL", fi, "notes value is not None where it is serialized", ng, unparse_facts(fs),
                   f"{src(raw)} (a mapping lookup, None for '#NOTES;') reaches MSDParameter unguarded", node=c)


def ssc_skip_is_what_is_written_last(ctx: Ctx) -> None:
    """C18.5: the item loop skips exactly the item that is written after the loop - no other key is left out of the text."""
    p = ctx.p
    fi = p.func(SSCCHART_SERIALIZE)
    loop = one(items_loops(fi), f"item loop in {SSCCHART_SERIALIZE}")
    kname = loop.target.elts[0].id
    pcalls = [c for c in calls(fi) if is_msdparam(ctx, fi, c) and not in_body(loop, c)]
    written = set()
    for c in pcalls:
        raw = c.args[0]
        if isinstance(raw, (ast.Tuple, ast.List)) and raw.elts and isinstance(raw.elts[0], ast.Name):
            written.add(raw.elts[0].id)
    conts = [n for n in walk_body(loop) if isinstance(n, ast.Continue)]
    for cont in conts:
        fs = facts(ctx, fi, cont)
        exact = False
        for atom, pol in fs:
            if pol and isinstance(atom, ast.Compare) and len(atom.ops) == 1 and isinstance(atom.ops[0], ast.Eq):
                names = {getattr(atom.left, "id", None), getattr(atom.comparators[0], "id", None)}
                if kname in names and (names - {kname}) <= written and len(names) == 2:
                    exact = True
        # in-loop selection: the skipped key itself becomes the key written last
        for b in locals_of(fi).b.get(next(iter(written), ""), []):
            if b.kind == "assign" and isinstance(b.value, ast.Name) and b.value.id == kname and in_body(loop, b.node):
                if any(same_branch(fi, b.node, cont) for _ in [0]):
                    exact = True
        ctx.expect("R-TABLE", fi, "the only item skipped in the loop is the one written after it", exact and len(fs) == 1, unparse_facts(fs),
                   f"items are skipped under {unparse_facts(fs)} but only '{sorted(written)}' is written after the loop: a chart holding both NOTES and NOTES2 loses one of them in the text", node=cont)
    ctx.floor("skips in the SSC chart item loop", len(conts), 1)


def same_branch(fi: FunctionInfo, a: ast.AST, b: ast.AST) -> bool:
    pa, pb = parent(fi, a), parent(fi, b)
    return pa is pb


def _notes_value_names(fi: FunctionInfo, nk: str, sn: str) -> List[str]:
    out = []
    for name, bs in locals_of(fi).b.items():
        for b in bs:
            v = b.value
            if b.kind == "assign" and isinstance(v, ast.Subscript) and isinstance(v.value, ast.Name) and v.value.id == sn \
                    and isinstance(v.slice, ast.Name) and v.slice.id == nk:
                out.append(name)
    return out


def _fact_contains(ctx: Ctx, fi: FunctionInfo, fs, const: str, container: ast.expr) -> Optional[bool]:
    for atom, pol in fs:
        if isinstance(atom, ast.Compare) and len(atom.ops) == 1 and norm(atom.comparators[0]) == norm(container):
            v = try_ev(ctx, fi, atom.left)
            if v == const:
                if isinstance(atom.ops[0], ast.In):
                    return pol
                if isinstance(atom.ops[0], ast.NotIn):
                    return not pol
    return None


# ---------------------------------------------------------------------------
# readers


def _param_vars(ctx: Ctx, fi: FunctionInfo) -> List[str]:
    """Locals holding an MSDParameter: loop targets over the parser and next(parser) results."""
    out = set()
    loc = locals_of(fi)
    pnames = set(fi.param_names()[1:2])  # the parser argument
    # aliases: iterator = iter(parser)
    for name, bs in loc.b.items():
        for b in bs:
            if b.kind == "assign" and isinstance(b.value, ast.Call) and isinstance(b.value.func, ast.Name) and b.value.func.id == "iter" \
                    and b.value.args and isinstance(b.value.args[0], ast.Name) and b.value.args[0].id in pnames:
                pnames.add(name)
    for name, bs in loc.b.items():
        for b in bs:
            if b.kind == "for" and isinstance(b.value, ast.Name) and b.value.id in pnames:
                out.add(name)
            if b.kind == "assign" and isinstance(b.value, ast.Call) and isinstance(b.value.func, ast.Name) and b.value.func.id == "next" \
                    and b.value.args and isinstance(b.value.args[0], ast.Name) and b.value.args[0].id in pnames:
                out.add(name)
    return sorted(out)


def reader_keynorm(ctx: Ctx, fmt: str = "both") -> None:
    """R-KEYNORM: a raw param.key never escapes - every read is the receiver of .upper()."""
    p = ctx.p
    total = 0
    for label, fq in PARSERS.items():
        if label not in FORMAT_READERS[fmt]:
            continue
        fi = p.func(fq)
        pv = _param_vars(ctx, fi)
        require(pv, f"{fq}: no MSDParameter variable recognised")
        n = 0
        for node in body_walk(fi.node):
            if isinstance(node, ast.Attribute) and node.attr == "key" and isinstance(node.value, ast.Name) and node.value.id in pv:
                n += 1
                up = is_method_call_on(node, fi, "upper")
                ctx.expect("R-KEYNORM", fi, f"{src(node)} read #{n} is upper-cased", up is not None and not up.args,
                           "", f"raw {src(node)} is used without .upper(): lower-case keys are stored/tested as written", node=node)
        ctx.floor(f"{fi.qualname} key reads", n, 1)
        total += n
    ctx.floor("key reads in the readers", total, 4 if fmt == "both" else 2)


def _is_components_tail(e: ast.expr, pv: Sequence[str]) -> bool:
    return (isinstance(e, ast.Subscript) and isinstance(e.value, ast.Attribute) and e.value.attr == "components"
            and isinstance(e.value.value, ast.Name) and e.value.value.id in pv and isinstance(e.slice, ast.Slice)
            and isinstance(e.slice.lower, ast.Constant) and e.slice.lower.value == 1 and e.slice.upper is None and e.slice.step is None)


_RAW_KEY_OK = [False]


def reader_multi(ctx: Ctx, fmt: str = "both", raw_key_ok: bool = False) -> None:
    _RAW_KEY_OK[0] = raw_key_ok
    try:
        _reader_multi(ctx, fmt)
    finally:
        _RAW_KEY_OK[0] = False


def _reader_multi(ctx: Ctx, fmt: str = "both") -> None:
    """C01.3/C02.3/C03.2: all components joined with ':' exactly under key in MULTI, first component otherwise."""
    p = ctx.p
    multi = multi_table(ctx)
    for label in ("sm_simfile", "ssc_simfile", "ssc_chart"):
        if label not in FORMAT_READERS[fmt]:
            continue
        fi = p.func(PARSERS[label])
        pv = _param_vars(ctx, fi)
        require(pv, f"{fi.fq}: no MSDParameter variable recognised")
        joins = 0
        values = 0
        value_names: set = set()
        for node in body_walk(fi.node):
            # any read of param.components must be a recognised tail
            if isinstance(node, ast.Attribute) and node.attr == "components" and isinstance(node.value, ast.Name) and node.value.id in pv:
                par = parent(fi, node)
                if isinstance(par, ast.Call) and isinstance(par.func, ast.Name) and par.func.id == "len" and par.args == [node]:
                    continue  # counting the components is a test of presence, not a use
                if not (isinstance(par, ast.Subscript) and _is_components_tail(par, pv)):
                    ctx.bad("R-TABLE", fi, f"use of {src(node)}", f"{src(par) if par is not None else src(node)} is not components[1:]", node=node)
                    continue
                user = parent(fi, par)
                # ":".join(tail)
                if isinstance(user, ast.Call) and isinstance(user.func, ast.Attribute) and user.func.attr == "join" and user.args == [par]:
                    joins += 1
                    sep = try_ev(ctx, fi, user.func.value)
                    fs = facts(ctx, fi, user)
                    kvar = _key_var(fi, fs, pv)
                    inm = _fact_in_multi(ctx, fi, fs, pv, multi)
                    ctx.expect("R-TABLE", fi, "components re-joined with ':'", sep == ":", repr(sep), f"separator is {sep!r}, the writer splits on ':'", node=user)
                    ctx.expect("R-TABLE", fi, "all components kept only under key in MULTI_VALUE_PROPERTIES", inm is True, unparse_facts(fs),
                               f"join of all components happens under {unparse_facts(fs)}", node=user)
                    present = any(pol and isinstance(a, ast.Compare) and len(a.ops) == 1 and (
                        (isinstance(a.ops[0], ast.IsNot) and isinstance(a.comparators[0], ast.Constant) and a.comparators[0].value is None and _is_value_read(a.left, pv))
                        or (isinstance(a.ops[0], ast.Gt) and ast.unparse(a.left) in [f"len({v}.components)" for v in pv] and try_ev(ctx, fi, a.comparators[0]) == 1))
                        for a, pol in fs) or any((not pol) and isinstance(a, ast.Compare) and len(a.ops) == 1 and isinstance(a.ops[0], ast.Is)
                                                 and isinstance(a.comparators[0], ast.Constant) and a.comparators[0].value is None and _is_value_read(a.left, pv) for a, pol in fs)
                    ctx.expect("R-NULL", fi, "a key-only multi-value parameter has no value (the join needs at least one value component)", present, unparse_facts(fs),
                               f"':'.join(components[1:]) runs under {unparse_facts(fs)}: for a key-only parameter ('#ATTACKS;') it yields '' instead of no value, so a "
                               f"key-only ATTACKS/DISPLAYBPM does not survive a save/load cycle", node=user)
                    tgt = parent(fi, user)
                    if isinstance(tgt, (ast.Assign, ast.AnnAssign)):
                        for t in (tgt.targets if isinstance(tgt, ast.Assign) else [tgt.target]):
                            if isinstance(t, ast.Name):
                                value_names.add(t.id)
                elif isinstance(user, ast.Call) and callee_name(ctx, fi, user).endswith("SMChart.from_msd"):
                    fs = facts(ctx, fi, user)
                    isnotes = _fact_key_eq(ctx, fi, fs, pv, "NOTES")
                    ctx.expect("R-TABLE", fi, "a chart is built from the components of a NOTES parameter", isnotes is True, unparse_facts(fs),
                               f"SMChart.from_msd is called under {unparse_facts(fs)}", node=user)
                else:
                    ctx.bad("R-TABLE", fi, f"use of {src(par)}", f"components are consumed by {src(user) if user is not None else '?'}", node=node)
            if isinstance(node, ast.Attribute) and node.attr == "value" and isinstance(node.value, ast.Name) and node.value.id in pv:
                values += 1
                fs = facts(ctx, fi, node)
                inm = _fact_in_multi(ctx, fi, fs, pv, multi)
                if _is_none_test_operand(fi, node):
                    values -= 1
                    continue  # 'param.value is (not) None' is a test of presence, not a use of the value
                if inm is not False:
                    # accepted: the read is reachable with key in MULTI only when there is no value at all
                    from ..flow import contradictory
                    keys_ = _key_exprs(fi, pv)
                    kexpr = None
                    for a_, _p in fs:
                        for sub_ in ast.walk(a_):
                            if isinstance(sub_, ast.Compare) and isinstance(sub_.ops[0], (ast.In, ast.NotIn)) and norm(sub_.left) in keys_:
                                t_ = try_ev(ctx, fi, sub_.comparators[0])
                                if t_ is not None and set(t_) == set(multi):
                                    kexpr = sub_
                    if kexpr is not None:
                        assume = list(fs) + [(kexpr, isinstance(kexpr.ops[0], ast.In)), (ast.parse(f"{node.value.id}.value is not None", mode="eval").body, True),
                                             (ast.parse(f"len({node.value.id}.components) > 1", mode="eval").body, True)]
                        if contradictory(assume):
                            inm = False
                ctx.expect("R-TABLE", fi, "first component only when key not in MULTI_VALUE_PROPERTIES", inm is False, unparse_facts(fs),
                           f"{src(node)} (first component only) is used under {unparse_facts(fs)}: further ATTACKS/DISPLAYBPM components would be lost", node=node)
                tgt = parent(fi, node)
                if isinstance(tgt, (ast.Assign, ast.AnnAssign)):
                    for t in (tgt.targets if isinstance(tgt, ast.Assign) else [tgt.target]):
                        if isinstance(t, ast.Name):
                            value_names.add(t.id)
        ctx.floor(f"{fi.qualname} joins", joins, 1)
        ctx.floor(f"{fi.qualname} value reads", values, 1)
        # stores: mapping[key] = value, key upper-cased, value from the two recognised sources
        stores = 0
        for node in body_walk(fi.node):
            if isinstance(node, ast.Assign) and len(node.targets) == 1 and isinstance(node.targets[0], ast.Subscript):
                t = node.targets[0]
                stores += 1
                k = inline(t.slice, fi)
                good_key = (isinstance(k, ast.Call) and isinstance(k.func, ast.Attribute) and k.func.attr == "upper"
                            and isinstance(k.func.value, ast.Attribute) and k.func.value.attr == "key"
                            and isinstance(k.func.value.value, ast.Name) and k.func.value.value.id in pv)
                if _RAW_KEY_OK[0] and isinstance(k, ast.Attribute) and k.attr == "key" and isinstance(k.value, ast.Name) and k.value.id in pv:
                    good_key = True  # keys are upper-case by the property's domain
                ctx.expect("R-KEYNORM", fi, f"store {src(t, 40)} uses the upper-cased key", good_key, src(k), f"store key is {src(k)}", node=node)
                v = node.value
                good_val = False
                if isinstance(v, ast.Name) and v.id in value_names:
                    vals = name_bindings_values(fi, v.id)
                    good_val = all(x is not None and _is_value_source(x, pv) for x in vals)
                else:
                    good_val = _is_value_source(v, pv)
                ctx.expect("R-TABLE", fi, f"store {src(t, 40)} keeps the parameter's value unchanged", good_val, src(v),
                           f"stored value {src(v)} is not param.value / ':'.join(param.components[1:])", node=node)
        ctx.floor(f"{fi.qualname} stores", stores, 2)


def _is_value_read(x: ast.AST, pv: Sequence[str]) -> bool:
    return isinstance(x, ast.Attribute) and x.attr == "value" and isinstance(x.value, ast.Name) and x.value.id in pv


def _is_none_test_operand(fi: FunctionInfo, node: ast.AST) -> bool:
    par = parent(fi, node)
    return isinstance(par, ast.Compare) and len(par.ops) == 1 and isinstance(par.ops[0], (ast.Is, ast.IsNot)) and isinstance(par.comparators[0], ast.Constant) \
        and par.comparators[0].value is None and par.left is node


def _is_value_source(x: ast.expr, pv: Sequence[str]) -> bool:
    if isinstance(x, ast.Attribute) and x.attr == "value" and isinstance(x.value, ast.Name) and x.value.id in pv:
        return True
    if isinstance(x, ast.Call) and isinstance(x.func, ast.Attribute) and x.func.attr == "join" and len(x.args) == 1 and _is_components_tail(x.args[0], pv):
        return True
    return False


def _key_exprs(fi: FunctionInfo, pv: Sequence[str]) -> List[str]:
    """norm() of expressions that denote the upper-cased key: param.key.upper() and locals bound to it."""
    out = []
    for v in pv:
        e = ast.parse(f"{v}.key.upper()", mode="eval").body
        out.append(norm(e))
        if _RAW_KEY_OK[0]:
            out.append(norm(ast.parse(f"{v}.key", mode="eval").body))
    loc = locals_of(fi)
    for name, bs in loc.b.items():
        if bs and all(b.kind == "assign" and b.value is not None and norm(b.value) in out for b in bs):
            out.append(norm(ast.Name(id=name, ctx=ast.Load())))
    return out


def _key_var(fi, fs, pv):
    return _key_exprs(fi, pv)


def _fact_in_multi(ctx: Ctx, fi: FunctionInfo, fs, pv, multi) -> Optional[bool]:
    keys = _key_exprs(fi, pv)
    for atom, pol in fs:
        if isinstance(atom, ast.Compare) and len(atom.ops) == 1 and norm(atom.left) in keys and isinstance(atom.ops[0], (ast.In, ast.NotIn)):
            t = try_ev(ctx, fi, atom.comparators[0])
            try:
                if t is not None and set(t) == set(multi):
                    return pol if isinstance(atom.ops[0], ast.In) else not pol
            except TypeError:
                pass
    return None


def _fact_key_eq(ctx: Ctx, fi: FunctionInfo, fs, pv, const: str) -> Optional[bool]:
    keys = _key_exprs(fi, pv)
    for atom, pol in fs:
        if isinstance(atom, ast.Compare) and len(atom.ops) == 1 and isinstance(atom.ops[0], (ast.Eq, ast.NotEq)):
            l, r = atom.left, atom.comparators[0]
            for a, b in ((l, r), (r, l)):
                if norm(a) in keys and try_ev(ctx, fi, b) == const:
                    return pol if isinstance(atom.ops[0], ast.Eq) else not pol
    return None


class OneOfText(str):
    """A text with accepted alternative spellings (compares equal to any of them)."""

    def __new__(cls, *alts):
        o = str.__new__(cls, alts[0])
        o.alts = tuple(alts)
        return o

    def __eq__(self, other):
        return other in self.alts

    def __ne__(self, other):
        return other not in self.alts

    __hash__ = str.__hash__


def sm_chart_reader(ctx: Ctx) -> None:
    """C01.1 reader side / C03.3 / C04: fewer than six components -> ValueError before anything is stored; the six fields are stored stripped under
    their table keys; further components become extradata; nothing else is stored."""
    p = ctx.p
    fi = p.func(FROM_MSD)
    table = tuple(p.const("simfile.sm", "SM_CHART_PROPERTIES"))
    n = len(table)
    vparam = fi.param_names()[1]
    sn = fi.param_names()[0]
    from .tables import Dec, judge as tjudge, sums_of as tsums, touches
    sums = tsums(ctx, fi)
    loops = {(ast.unparse(e.target), e.line) for s_ in sums for e in s_.effects if e.kind == "for" and ast.unparse(e.value) == f"zip({table!r}, {vparam})"}
    allloops = {e.line for s_ in sums for e in s_.effects if e.kind == "for"}
    ctx.expect("R-TABLE", fi, "the components are zipped with SM_CHART_PROPERTIES in table order", len(loops) == 1 and len(allloops) == 1, str(sorted(loops)), f"loops: {sorted(loops)} of {len(allloops)}", node=fi.node)
    if not (len(loops) == 1 and len(allloops) == 1):
        return
    tgt, line = next(iter(loops))
    tt = ast.parse(tgt, mode="eval").body
    require(isinstance(tt, ast.Tuple) and len(tt.elts) == 2 and all(isinstance(e, ast.Name) for e in tt.elts), f"{FROM_MSD}: zip loop target has an unrecognised shape")
    kn, vn = tt.elts[0].id, tt.elts[1].id
    LT, GT = f"len({vparam}) < {n}", f"len({vparam}) > {n}"
    decs = []
    for s_ in sums:
        if s_.end != "raise" and not any(e.kind == "for" for e in s_.effects):
            continue  # zero fields zipped: impossible once the length guard has passed
        eff = []
        for e in s_.effects:
            if e.kind == "raise":
                ex = e.value.func if isinstance(e.value, ast.Call) else e.value
                eff.append("raise " + (ast.unparse(ex) if ex is not None else ""))
            elif e.kind in ("store", "aug", "delete", "expr") and touches(e, [sn]):
                eff.append(e.text)
        decs.append(Dec(dict(s_.plain_assign()), tuple(eff), s_))

    def spec(a):
        if a[LT]:
            return ("raise ValueError",)
        out = (f"{sn}[{kn}] = {vn}.strip()",)
        if a[GT]:
            return out + (OneOfText(f"{sn}.extradata = list({vparam}[{n}:])", f"{sn}.extradata = {vparam}[{n}:]"),)
        return out

    tjudge(ctx, "R-WS", fi, "fewer than six components -> ValueError before anything is stored; each of the six fields is stored strip()ped under its table key; "
           "components after the six become extradata; nothing else is stored or changed afterwards", decs, [LT, GT], spec,
           equiv={f"len({vparam}) >= {n + 1}": (GT, True), f"len({vparam}) <= {n - 1}": (LT, True), f"{vparam}[{n}:]": (GT, True)},
           why="the writer's line-break/indent decoration must not become part of a field, and a loaded field must not be altered beyond that (a second load would alter it again)")
    # _parse: NOTES key check and components[1:]
    fp = p.func(PARSERS["sm_chart"])
    pv = _param_vars(ctx, fp)
    tails = [c for c in calls(fp) if callee_name(ctx, fp, c).endswith("SMChart._from_msd")]
    c = one(tails, f"self._from_msd(...) call in {fp.fq}")
    ctx.expect("R-TABLE", fp, "chart components are everything after the key", len(c.args) == 1 and _is_components_tail(c.args[0], pv), src(c),
               f"{src(c)} does not pass param.components[1:]", node=c)
    # from_str splits on ':' (deprecated entry point, same funnel)
    fs_ = p.func("simfile.sm:SMChart._from_str")
    cc = [c for c in calls(fs_) if callee_name(ctx, fs_, c).endswith("SMChart._from_msd")]
    c2 = one(cc, f"self._from_msd(...) call in {fs_.fq}")
    a = c2.args[0] if c2.args else None
    good = (isinstance(a, ast.Call) and isinstance(a.func, ast.Attribute) and a.func.attr == "split" and len(a.args) == 1 and not a.keywords
            and try_ev(ctx, fs_, a.args[0]) == ":" and isinstance(a.func.value, ast.Name) and a.func.value.id == fs_.param_names()[1])
    ctx.expect("R-TABLE", fs_, "from_str splits its argument on ':' without a limit", good, src(c2), f"{src(c2)}", node=c2)


def _is_len_cmp(ctx: Ctx, fi: FunctionInfo, atom: ast.expr, var: str, n: int, kind: str) -> bool:
    """``len(var) < n`` (kind lt) or ``len(var) > n`` (kind gt), in either operand order, with <=/>= folded."""
    if not (isinstance(atom, ast.Compare) and len(atom.ops) == 1):
        return False
    l, r, op = atom.left, atom.comparators[0], atom.ops[0]

    def is_len(e):
        return isinstance(e, ast.Call) and isinstance(e.func, ast.Name) and e.func.id == "len" and len(e.args) == 1 \
            and isinstance(e.args[0], ast.Name) and e.args[0].id == var

    if is_len(l):
        c = try_ev(ctx, fi, r)
        o = op
    elif is_len(r):
        c = try_ev(ctx, fi, l)
        o = {ast.Lt: ast.Gt(), ast.Gt: ast.Lt(), ast.LtE: ast.GtE(), ast.GtE: ast.LtE()}.get(type(op))
        if o is None:
            return False
    else:
        return False
    if not isinstance(c, int):
        return False
    if kind == "lt":
        return (isinstance(o, ast.Lt) and c == n) or (isinstance(o, ast.LtE) and c == n - 1)
    return (isinstance(o, ast.Gt) and c == n) or (isinstance(o, ast.GtE) and c == n + 1)


def ssc_chart_opening(ctx: Ctx, relaxed: bool = False) -> None:
    """C02.4: NOTEDATA closes the open chart and opens a new one; later keys go to the open chart; the last chart is appended."""
    p = ctx.p
    fi = p.func(PARSERS["ssc_simfile"])
    cfg = ctx.cfg(fi)
    pv = _param_vars(ctx, fi)
    sn = fi.param_names()[0]
    loops = [lp for lp in for_loops(fi) if isinstance(lp.target, ast.Name) and lp.target.id in pv]
    lp = one(loops, f"parameter loop in {fi.fq}")
    lnode = cfg.node_for(lp)
    # the partial chart variable: the local that is assigned SSCChart()
    pc = None
    for name, bs in locals_of(fi).b.items():
        for b in bs:
            if b.kind == "assign" and isinstance(b.value, ast.Call) and callee_name(ctx, fi, b.value) == "simfile.ssc.SSCChart":
                pc = name
    require(pc is not None, f"{fi.fq}: no local is assigned a new SSCChart()")
    pcv = ast.Name(id=pc, ctx=ast.Load())
    binds = locals_of(fi).b[pc]
    init_none = [b for b in binds if b.kind == "assign" and isinstance(b.value, ast.Constant) and b.value.value is None
                 and cfg.dominates(cfg_node_of(cfg, fi, b.node), lnode) and not in_body(lp, b.node)]
    if relaxed:
        binds = [b for b in binds if not (b.kind == "assign" and isinstance(b.value, ast.Constant) and b.value.value is None and in_body(lp, b.node))]
    ctx.expect("R-ORDER", fi, "no chart is open before the first NOTEDATA", len(init_none) == 1, "", f"{pc} is not initialised to None before the loop", node=lp)
    news = [b for b in binds if b.kind == "assign" and isinstance(b.value, ast.Call)]
    for b in news:
        fs = facts(ctx, fi, b.node)
        is_nd = _fact_key_eq(ctx, fi, fs, pv, "NOTEDATA")
        extra = [a for a, pol in fs if _fact_key_eq(ctx, fi, [(a, pol)], pv, "NOTEDATA") is None]
        ctx.expect("R-TABLE", fi, "a new chart is opened exactly on a NOTEDATA key", is_nd is True and not extra and in_body(lp, b.node), unparse_facts(fs),
                   f"a new chart is opened under {unparse_facts(fs)}", node=b.node)
    ctx.floor("chart openings", len(news), 1)
    appends = [c for c in method_calls(fi, "append") if len(c.args) == 1 and isinstance(c.args[0], ast.Name) and c.args[0].id == pc
               and isinstance(c.func.value, ast.Attribute) and self_attr(c.func.value, sn) == "charts"]
    inl = [c for c in appends if in_body(lp, c)]
    out = [c for c in appends if not in_body(lp, c)]
    d_notes = p.descriptors(p.cls("simfile.ssc.SSCChart"))["notes"]
    notes_keys = {d_notes.key, d_notes.alias} - {None}
    for c in list(inl):
        fs = facts(ctx, fi, c)
        if relaxed:
            # serialized charts end with their note data: closing the chart right after its notes item is equivalent on that text
            keys_ = _key_exprs(fi, pv)
            at_notes = any(pol and isinstance(a, ast.Compare) and isinstance(a.ops[0], ast.In) and norm(a.left) in keys_ and try_ev(ctx, fi, a.comparators[0]) is not None
                           and set(try_ev(ctx, fi, a.comparators[0])) == notes_keys for a, pol in fs)
            if at_notes and fact_is_none(fs, pcv) is False:
                ctx.observe("R-TABLE", fi, "the chart is also closed right after its notes item", unparse_facts(fs), node=c)
                inl.remove(c)
                continue
        ctx.expect("R-TABLE", fi, "the open chart is closed when the next NOTEDATA arrives",
                   _fact_key_eq(ctx, fi, fs, pv, "NOTEDATA") is True and fact_is_none(fs, pcv) is False, unparse_facts(fs),
                   f"in-loop append happens under {unparse_facts(fs)}", node=c)
        # the append precedes the re-binding
        for b in news:
            ctx.expect("R-ORDER", fi, "close precedes the opening of the next chart",
                       _precedes(cfg, cfg_node_of(cfg, fi, c), cfg_node_of(cfg, fi, b.node)), "", "the new chart is created before the open one is appended", node=c)
    ctx.floor("in-loop chart close", len(inl), 1)
    good_out = False
    for c in out:
        fs = facts(ctx, fi, c)
        cn = cfg_node_of(cfg, fi, c)
        others = [a for a, pol in fs if fact_is_none([(a, pol)], pcv) is None]
        if fact_is_none(fs, pcv) is False and not others and cfg.dominates(lnode, cn):
            # reached on every path after the loop when a chart is open
            t = [n for n in cfg.dominators()[cn] if cfg.nodes[n].kind == "test" and n != cn]
            good_out = True
    ctx.expect("R-ORDER", fi, "the last open chart is appended after the loop", good_out, "", "no unconditional 'if chart is open: append' after the parameter loop", node=lp)
    # stores: chart gets the key iff a chart is open
    for node in body_walk(fi.node):
        if isinstance(node, ast.Assign) and len(node.targets) == 1 and isinstance(node.targets[0], ast.Subscript) and isinstance(node.targets[0].value, ast.Name):
            base = node.targets[0].value.id
            fs = facts(ctx, fi, node)
            nd = _fact_key_eq(ctx, fi, fs, pv, "NOTEDATA")
            isn = fact_is_none(fs, pcv)
            if base == pc:
                ctx.expect("R-TABLE", fi, "a parameter after NOTEDATA goes to the open chart", nd is False and isn is False, unparse_facts(fs),
                           f"chart store under {unparse_facts(fs)}", node=node)
            elif base == sn:
                ctx.expect("R-TABLE", fi, "a parameter goes to the simfile only while no chart is open", nd is False and isn is True, unparse_facts(fs),
                           f"simfile store under {unparse_facts(fs)}: parameters after a NOTEDATA would leak into the simfile", node=node)
    # every iteration stores somewhere (or opens a chart)
    targets = []
    for node in walk_body(lp):
        if isinstance(node, ast.Assign) and len(node.targets) == 1:
            t = node.targets[0]
            if isinstance(t, ast.Subscript) and isinstance(t.value, ast.Name) and t.value.id in (pc, sn):
                targets.append(cfg_node_of(cfg, fi, node))
            if isinstance(t, ast.Name) and t.id == pc:
                targets.append(cfg_node_of(cfg, fi, node))
    bad = loop_must_pass(cfg, lp, targets)
    ctx.expect("R-ORDER", fi, "every parameter is stored or opens a chart", bad is None, "", "an iteration completes without storing its parameter",
               node=lp) if bad is None else ctx.bad("R-ORDER", fi, "every parameter is stored or opens a chart",
                                                    "an iteration completes without storing its parameter", node=lp, path=cfg.describe_path(bad))


def _precedes(cfg, a: int, b: int) -> bool:
    """b is reachable from a, and a is not reachable from b without going around a loop header... (same block order)."""
    return b in cfg.reachable(a) and (a not in cfg.reachable(b, removed=[n.id for n in cfg.nodes if n.kind == "for"]))


def ssc_chart_reader(ctx: Ctx) -> None:
    """SSCChart._parse: first key NOTEDATA, stop after the notes item recognised by key."""
    p = ctx.p
    fi = p.func(PARSERS["ssc_chart"])
    cfg = ctx.cfg(fi)
    pv = _param_vars(ctx, fi)
    d = p.descriptors(p.cls("simfile.ssc.SSCChart"))["notes"]
    keyset = {d.key, d.alias} - {None}
    breaks = [n for n in body_walk(fi.node) if isinstance(n, ast.Break)]
    for b in breaks:
        fs = facts(ctx, fi, b)
        keys = _key_exprs(fi, pv)
        by_key = False
        for atom, pol in fs:
            if pol and isinstance(atom, ast.Compare) and len(atom.ops) == 1 and isinstance(atom.ops[0], ast.In) and norm(atom.left) in keys:
                t = try_ev(ctx, fi, atom.comparators[0])
                if t is not None and set(t) == keyset:
                    by_key = True
        ctx.expect("R-IDENT", fi, "parsing stops at the notes item, recognised by key", by_key, unparse_facts(fs),
                   f"the loop stops under {unparse_facts(fs)}: not a test of the upper-cased key against {sorted(keyset)}", node=b)
        # the store precedes the break in the same iteration
    ctx.floor("stop at notes item", len(breaks), 1)
    raises = [n for n in body_walk(fi.node) if isinstance(n, ast.Raise)]
    good = False
    for r in raises:
        fs = facts(ctx, fi, r)
        if _fact_key_eq(ctx, fi, fs, pv, "NOTEDATA") is False:
            good = True
    ctx.expect("R-TABLE", fi, "first parameter must be NOTEDATA", good, "", "no 'first key != NOTEDATA -> raise' guard", node=fi.node)


# ---------------------------------------------------------------------------
# R-NULL sweep over every serializer (thorough / C04)


def null_sweep(ctx: Ctx, fmt: str = "both") -> None:
    """No Optional[str] (values of the mapping: param.value may be None) reaches a string sink unguarded in any serialize()."""
    p = ctx.p
    require(value_is_optional(), "msdparser no longer annotates MSDParameter.value as Optional")
    n = 0
    skip = {"sm": ("simfile.ssc",), "ssc": ("simfile.sm",), "both": ()}[fmt]
    for ci in p.subclasses("simfile._private.serializable.Serializable"):
        if ci.module.is_test or ci.module.name in skip:
            continue
        fi = ci.methods.get("serialize")
        if fi is None:
            continue
        sn = fi.param_names()[0]
        nullable: Dict[str, str] = {}
        for lp in items_loops(fi):
            nullable[lp.target.elts[1].id] = "value of self.items()"
        for name, bs in locals_of(fi).b.items():
            for b in bs:
                v = b.value
                if b.kind == "assign" and isinstance(v, ast.Subscript) and isinstance(v.value, ast.Name) and v.value.id == sn:
                    nullable[name] = "self[...] lookup"
                if b.kind == "assign" and isinstance(v, ast.Call) and isinstance(v.func, ast.Attribute) and v.func.attr == "get" \
                        and isinstance(v.func.value, ast.Name) and v.func.value.id == sn:
                    nullable[name] = "self.get(...) lookup"
        for node in body_walk(fi.node):
            sink = None
            if isinstance(node, ast.Name) and isinstance(node.ctx, ast.Load) and node.id in nullable:
                par = parent(fi, node)
                if isinstance(par, ast.Attribute) and par.value is node and isinstance(parent(fi, par), ast.Call) and parent(fi, par).func is par:
                    sink = f"receiver of .{par.attr}()"
                elif isinstance(par, (ast.Tuple, ast.List)) and par.elts and par.elts[0] is not node and (
                        (isinstance(parent(fi, par), ast.Call) and is_msdparam(ctx, fi, parent(fi, par))) or _feeds_msdparam(ctx, fi, par)):
                    sink = "MSDParameter component"
                elif isinstance(par, ast.BinOp) and isinstance(par.op, ast.Add):
                    sink = "operand of +"
                if sink:
                    n += 1
                    fs = facts(ctx, fi, node)
                    ctx.expect("R-NULL", fi, f"{node.id} ({nullable[node.id]}) as {sink}", fact_is_none(fs, node) is False or _truthy(fs, node),
                               unparse_facts(fs), f"{node.id} may be None here (key-only parameter) and reaches a string sink under {unparse_facts(fs)}", node=node)
            if isinstance(node, ast.Subscript) and isinstance(node.ctx, ast.Load) and isinstance(node.value, ast.Name) and node.value.id == sn:
                par = parent(fi, node)
                if isinstance(par, (ast.Tuple, ast.List)) and isinstance(parent(fi, par), ast.Call) and is_msdparam(ctx, fi, parent(fi, par)) \
                        and par.elts and par.elts[0] is not node:
                    n += 1
                    ctx.bad("R-NULL", fi, f"{src(node)} as MSDParameter component", "a mapping lookup (None for a key-only parameter) reaches MSDParameter unguarded", node=node)
    ctx.floor("nullable string sinks in serializers", n, 2 if fmt == "sm" else 3)


def _feeds_msdparam(ctx: Ctx, fi: FunctionInfo, tup: ast.AST) -> bool:
    """The tuple is assigned to a local that is the sole argument of an MSDParameter(...) call."""
    par = parent(fi, tup)
    if isinstance(par, ast.Assign) and len(par.targets) == 1 and isinstance(par.targets[0], ast.Name):
        nm = par.targets[0].id
        return any(is_msdparam(ctx, fi, c) and len(c.args) == 1 and isinstance(c.args[0], ast.Name) and c.args[0].id == nm for c in calls(fi))
    return False


def _truthy(fs, var: ast.expr) -> bool:
    return any(pol and norm(a) == norm(var) for a, pol in fs)


def str_is_serialize(ctx: Ctx) -> None:
    """str(obj) is exactly what serialize() writes (mutate's backup/output text and the 'second save' clause rely on it)."""
    from ..pat import match
    p = ctx.p
    f = p.func("simfile._private.serializable:Serializable.__str__")
    sn = f.param_names()[0]
    loc = locals_of(f)
    bufs = [n for n, bs in loc.b.items() for b in bs if b.kind == "assign" and isinstance(b.value, ast.Call) and callee_name(ctx, f, b.value).endswith("StringIO") and not b.value.args]
    ok = len(bufs) == 1
    if ok:
        b = bufs[0]
        sc = [c for c in calls(f) if match("$s.serialize($b)", c) is not None and ast.unparse(c.func.value) == sn and ast.unparse(c.args[0]) == b]
        rr = [r for r in body_walk(f.node) if isinstance(r, ast.Return)]
        cfg = ctx.cfg(f)
        ok = len(sc) == 1 and len(rr) == 1 and ast.unparse(rr[0].value) == f"{b}.getvalue()" and cfg.dominates(cfg_node_of(cfg, f, sc[0]), cfg_node_of(cfg, f, rr[0]))
    ctx.expect("R-TABLE", f, "str(x) returns exactly the text x.serialize() writes into a fresh buffer", ok, "", "Serializable.__str__ no longer returns the unmodified getvalue() of the buffer passed to serialize()", node=f.node)
